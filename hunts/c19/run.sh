#!/bin/sh
# Reproduce the C19 hunt. Usage: run.sh <worktree>   (copies the tests in, runs, removes them)
set -e
WT=${1:-/tmp/huntwt-c19}
export CARGO_TARGET_DIR=$WT/target RUST_BACKTRACE=0
mkdir -p $WT/sandbox/tests
cp /tmp/huntout-c19/c19_seq.rs /tmp/huntout-c19/c19_mt.rs /tmp/huntout-c19/c19_global.rs $WT/sandbox/tests/
cd $WT
C19_LEN=${C19_LEN:-4} cargo test --offline -p rink-sandbox --test c19_seq --release -- --nocapture || true
cargo test --offline -p rink-sandbox --test c19_mt --release -- --nocapture --test-threads=1 || true
cargo test --offline -p rink-sandbox --test c19_global --release -- --nocapture --test-threads=1 || true
rm -rf $WT/sandbox/tests
