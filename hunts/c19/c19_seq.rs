// C19 hunt, part 1: exhaustive short sequential histories against a reference ledger.
// Run:  cargo test --offline -p rink-sandbox --test c19_seq [--release] -- --nocapture
// Env:  C19_LEN=<history length, default 3>
use rink_sandbox::Alloc;
use std::alloc::{GlobalAlloc, Layout};

#[derive(Clone, Copy, Debug, PartialEq)]
enum Op {
    Alloc(usize),
    Zeroed(usize),
    Realloc(usize, usize), // slot index (in live list), new size
    Dealloc(usize),        // slot index
}

struct Block {
    ptr: *mut u8,
    size: usize,
    align: usize,
    tag: u8,
}

fn pat(tag: u8, i: usize) -> u8 {
    tag.wrapping_mul(31).wrapping_add(i as u8).wrapping_add(1) | 1
}

unsafe fn fill(b: &Block, from: usize) {
    for i in from..b.size {
        *b.ptr.add(i) = pat(b.tag, i);
    }
}
unsafe fn check(b: &Block, upto: usize, ctx: &str) {
    for i in 0..upto {
        let v = *b.ptr.add(i);
        assert!(v == pat(b.tag, i), "content mismatch at {} of block tag {} ({}): {} != {}", i, b.tag, ctx, v, pat(b.tag, i));
    }
}

fn usage(a: &Alloc) -> usize {
    a.reset_max();
    a.get_max()
}

fn sizes_for(limit: usize, align: usize) -> Vec<usize> {
    let mut v: Vec<usize> = vec![1, 7, 8, limit / 2, (limit / 2).wrapping_add(1), limit.wrapping_sub(1), limit];
    if let Some(x) = limit.checked_add(1) {
        v.push(x);
    }
    v.push(usize::MAX / 2);
    v.push((isize::MAX as usize) & !(align - 1));
    // also a few just-invalid/valid edge values
    v.push(((isize::MAX as usize) & !(align - 1)).wrapping_sub(align - 1).max(1));
    v.retain(|&s| s != 0 && Layout::from_size_align(s, align).is_ok());
    v.sort();
    v.dedup();
    v
}

#[derive(Default)]
struct Stats {
    histories: u64,
    ops: u64,
    succ: u64,
    refused_over: u64,        // refused and ledger+size > limit (required refusal)
    refused_conservative: u64, // refused though live bytes would have fit (allowed)
    refused_parent: u64,      // of the conservative ones: size >= 2^40 (System cannot provide)
    peak_over: u64,           // peak strictly above true high-water (allowed)
}

// mode 0: measure usage (reset) after every op; peak checked before each reset.
// mode 1: never reset mid-history; peak checked after every op; usage at the end only.
unsafe fn run(limit: usize, align: usize, hist: &[Op], mode: u8, st: &mut Stats) {
    let a = Alloc::new(limit);
    let mut live: Vec<Block> = Vec::new();
    let mut ledger: usize = 0;
    let mut hw: usize = 0; // high-water since last reset
    let mut tag: u8 = 0;
    st.histories += 1;
    for (step, op) in hist.iter().enumerate() {
        st.ops += 1;
        let before = ledger;
        let ctx = format!("limit={} align={} mode={} hist={:?} step={}", limit, align, mode, hist, step);
        match *op {
            Op::Alloc(s) | Op::Zeroed(s) => {
                let zero = matches!(op, Op::Zeroed(_));
                let l = Layout::from_size_align(s, align).unwrap();
                let p = if zero { a.alloc_zeroed(l) } else { a.alloc(l) };
                if p.is_null() {
                    if before.checked_add(s).map_or(true, |x| x > limit) {
                        st.refused_over += 1
                    } else {
                        st.refused_conservative += 1;
                        if s >= 1 << 40 {
                            st.refused_parent += 1
                        } else {
                            panic!("small alloc that fits refused sequentially (allowed by C19, but unexpected): {}", ctx);
                        }
                    }
                } else {
                    st.succ += 1;
                    assert!(p as usize % align == 0, "misaligned: {}", ctx);
                    ledger += s;
                    assert!(ledger <= limit, "VIOLATION success above limit: live={} {}", ledger, ctx);
                    tag = tag.wrapping_add(1);
                    let b = Block { ptr: p, size: s, align, tag };
                    if zero {
                        for i in 0..s {
                            assert!(*p.add(i) == 0, "VIOLATION alloc_zeroed not zero at {}: {}", i, ctx);
                        }
                    }
                    fill(&b, 0);
                    live.push(b);
                }
            }
            Op::Realloc(i, ns) => {
                let b = &mut live[i];
                let l = Layout::from_size_align(b.size, b.align).unwrap();
                let p = a.realloc(b.ptr, l, ns);
                if p.is_null() {
                    // block must be intact
                    check(b, b.size, &ctx);
                    let after = before - b.size + ns; // cannot overflow: ns <= isize::MAX, before small
                    if after > limit {
                        st.refused_over += 1
                    } else {
                        st.refused_conservative += 1;
                        if ns >= 1 << 40 {
                            st.refused_parent += 1
                        }
                        // conservative realloc refusal: alloc.rs requires used + new <= limit
                        assert!(ns >= 1 << 40 || before.checked_add(ns).map_or(true, |x| x > limit),
                            "realloc refused although used+new <= limit: {}", ctx);
                    }
                } else {
                    st.succ += 1;
                    assert!(p as usize % align == 0, "misaligned: {}", ctx);
                    let old = b.size;
                    b.ptr = p;
                    b.size = ns;
                    check(b, old.min(ns), &ctx);
                    fill(b, old.min(ns));
                    ledger = before - old + ns;
                    assert!(ledger <= limit, "VIOLATION realloc success above limit: live={} {}", ledger, ctx);
                }
            }
            Op::Dealloc(i) => {
                let b = live.remove(i);
                check(&b, b.size, &ctx);
                a.dealloc(b.ptr, Layout::from_size_align(b.size, b.align).unwrap());
                ledger -= b.size;
            }
        }
        hw = hw.max(ledger);
        let peak = a.get_max();
        assert!(peak >= hw, "VIOLATION peak {} < high-water {}: {}", peak, hw, ctx);
        if peak > hw {
            st.peak_over += 1;
        }
        if mode == 0 {
            let u = usage(&a);
            assert!(u == ledger, "VIOLATION usage {} != ledger {}: {}", u, ledger, ctx);
            hw = ledger;
        }
    }
    let ctx = format!("limit={} align={} mode={} hist={:?} end", limit, align, mode, hist);
    for b in &live {
        check(b, b.size, &ctx);
    }
    if mode == 1 {
        let peak = a.get_max();
        assert!(peak >= hw, "VIOLATION peak {} < hw {}: {}", peak, hw, ctx);
        let u = usage(&a);
        assert!(u == ledger, "VIOLATION usage {} != ledger {}: {}", u, ledger, ctx);
    }
    for b in live.drain(..) {
        a.dealloc(b.ptr, Layout::from_size_align(b.size, b.align).unwrap());
    }
    assert!(usage(&a) == 0, "VIOLATION usage nonzero after freeing all: {}", ctx);
}

// Simulate just enough to know how many blocks are live and their sizes, so that the
// enumeration of the next op is over slots that exist. We cannot know success without
// running, so enumeration is driven by actually executing prefixes on a scratch Alloc.
unsafe fn live_sizes_after(limit: usize, align: usize, hist: &[Op]) -> Vec<usize> {
    let a = Alloc::new(limit);
    let mut live: Vec<(*mut u8, usize)> = Vec::new();
    for op in hist {
        match *op {
            Op::Alloc(s) | Op::Zeroed(s) => {
                let p = a.alloc(Layout::from_size_align(s, align).unwrap());
                if !p.is_null() {
                    live.push((p, s));
                }
            }
            Op::Realloc(i, ns) => {
                let (p, s) = live[i];
                let q = a.realloc(p, Layout::from_size_align(s, align).unwrap(), ns);
                if !q.is_null() {
                    live[i] = (q, ns);
                }
            }
            Op::Dealloc(i) => {
                let (p, s) = live.remove(i);
                a.dealloc(p, Layout::from_size_align(s, align).unwrap());
            }
        }
    }
    let r = live.iter().map(|x| x.1).collect();
    for (p, s) in live {
        a.dealloc(p, Layout::from_size_align(s, align).unwrap());
    }
    r
}

unsafe fn dfs(limit: usize, align: usize, sizes: &[usize], hist: &mut Vec<Op>, depth: usize, st: &mut Stats) {
    if hist.len() == depth {
        run(limit, align, hist, 0, st);
        run(limit, align, hist, 1, st);
        return;
    }
    let live = live_sizes_after(limit, align, hist);
    let mut next: Vec<Op> = Vec::new();
    for &s in sizes {
        next.push(Op::Alloc(s));
        next.push(Op::Zeroed(s));
    }
    for (i, &cur) in live.iter().enumerate() {
        for &s in sizes {
            next.push(Op::Realloc(i, s));
        }
        if !sizes.contains(&cur) {
            next.push(Op::Realloc(i, cur));
        }
        next.push(Op::Dealloc(i));
    }
    for op in next {
        hist.push(op);
        dfs(limit, align, sizes, hist, depth, st);
        hist.pop();
    }
}

#[test]
fn exhaustive_sequential() {
    let depth: usize = std::env::var("C19_LEN").ok().and_then(|s| s.parse().ok()).unwrap_or(3);
    let mut total = Stats::default();
    for &limit in &[0usize, 1, 64, 1000, usize::MAX] {
        for &align in &[1usize, 8, 4096] {
            let sizes = sizes_for(limit, align);
            let mut st = Stats::default();
            for d in 1..=depth {
                unsafe { dfs(limit, align, &sizes, &mut Vec::new(), d, &mut st) };
            }
            println!(
                "limit={:<20} align={:<4} sizes={:?}\n   histories={} ops={} succ={} refused_over={} refused_conservative={} (parent-null {}) peak_over_reports={}",
                limit, align, sizes, st.histories, st.ops, st.succ, st.refused_over, st.refused_conservative, st.refused_parent, st.peak_over
            );
            total.histories += st.histories;
            total.ops += st.ops;
            total.succ += st.succ;
            total.refused_over += st.refused_over;
            total.refused_conservative += st.refused_conservative;
            total.refused_parent += st.refused_parent;
            total.peak_over += st.peak_over;
        }
    }
    println!(
        "TOTAL depth<={} histories={} ops={} succ={} refused_over={} refused_conservative={} (parent-null {}) peak_over_reports={}",
        depth, total.histories, total.ops, total.succ, total.refused_over, total.refused_conservative, total.refused_parent, total.peak_over
    );
}

// Out-of-contract probe (reported separately): GlobalAlloc::realloc requires that new_size,
// rounded up to align, does not overflow isize. A caller violating that gets wrap-around.
#[test]
#[ignore] // aborts in debug (UB precondition check); run with --release -- --ignored
fn out_of_contract_realloc_near_usize_max() {
    for &limit in &[64usize, 1000, usize::MAX] {
        let a = Alloc::new(limit);
        unsafe {
            let l = Layout::from_size_align(8, 1).unwrap();
            let p = a.alloc(l);
            assert!(!p.is_null());
            for &ns in &[usize::MAX, usize::MAX - 1, usize::MAX - 7, usize::MAX - 8, (isize::MAX as usize) + 1] {
                let r = std::panic::catch_unwind(std::panic::AssertUnwindSafe(|| a.realloc(p, l, ns)));
                let u = usage(&a);
                println!("limit={} realloc(8 -> {:#x}) => {:?}  usage after = {:#x}", limit, ns, r.as_ref().map(|q| q.is_null()).map_err(|_| "PANIC"), u);
            }
        }
    }
}
