// C19 hunt, part 3: Alloc installed as the #[global_allocator] of this test binary (through a thin
// shadow that keeps an independent exact ledger of every byte std and the test allocate).
// Run: cargo test --offline -p rink-sandbox --test c19_global --release -- --nocapture --test-threads=1
use rink_sandbox::Alloc;
use std::alloc::{GlobalAlloc, Layout};
use std::sync::atomic::{AtomicBool, AtomicU64, AtomicUsize, Ordering::*};
use std::sync::{Arc, Barrier};

static INNER: Alloc = Alloc::new(usize::MAX);
static LIVE: AtomicUsize = AtomicUsize::new(0); // lower bound of live bytes at all times; exact when quiescent
static LIVE_HW: AtomicUsize = AtomicUsize::new(0); // high-water of LIVE (<= true high-water)
static REFUSED: AtomicU64 = AtomicU64::new(0);

struct Shadow;
unsafe impl GlobalAlloc for Shadow {
    unsafe fn alloc(&self, l: Layout) -> *mut u8 {
        let p = INNER.alloc(l);
        if p.is_null() {
            REFUSED.fetch_add(1, Relaxed);
        } else {
            let n = LIVE.fetch_add(l.size(), AcqRel) + l.size();
            LIVE_HW.fetch_max(n, AcqRel);
        }
        p
    }
    unsafe fn alloc_zeroed(&self, l: Layout) -> *mut u8 {
        let p = INNER.alloc_zeroed(l);
        if p.is_null() {
            REFUSED.fetch_add(1, Relaxed);
        } else {
            let n = LIVE.fetch_add(l.size(), AcqRel) + l.size();
            LIVE_HW.fetch_max(n, AcqRel);
        }
        p
    }
    unsafe fn dealloc(&self, p: *mut u8, l: Layout) {
        LIVE.fetch_sub(l.size(), AcqRel);
        INNER.dealloc(p, l)
    }
    unsafe fn realloc(&self, p: *mut u8, l: Layout, ns: usize) -> *mut u8 {
        let old = l.size();
        if ns < old {
            LIVE.fetch_sub(old - ns, AcqRel);
        }
        let q = INNER.realloc(p, l, ns);
        if q.is_null() {
            REFUSED.fetch_add(1, Relaxed);
            if ns < old {
                LIVE.fetch_add(old - ns, AcqRel);
            }
        } else if ns > old {
            let n = LIVE.fetch_add(ns - old, AcqRel) + (ns - old);
            LIVE_HW.fetch_max(n, AcqRel);
        }
        q
    }
}

#[global_allocator]
static GLOBAL: Shadow = Shadow;

fn usage() -> usize {
    INNER.reset_max();
    INNER.get_max()
}

/// memory_used-style bracket: reset_max / work / get_max. Returns (baseline, peak, shadow high-water, usage after).
fn bracket<R>(f: impl FnOnce() -> R) -> (usize, usize, usize, usize, R) {
    let base = usage();
    assert_eq!(base, LIVE.load(Acquire), "usage != shadow ledger at bracket start");
    LIVE_HW.store(base, Release);
    INNER.reset_max();
    let r = f();
    let peak = INNER.get_max();
    let hw = LIVE_HW.load(Acquire);
    let after = usage();
    assert_eq!(after, LIVE.load(Acquire), "usage != shadow ledger at bracket end");
    assert!(peak >= hw, "VIOLATION: peak {} < shadow high-water {}", peak, hw);
    (base, peak, hw, after, r)
}

#[test]
fn t1_bracketing_known_sizes() {
    println!("warm up stdout");
    // Vec::with_capacity -> alloc
    let (b, peak, hw, after, v) = bracket(|| Vec::<u8>::with_capacity(1000));
    println!("with_capacity(1000): base={} peak-base={} hw-base={} after-base={}", b, peak - b, hw - b, after - b);
    assert_eq!((peak - b, after - b), (1000, 1000));
    drop(v);
    assert_eq!(usage(), b);

    // Box<[u8]> zeroed -> alloc_zeroed
    let (b, peak, _hw, after, bx) = bracket(|| vec![0u8; 5000].into_boxed_slice());
    println!("vec![0u8;5000].into_boxed_slice(): peak-base={} after-base={}", peak - b, after - b);
    assert_eq!((peak - b, after - b), (5000, 5000));
    assert!(bx.iter().all(|&x| x == 0));
    drop(bx);
    assert_eq!(usage(), b);

    // Vec growth -> realloc up
    let mut v = Vec::<u8>::with_capacity(16);
    v.extend_from_slice(&[7u8; 16]);
    let (b, peak, hw, after, ()) = bracket(|| v.push(1));
    let cap = v.capacity();
    println!("Vec<u8> 16 -> push (cap now {}): peak-base={} (true high-water {}..{}) hw-base={} after-base={}", cap, peak - b, cap - 16, cap, hw - b, after - b);
    assert_eq!(after - b, cap - 16);
    assert!(peak - b >= cap - 16 && peak - b <= cap, "peak out of the expected window");
    assert!(v[..16].iter().all(|&x| x == 7) && v[16] == 1);

    // realloc down
    let mut v2 = Vec::<u8>::with_capacity(100_000);
    v2.push(1);
    let (b, peak, hw, after, ()) = bracket(|| v2.shrink_to(10));
    println!(
        "Vec<u8> shrink 100000 -> {}: peak-base={} although usage never rose (shadow hw-base={}); after-base={}  [over-report, allowed]",
        v2.capacity(), peak - b, hw - b, after as isize - b as isize
    );
    assert_eq!(b - after, 100_000 - v2.capacity());
    drop(v2);

    // String pushes: usage tracks capacity exactly at every step
    let (b, peak, hw, after, s) = bracket(|| {
        let mut s = String::new();
        let base = LIVE.load(Acquire);
        for i in 0..5000 {
            s.push(if i % 2 == 0 { 'a' } else { 'é' });
            let u = usage(); // note: resets the peak; this bracket therefore only checks exactness
            assert_eq!(u - base, s.capacity(), "usage != String capacity at push {}", i);
        }
        s
    });
    println!("String 5000 pushes: cap={} after-base={} (peak-base={} hw-base={}, peak was reset inside)", s.capacity(), after - b, peak - b, hw - b);
    assert_eq!(after - b, s.capacity());
    let (b, peak, hw, after, s2) = bracket(|| {
        let mut s = String::new();
        for _ in 0..5000 {
            s.push('x');
        }
        s
    });
    println!("String 5000 pushes (no inner reset): cap={} after-base={} peak-base={} shadow hw-base={}", s2.capacity(), after - b, peak - b, hw - b);
    assert!(peak - b >= s2.capacity());
    drop((s, s2, v));

    // refused request through a lowered limit: usage unchanged, data intact
    let mut keep = vec![9u8; 300];
    let b = usage();
    INNER.set_limit(b + 100);
    let mut w = Vec::<u8>::new();
    let r1 = w.try_reserve_exact(1000).is_err();
    let u1 = usage();
    let r2 = keep.try_reserve_exact(1000).is_err(); // realloc refused, block intact
    let u2 = usage();
    let r3 = w.try_reserve_exact(100).is_ok();
    let u3 = usage();
    INNER.set_limit(usize::MAX);
    println!("limit=base+100: reserve(1000) refused={} usage-base={}; realloc(300->1300) refused={} usage-base={}; reserve(100) ok={} usage-base={}", r1, u1 - b, r2, u2 - b, r3, u3 - b);
    assert!(r1 && r2 && r3 && u1 == b && u2 == b && u3 == b + 100);
    assert!(keep.iter().all(|&x| x == 9) && keep.len() == 300);
    drop((w, keep));

    // A single isize::MAX request with limit = usize::MAX (CLI default): refused by System, but the
    // peak is polluted (over-report; allowed by C19, surprising for `memory_used`).
    let (b, peak, hw, after, r) = bracket(|| Vec::<u8>::new().try_reserve_exact(isize::MAX as usize).is_err());
    println!("try_reserve_exact(isize::MAX), limit=usize::MAX: refused={} peak-base={:#x} shadow hw-base={} after-base={}  [over-report, allowed]", r, peak - b, hw - b, after - b);
    assert!(r && after == b);
}

#[test]
fn t2_threads_bracketing() {
    println!("warm up stdout");
    for &n in &[2usize, 4, 8, 16, 32] {
        let (b, peak, hw, after, ()) = bracket(|| {
            let bar = Arc::new(Barrier::new(n));
            let hs: Vec<_> = (0..n)
                .map(|t| {
                    let bar = bar.clone();
                    std::thread::spawn(move || {
                        let mut carry: Vec<Vec<u8>> = Vec::new();
                        for round in 0..200 {
                            bar.wait();
                            for i in 0..200usize {
                                let mut v = Vec::<u8>::with_capacity(1 + (i * 7 + t) % 300);
                                for k in 0..(i % 700) {
                                    v.push(k as u8);
                                }
                                if i % 5 == 0 {
                                    v.shrink_to_fit();
                                }
                                let mut s = String::new();
                                for _ in 0..(i % 90) {
                                    s.push('z');
                                }
                                let z = vec![0u8; 1 + i % 513].into_boxed_slice();
                                assert!(z.iter().all(|&x| x == 0));
                                if (i + round) % 17 == 0 {
                                    carry.push(v);
                                }
                                if carry.len() > 20 {
                                    carry.swap_remove(i % 20);
                                }
                            }
                        }
                        carry
                    })
                })
                .collect();
            // blocks migrate: results are freed by the joining thread
            for h in hs {
                drop(h.join().unwrap());
            }
        });
        println!(
            "threads={:<2}: base={} peak-base={} shadow hw-base={} after-base={} refused={}",
            n, b, peak - b, hw - b, after as isize - b as isize, REFUSED.load(Relaxed)
        );
    }
}

// End-to-end version of the wrap-around race using only safe Rust:
// two threads keep asking for (2^63 - 2^19)-byte Vecs (always refused); a third asks for 1 MiB
// while live bytes == limit, which must always be refused.
#[test]
fn t3_safe_rust_wraparound_race() {
    println!("warm up stdout");
    if cfg!(debug_assertions) {
        // with overflow checks `fetch_add(..) + size` (alloc.rs:80) panics out of the global allocator,
        // killing the requesting thread and leaving `used` corrupted; this driver would then spin forever.
        println!("skipped in debug profile; run with --release");
        return;
    }
    let ballast = vec![1u8; 4 << 20];
    let huge = (1usize << 63) - (1usize << 19);
    let mut total_wins = 0u64;
    for &nhuge in &[1usize, 2, 4] {
        let stop = Arc::new(AtomicBool::new(false));
        let bar = Arc::new(Barrier::new(nhuge + 2));
        let done = Arc::new(AtomicUsize::new(0));
        let mut hs = Vec::new();
        for _ in 0..nhuge {
            let (bar, done) = (bar.clone(), done.clone());
            hs.push(std::thread::spawn(move || {
                bar.wait();
                bar.wait();
                let mut refused = 0u64;
                for _ in 0..300_000 {
                    let mut v = Vec::<u8>::new();
                    if v.try_reserve_exact(huge).is_err() {
                        refused += 1;
                    }
                }
                done.fetch_add(1, Release);
                refused
            }));
        }
        let prober = {
            let (bar, stop) = (bar.clone(), stop.clone());
            std::thread::spawn(move || {
                bar.wait();
                bar.wait();
                let (mut tries, mut wins, mut worst) = (0u64, 0u64, 0usize);
                while !stop.load(Acquire) {
                    tries += 1;
                    let mut v = Vec::<u8>::new();
                    if v.try_reserve_exact(1 << 20).is_ok() {
                        wins += 1;
                        worst = worst.max(LIVE.load(Acquire));
                    }
                }
                (tries, wins, worst)
            })
        };
        bar.wait(); // everyone spawned and parked: no allocation traffic from here on
        let base = usage();
        assert_eq!(base, LIVE.load(Acquire));
        INNER.set_limit(base); // live bytes == limit
        bar.wait();
        while done.load(Acquire) < nhuge {
            std::hint::spin_loop();
        }
        stop.store(true, Release);
        let (tries, wins, worst) = prober.join().unwrap();
        INNER.set_limit(usize::MAX);
        let refused: u64 = hs.into_iter().map(|h| h.join().unwrap()).sum();
        println!(
            "safe-rust race: huge_threads={} limit=live={} huge requests refused={}  prober: {} x try_reserve_exact(1 MiB), {} SUCCEEDED (must be 0); shadow ledger saw up to {} live bytes = limit+{}",
            nhuge, base, refused, tries, wins, worst, worst.saturating_sub(base)
        );
        total_wins += wins;
    }
    drop(ballast);
    let u = usage();
    assert_eq!(u, LIVE.load(Acquire), "final usage != shadow ledger");
    assert_eq!(total_wins, 0, "C19 violated: requests succeeded while live bytes == limit");
}
