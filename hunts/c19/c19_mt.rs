// C19 hunt, part 2: one Alloc hammered from many real threads.
// Run: cargo test --offline -p rink-sandbox --test c19_mt [--release] -- --nocapture --test-threads=1
// Env: C19_SCALE=<float, default 1.0> scales iteration counts.
use rink_sandbox::Alloc;
use std::alloc::{GlobalAlloc, Layout};
use std::panic::{catch_unwind, AssertUnwindSafe};
use std::sync::atomic::{AtomicBool, AtomicU64, AtomicUsize, Ordering::*};
use std::sync::{Arc, Barrier, Mutex};
use std::thread;

const M: usize = isize::MAX as usize; // largest valid Layout size for align 1

fn scale(n: u64) -> u64 {
    let s: f64 = std::env::var("C19_SCALE").ok().and_then(|s| s.parse().ok()).unwrap_or(1.0);
    ((n as f64) * s).max(1.0) as u64
}

struct Blk {
    ptr: *mut u8,
    size: usize,
    align: usize,
    tag: u8,
}
unsafe impl Send for Blk {}
impl Blk {
    fn layout(&self) -> Layout {
        Layout::from_size_align(self.size, self.align).unwrap()
    }
    fn pat(&self, i: usize) -> u8 {
        self.tag.wrapping_add((i as u8).wrapping_mul(7)) | 1
    }
    unsafe fn fill(&self, from: usize) {
        for i in from..self.size {
            *self.ptr.add(i) = self.pat(i);
        }
    }
    unsafe fn check(&self, upto: usize) -> bool {
        (0..upto).all(|i| *self.ptr.add(i) == self.pat(i))
    }
}

struct Rng(u64);
impl Rng {
    fn next(&mut self) -> u64 {
        self.0 ^= self.0 << 13;
        self.0 ^= self.0 >> 7;
        self.0 ^= self.0 << 17;
        self.0
    }
    fn below(&mut self, n: usize) -> usize {
        (self.next() % n as u64) as usize
    }
}

fn usage(a: &Alloc) -> usize {
    a.reset_max();
    a.get_max()
}

fn quiet_panics() {
    std::panic::set_hook(Box::new(|info| {
        let s = format!("{}", info);
        if !s.contains("overflow") {
            eprintln!("{}", s);
        }
    }));
}

// ---------------------------------------------------------------------------------------------
// A. General hammer: random ops, blocks migrating through an exchange, exact checks at joins,
//    continuous lower-bound ledger (floor), continuous peak lower bound.
// ---------------------------------------------------------------------------------------------
struct HammerResult {
    ops: u64,
    succ: u64,
    refused: u64,
    conservative: u64,
    joins: u64,
    violations: Vec<String>,
}

fn hammer(nthreads: usize, limit: usize, rounds: u64, ops_per_round: u64, with_huge: bool, monitor: bool) -> HammerResult {
    let a: Arc<Alloc> = Arc::new(Alloc::new(limit));
    let pinned_size = if limit >= 64 { 37usize } else { 0 };
    let pinned = if pinned_size > 0 {
        let p = unsafe { a.alloc(Layout::from_size_align(pinned_size, 1).unwrap()) };
        assert!(!p.is_null());
        Some(Blk { ptr: p, size: pinned_size, align: 1, tag: 0 })
    } else {
        None
    };
    let exchange: Arc<Vec<Mutex<Option<Blk>>>> = Arc::new((0..64).map(|_| Mutex::new(None)).collect());
    let floor = Arc::new(AtomicUsize::new(pinned_size)); // bytes certainly live, at all times
    let held: Arc<Vec<AtomicUsize>> = Arc::new((0..nthreads).map(|_| AtomicUsize::new(0)).collect());
    let round_hw: Arc<Vec<AtomicUsize>> = Arc::new((0..nthreads).map(|_| AtomicUsize::new(0)).collect());
    let barrier = Arc::new(Barrier::new(nthreads));
    let viol: Arc<Mutex<Vec<String>>> = Arc::new(Mutex::new(Vec::new()));
    let stop = Arc::new(AtomicBool::new(false));
    let c_ops = Arc::new(AtomicU64::new(0));
    let c_succ = Arc::new(AtomicU64::new(0));
    let c_ref = Arc::new(AtomicU64::new(0));
    let c_cons = Arc::new(AtomicU64::new(0));
    let c_joins = Arc::new(AtomicU64::new(0));

    let mon = if monitor {
        let (a, stop, viol) = (a.clone(), stop.clone(), viol.clone());
        Some(thread::spawn(move || {
            let mut n = 0u64;
            let mut minobs = usize::MAX;
            while !stop.load(Acquire) {
                let u = usage(&a);
                n += 1;
                if u < minobs {
                    minobs = u;
                }
                if u < pinned_size {
                    let mut v = viol.lock().unwrap();
                    if v.len() < 10 {
                        v.push(format!("monitor: observed usage {:#x} < pinned floor {}", u, pinned_size));
                    }
                }
            }
            (n, minobs)
        }))
    } else {
        None
    };

    let mut hs = Vec::new();
    for t in 0..nthreads {
        let (a, exchange, floor, held, round_hw, barrier, viol) =
            (a.clone(), exchange.clone(), floor.clone(), held.clone(), round_hw.clone(), barrier.clone(), viol.clone());
        let (c_ops, c_succ, c_ref, c_cons, c_joins) = (c_ops.clone(), c_succ.clone(), c_ref.clone(), c_cons.clone(), c_joins.clone());
        hs.push(thread::spawn(move || {
            let mut rng = Rng(0x9E3779B97F4A7C15 ^ ((t as u64 + 1) * 0x1234567));
            let mut mine: Vec<Blk> = Vec::new();
            let mut my_bytes = 0usize;
            let mut last_join_usage = pinned_size;
            let small: [usize; 10] = [1, 7, 8, 16, 33, 100, 257, 500, 999, 4096];
            let aligns: [usize; 3] = [1, 8, 4096];
            let maxsz = if limit == usize::MAX { 4096 } else { (limit / 2).max(1) };
            let report = |s: String| {
                let mut v = viol.lock().unwrap();
                if v.len() < 10 {
                    v.push(s);
                }
            };
            let (mut ops, mut succ, mut refd, mut cons) = (0u64, 0u64, 0u64, 0u64);
            for _round in 0..rounds {
                let mut hw = my_bytes;
                barrier.wait();
                for _ in 0..ops_per_round {
                    ops += 1;
                    let choice = rng.below(100);
                    let pick_size = |rng: &mut Rng| -> usize {
                        if with_huge && rng.below(8) == 0 {
                            return M;
                        }
                        let s = small[rng.below(small.len())];
                        s.min(maxsz).max(1)
                    };
                    unsafe {
                        if choice < 30 || mine.is_empty() && choice < 80 {
                            let zero = rng.below(2) == 0;
                            let mut size = pick_size(&mut rng);
                            let align = if size == M { 1 } else { aligns[rng.below(3)] };
                            if size == M && rng.below(2) == 0 {
                                size = M - rng.below(3);
                            }
                            let l = Layout::from_size_align(size, align).unwrap();
                            let r = catch_unwind(AssertUnwindSafe(|| if zero { a.alloc_zeroed(l) } else { a.alloc(l) }));
                            let p = match r {
                                Ok(p) => p,
                                Err(_) => {
                                    report(format!("PANIC inside alloc(size={:#x})", size));
                                    std::ptr::null_mut()
                                }
                            };
                            if p.is_null() {
                                refd += 1;
                                if size < M / 2 && my_bytes + pinned_size + size <= limit / (2 * nthreads).max(1) {
                                    cons += 1; // surely-fitting? not provable in general; counted only
                                }
                            } else {
                                succ += 1;
                                if size >= M / 2 {
                                    report(format!("huge alloc {:#x} succeeded?!", size));
                                }
                                let b = Blk { ptr: p, size, align, tag: rng.next() as u8 };
                                if p as usize % align != 0 {
                                    report("misaligned".into());
                                }
                                if zero && !(0..size).all(|i| *p.add(i) == 0) {
                                    report(format!("VIOLATION alloc_zeroed({}) returned non-zero memory", size));
                                }
                                b.fill(0);
                                let f = floor.fetch_add(size, AcqRel) + size;
                                if f > limit {
                                    report(format!("VIOLATION success above limit: certainly-live {} > limit {} after alloc({})", f, limit, size));
                                }
                                my_bytes += size;
                                hw = hw.max(my_bytes);
                                if !monitor {
                                    let pk = a.get_max();
                                    if pk < pinned_size + my_bytes {
                                        report(format!("VIOLATION peak {} < pinned+own held {}", pk, pinned_size + my_bytes));
                                    }
                                }
                                mine.push(b);
                            }
                        } else if choice < 55 && !mine.is_empty() {
                            // realloc
                            let i = rng.below(mine.len());
                            let old = mine[i].size;
                            let ns = match rng.below(4) {
                                0 => old,
                                1 => (old / 2).max(1),
                                2 => (old + 1 + rng.below(old + 8)).min(maxsz.max(old)),
                                _ => pick_size(&mut rng),
                            };
                            let ns = if mine[i].align > 1 && ns >= M / 2 { M & !(mine[i].align - 1) } else { ns };
                            if ns < old {
                                floor.fetch_sub(old - ns, AcqRel);
                            }
                            let l = mine[i].layout();
                            let ptr = mine[i].ptr;
                            let r = catch_unwind(AssertUnwindSafe(|| a.realloc(ptr, l, ns)));
                            let p = match r {
                                Ok(p) => p,
                                Err(_) => {
                                    report(format!("PANIC inside realloc(new={:#x})", ns));
                                    std::ptr::null_mut()
                                }
                            };
                            if p.is_null() {
                                refd += 1;
                                if ns < old {
                                    floor.fetch_add(old - ns, AcqRel);
                                }
                                if !mine[i].check(old) {
                                    report("VIOLATION refused realloc damaged the block".into());
                                }
                                if ns <= old {
                                    cons += 1;
                                }
                            } else {
                                succ += 1;
                                if ns >= M / 2 {
                                    report(format!("huge realloc {:#x} succeeded?!", ns));
                                }
                                mine[i].ptr = p;
                                mine[i].size = ns;
                                if !mine[i].check(old.min(ns)) {
                                    report("VIOLATION realloc lost the common prefix".into());
                                }
                                mine[i].fill(old.min(ns));
                                if ns > old {
                                    let f = floor.fetch_add(ns - old, AcqRel) + (ns - old);
                                    if f > limit {
                                        report(format!("VIOLATION success above limit: certainly-live {} > limit {} after realloc {}->{}", f, limit, old, ns));
                                    }
                                }
                                my_bytes = my_bytes - old + ns;
                                hw = hw.max(my_bytes);
                                if !monitor {
                                    let pk = a.get_max();
                                    if pk < pinned_size + my_bytes {
                                        report(format!("VIOLATION peak {} < pinned+own held {} (after realloc)", pk, pinned_size + my_bytes));
                                    }
                                }
                            }
                        } else if choice < 75 && !mine.is_empty() {
                            let i = rng.below(mine.len());
                            let b = mine.swap_remove(i);
                            if !b.check(b.size) {
                                report("block content damaged before dealloc".into());
                            }
                            floor.fetch_sub(b.size, AcqRel);
                            my_bytes -= b.size;
                            a.dealloc(b.ptr, b.layout());
                        } else if choice < 88 && !mine.is_empty() {
                            // give a block away
                            let i = rng.below(mine.len());
                            let mut slot = exchange[rng.below(64)].lock().unwrap();
                            if slot.is_none() {
                                let b = mine.swap_remove(i);
                                my_bytes -= b.size;
                                *slot = Some(b);
                            }
                        } else {
                            // take a block
                            let mut slot = exchange[rng.below(64)].lock().unwrap();
                            if let Some(b) = slot.take() {
                                my_bytes += b.size;
                                hw = hw.max(my_bytes);
                                mine.push(b);
                            }
                        }
                    }
                }
                held[t].store(my_bytes, Release);
                round_hw[t].store(hw, Release);
                barrier.wait();
                if t == 0 {
                    // quiescent: everybody is parked at the next barrier or about to be
                    let mut total = pinned_size;
                    let mut best_hw = 0usize;
                    for i in 0..nthreads {
                        total += held[i].load(Acquire);
                        best_hw = best_hw.max(round_hw[i].load(Acquire));
                    }
                    for s in exchange.iter() {
                        if let Some(b) = s.lock().unwrap().as_ref() {
                            total += b.size;
                        }
                    }
                    if !monitor {
                        let pk = a.get_max();
                        let need = total.max(last_join_usage).max(pinned_size + best_hw);
                        if pk < need {
                            report(format!("VIOLATION at join: peak {} < known high-water lower bound {}", pk, need));
                        }
                    }
                    let u = usage(&a);
                    if u != total {
                        report(format!("VIOLATION at join: usage {:#x} != live total {:#x}", u, total));
                    }
                    if total > limit {
                        report(format!("VIOLATION at join: live total {} > limit {}", total, limit));
                    }
                    let fl = floor.load(Acquire);
                    if fl != total {
                        report(format!("harness bug: floor {} != total {}", fl, total));
                    }
                    last_join_usage = total;
                    c_joins.fetch_add(1, Relaxed);
                }
                barrier.wait();
            }
            // free everything
            for b in mine.drain(..) {
                unsafe { a.dealloc(b.ptr, b.layout()) };
            }
            c_ops.fetch_add(ops, Relaxed);
            c_succ.fetch_add(succ, Relaxed);
            c_ref.fetch_add(refd, Relaxed);
            c_cons.fetch_add(cons, Relaxed);
        }));
    }
    for h in hs {
        h.join().unwrap();
    }
    stop.store(true, Release);
    let moninfo = mon.map(|m| m.join().unwrap());
    for s in exchange.iter() {
        if let Some(b) = s.lock().unwrap().take() {
            unsafe { a.dealloc(b.ptr, b.layout()) };
        }
    }
    let mut v = viol.lock().unwrap().clone();
    let u = usage(&a);
    if u != pinned_size {
        v.push(format!("VIOLATION final: usage {:#x} != pinned {}", u, pinned_size));
    }
    if let Some(b) = pinned {
        unsafe { a.dealloc(b.ptr, b.layout()) };
    }
    if usage(&a) != 0 {
        v.push(format!("VIOLATION final: usage {:#x} != 0 after freeing all", usage(&a)));
    }
    if let Some((n, minobs)) = moninfo {
        println!("      monitor: {} observations, min observed usage {:#x}", n, minobs);
    }
    HammerResult {
        ops: c_ops.load(Relaxed),
        succ: c_succ.load(Relaxed),
        refused: c_ref.load(Relaxed),
        conservative: c_cons.load(Relaxed),
        joins: c_joins.load(Relaxed),
        violations: v,
    }
}

#[test]
fn a_hammer_no_huge() {
    quiet_panics();
    let mut bad = 0;
    for &n in &[2usize, 3, 4, 8, 16, 32] {
        for &limit in &[1usize, 64, 1000, 1 << 20, usize::MAX] {
            for &monitor in &[false, true] {
                let r = hammer(n, limit, scale(200), scale(2000), false, monitor);
                println!(
                    "hammer(no huge) threads={:<2} limit={:<20} monitor={:<5} ops={} succ={} refused={} joins={} violations={}",
                    n, limit, monitor, r.ops, r.succ, r.refused, r.joins, r.violations.len()
                );
                for v in &r.violations {
                    println!("      {}", v);
                }
                bad += r.violations.len();
                let _ = r.conservative;
            }
        }
    }
    assert_eq!(bad, 0, "violations found (see output)");
}

#[test]
fn b_hammer_with_huge() {
    quiet_panics();
    let mut bad = 0;
    for &n in &[2usize, 3, 4, 8, 16, 32] {
        for &limit in &[64usize, 1000, 1 << 20, usize::MAX] {
            for &monitor in &[false, true] {
                let r = hammer(n, limit, scale(200), scale(2000), true, monitor);
                println!(
                    "hammer(huge mix) threads={:<2} limit={:<20} monitor={:<5} ops={} succ={} refused={} joins={} violations={}",
                    n, limit, monitor, r.ops, r.succ, r.refused, r.joins, r.violations.len()
                );
                for v in &r.violations {
                    println!("      {}", v);
                }
                bad += r.violations.len();
            }
        }
    }
    assert_eq!(bad, 0, "violations found (see output)");
}

// ---------------------------------------------------------------------------------------------
// C. Targeted wrap-around hunt.
//    live bytes are held EXACTLY at the limit by a pinned block, so every further request of
//    >= 1 byte must be refused. `huge` threads issue valid-but-enormous requests (isize::MAX
//    bytes, align 1) which are all refused; `probe` threads issue 1..=8 byte requests.
//    Any probe success is "a success that leaves live bytes above the limit".
//    A monitor reads usage continuously; any reading below the pinned size is an under-count.
// ---------------------------------------------------------------------------------------------
fn wrap_hunt(nhuge: usize, nprobe: usize, limit: usize, iters: u64) -> (u64, u64, u64, u64, usize, u64, usize) {
    wrap_hunt_x(nhuge, nprobe, limit, limit, M, &[1, 2, 3, 4, 5, 6, 7, 8], iters)
}

fn wrap_hunt_x(nhuge: usize, nprobe: usize, limit: usize, pinned: usize, huge: usize, probe_sizes: &[usize], iters: u64) -> (u64, u64, u64, u64, usize, u64, usize) {
    let a: Arc<Alloc> = Arc::new(Alloc::new(limit));
    let probe_sizes: Arc<Vec<usize>> = Arc::new(probe_sizes.to_vec());
    let pin_l = Layout::from_size_align(pinned, 1).unwrap();
    let pin = unsafe { a.alloc(pin_l) };
    assert!(!pin.is_null());
    assert_eq!(usage(&a), pinned);
    let start = Arc::new(Barrier::new(nhuge + nprobe + 1));
    let stop = Arc::new(AtomicBool::new(false));
    let probe_success = Arc::new(AtomicU64::new(0));
    let probe_max_over = Arc::new(AtomicUsize::new(0));
    let probe_ops = Arc::new(AtomicU64::new(0));
    let huge_ops = Arc::new(AtomicU64::new(0));
    let huge_panics = Arc::new(AtomicU64::new(0));
    let huge_success = Arc::new(AtomicU64::new(0));
    let mut hs = Vec::new();
    for t in 0..nhuge {
        let (a, start, huge_ops, huge_panics, huge_success) = (a.clone(), start.clone(), huge_ops.clone(), huge_panics.clone(), huge_success.clone());
        hs.push(thread::spawn(move || {
            let l = Layout::from_size_align(huge, 1).unwrap();
            start.wait();
            let mut panics = 0;
            for i in 0..iters {
                let r = catch_unwind(AssertUnwindSafe(|| unsafe {
                    if (i + t as u64) % 2 == 0 {
                        a.alloc(l)
                    } else {
                        a.alloc_zeroed(l)
                    }
                }));
                match r {
                    Ok(p) => {
                        if !p.is_null() {
                            huge_success.fetch_add(1, Relaxed);
                            unsafe { a.dealloc(p, l) };
                        }
                    }
                    Err(_) => panics += 1,
                }
            }
            huge_ops.fetch_add(iters, Relaxed);
            huge_panics.fetch_add(panics, Relaxed);
        }));
    }
    for t in 0..nprobe {
        let (a, start, stop, probe_success, probe_max_over, probe_ops, probe_sizes) =
            (a.clone(), start.clone(), stop.clone(), probe_success.clone(), probe_max_over.clone(), probe_ops.clone(), probe_sizes.clone());
        hs.push(thread::spawn(move || {
            start.wait();
            let mut n = 0u64;
            let mut k = t;
            while !stop.load(Acquire) {
                k += 1;
                let s = probe_sizes[k % probe_sizes.len()];
                if pinned + s <= limit {
                    continue; // only requests that MUST be refused
                }
                let l = Layout::from_size_align(s, 1).unwrap();
                let r = catch_unwind(AssertUnwindSafe(|| unsafe { a.alloc(l) }));
                n += 1;
                if let Ok(p) = r {
                    if !p.is_null() {
                        // live bytes are now limit + s > limit
                        probe_success.fetch_add(1, Relaxed);
                        probe_max_over.fetch_max(pinned + s - limit, Relaxed);
                        unsafe { a.dealloc(p, l) };
                    }
                }
            }
            probe_ops.fetch_add(n, Relaxed);
        }));
    }
    // monitor on this thread
    start.wait();
    let mut under = 0u64;
    let mut minobs = usize::MAX;
    let mut nobs = 0u64;
    while huge_ops.load(Relaxed) < iters * nhuge as u64 {
        let u = usage(&a);
        nobs += 1;
        if u < pinned {
            under += 1;
            minobs = minobs.min(u);
        }
    }
    stop.store(true, Release);
    for h in hs {
        h.join().unwrap();
    }
    let final_usage = usage(&a);
    let _ = nobs;
    // do not dealloc pin if counter is corrupted; just leak
    if final_usage == pinned {
        unsafe { a.dealloc(pin, pin_l) };
    }
    LAST_MAX_OVER.store(probe_max_over.load(Relaxed), Relaxed);
    (
        probe_ops.load(Relaxed),
        probe_success.load(Relaxed),
        huge_panics.load(Relaxed),
        under,
        if under > 0 { pinned - minobs } else { 0 },
        huge_success.load(Relaxed),
        final_usage,
    )
}

static LAST_MAX_OVER: AtomicUsize = AtomicUsize::new(0);

#[test]
fn c_wrap_hunt() {
    quiet_panics();
    let mut found = 0u64;
    for &limit in &[64usize, 1000] {
        for &(nhuge, nprobe) in &[(1usize, 1usize), (2, 1), (2, 4), (4, 4), (8, 8), (16, 8), (30, 2)] {
            for rep in 0..3 {
                let iters = scale(2_000_000 / nhuge as u64);
                let (pops, psucc, hpanics, under, maxunder, hsucc, fin) = wrap_hunt(nhuge, nprobe, limit, iters);
                println!(
                    "wrap_hunt limit={:<5} huge_threads={:<2} probe_threads={:<2} rep={} huge_ops={} probe_ops={} PROBE_SUCCESS_ABOVE_LIMIT={} monitor_undercount_obs={} (max undercount {} bytes) huge_success={} panics_in_alloc={} final_usage={:#x} (expected {:#x})",
                    limit, nhuge, nprobe, rep, iters * nhuge as u64, pops, psucc, under, maxunder, hsucc, hpanics, fin, limit
                );
                found += psucc + under + hpanics + (fin != limit) as u64;
            }
        }
    }
    assert_eq!(found, 0, "C19 violated: see PROBE_SUCCESS_ABOVE_LIMIT / undercount / panics / final_usage above");
}


// C2. Same race, but with huge sizes chosen so that two of them sum to 2^64 - 2^20: the counter
//     transiently under-counts by a full MiB, letting live bytes reach TWICE the limit.
#[test]
fn c2_wrap_hunt_double_the_limit() {
    quiet_panics();
    let limit = 1usize << 20;
    let huge = (1usize << 63) - (1usize << 19); // valid Layout (<= isize::MAX), align 1
    let mut found = 0;
    for &(nhuge, nprobe) in &[(2usize, 1usize), (2, 4), (4, 4), (8, 8)] {
        let iters = scale(1_000_000 / nhuge as u64);
        let (pops, psucc, hpanics, under, maxunder, hsucc, fin) =
            wrap_hunt_x(nhuge, nprobe, limit, limit, huge, &[1 << 20, 1 << 19, 4096, 1], iters);
        println!(
            "wrap_hunt_x limit=1MiB pinned=1MiB huge=2^63-2^19 huge_threads={} probe_threads={} huge_ops={} probe_ops={} PROBE_SUCCESS_ABOVE_LIMIT={} (max live excess over limit: {} bytes) monitor_undercount_obs={} (max undercount {} bytes) huge_success={} panics={} final_usage={:#x} (expected {:#x})",
            nhuge, nprobe, iters * nhuge as u64, pops, psucc, LAST_MAX_OVER.load(Relaxed), under, maxunder, hsucc, hpanics, fin, limit
        );
        found += psucc + under + hpanics;
    }
    assert_eq!(found, 0, "C19 violated");
}

// C3. limit = usize::MAX (the CLI's default before set_limit): nothing can exceed the limit, but
//     the tracked usage is still observed below the live total.
#[test]
fn c3_wrap_hunt_unlimited() {
    quiet_panics();
    let mut found = 0;
    for &nhuge in &[1usize, 2, 4, 8] {
        let iters = scale(200_000 / nhuge as u64);
        let (_pops, _psucc, hpanics, under, maxunder, hsucc, fin) = wrap_hunt_x(nhuge, 0, usize::MAX, 1000, M, &[1], iters);
        println!(
            "wrap_hunt_x limit=usize::MAX pinned=1000 huge=isize::MAX huge_threads={} huge_ops={} monitor_undercount_obs={} (max undercount {} bytes) huge_success={} panics={} final_usage={} (expected 1000)",
            nhuge, iters * nhuge as u64, under, maxunder, hsucc, hpanics, fin
        );
        found += under + hpanics;
    }
    assert_eq!(found, 0, "C19 violated");
}

// ---------------------------------------------------------------------------------------------
// D. Transient over-charge (allowed by the property; counted only).
// ---------------------------------------------------------------------------------------------
#[test]
fn d_transient_overcharge_count() {
    let limit = 1000usize;
    for &mode in &["refused-alloc(2000)", "realloc 400<->500"] {
        let a: Arc<Alloc> = Arc::new(Alloc::new(limit));
        let stop = Arc::new(AtomicBool::new(false));
        let start = Arc::new(Barrier::new(2));
        let (a2, stop2, start2) = (a.clone(), stop.clone(), start.clone());
        let m = mode.to_string();
        let h = thread::spawn(move || unsafe {
            start2.wait();
            if m.starts_with("refused") {
                let l = Layout::from_size_align(2000, 1).unwrap();
                while !stop2.load(Acquire) {
                    assert!(a2.alloc(l).is_null());
                }
            } else {
                let mut sz = 400;
                let mut p = a2.alloc(Layout::from_size_align(sz, 1).unwrap());
                assert!(!p.is_null());
                while !stop2.load(Acquire) {
                    let ns = if sz == 400 { 500 } else { 400 };
                    let q = a2.realloc(p, Layout::from_size_align(sz, 1).unwrap(), ns);
                    if !q.is_null() {
                        p = q;
                        sz = ns;
                    }
                }
                a2.dealloc(p, Layout::from_size_align(sz, 1).unwrap());
            }
        });
        start.wait();
        let n = scale(5_000_000);
        let mut spurious = 0u64;
        // live bytes never exceed 500 (other thread) + 8, far below 1000
        let l = Layout::from_size_align(8, 1).unwrap();
        for _ in 0..n {
            unsafe {
                let p = a.alloc(l);
                if p.is_null() {
                    spurious += 1;
                } else {
                    a.dealloc(p, l);
                }
            }
        }
        stop.store(true, Release);
        h.join().unwrap();
        println!("overcharge[{}]: {} of {} alloc(8) refused although live bytes <= 508 of limit 1000 (conservative; allowed by C19); final usage {}", mode, spurious, n, usage(&a));
        assert_eq!(usage(&a), 0);
    }
}

// ---------------------------------------------------------------------------------------------
// E. reset_max racing with operations (reset is the measuring instrument, not in the op alphabet:
//    reported separately).
// ---------------------------------------------------------------------------------------------
#[test]
fn e_reset_race() {
    let a: Arc<Alloc> = Arc::new(Alloc::new(usize::MAX));
    let pin_l = Layout::from_size_align(50, 1).unwrap();
    let pin = unsafe { a.alloc(pin_l) };
    let stop = Arc::new(AtomicBool::new(false));
    let (a2, stop2) = (a.clone(), stop.clone());
    let h = thread::spawn(move || {
        let mut n = 0u64;
        while !stop2.load(Acquire) {
            a2.reset_max();
            n += 1;
        }
        n
    });
    let l = Layout::from_size_align(100, 1).unwrap();
    let n = scale(20_000_000);
    let mut low = 0u64;
    let mut example = 0;
    for _ in 0..n {
        unsafe {
            let p = a.alloc(l);
            assert!(!p.is_null());
            // we hold 100 bytes + 50 pinned: usage is 150 right now and was reached after or at any reset
            let pk = a.get_max();
            if pk < 150 {
                low += 1;
                example = pk;
            }
            a.dealloc(p, l);
        }
    }
    stop.store(true, Release);
    let resets = h.join().unwrap();
    unsafe { a.dealloc(pin, pin_l) };
    println!("reset race: {} of {} allocs saw peak < current usage 150 while holding the block (e.g. peak={}); {} concurrent resets", low, n, example, resets);
    assert_eq!(low, 0, "peak under-reported when reset_max overlaps an allocation");
}

// ---------------------------------------------------------------------------------------------
// F. set_limit lowered below usage (outside the property's alphabet; reported separately).
// ---------------------------------------------------------------------------------------------
#[test]
fn f_set_limit_below_usage() {
    let a = Alloc::new(1000);
    unsafe {
        let l = Layout::from_size_align(500, 1).unwrap();
        let p = a.alloc(l);
        assert!(!p.is_null());
        a.set_limit(100);
        println!("after set_limit(100) with 500 live: usage={}", usage(&a));
        let q = a.alloc(Layout::from_size_align(1, 1).unwrap());
        println!("  alloc(1) -> null? {}", q.is_null());
        let r = a.realloc(p, l, 50);
        println!("  realloc 500->50 (shrink, would bring usage to 50 <= 100) -> null? {}  usage={}", r.is_null(), usage(&a));
        let r2 = a.realloc(p, l, 500);
        println!("  realloc 500->500 -> null? {}  usage={}", r2.is_null(), usage(&a));
        a.dealloc(p, l);
        println!("  after dealloc usage={}", usage(&a));
        assert_eq!(usage(&a), 0);
    }
}
