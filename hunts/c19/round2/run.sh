#!/bin/sh
# Reproduce the third C19 hunt. Usage: run.sh [worktree]   (copies the tests in, runs, removes them)
# Env: C19_SCALE (default 1.0), PROFILE=--release|"" (default --release), FILTER (test-name filters)
set -e
WT=${1:-/tmp/hunt3wt-c19}
OUT=/tmp/hunt3out-c19
export CARGO_TARGET_DIR=$WT/target RUST_BACKTRACE=0
PROFILE=${PROFILE---release}
mkdir -p $WT/sandbox/tests
cp $OUT/c19_h3.rs $OUT/previous/c19_seq.rs $OUT/previous/c19_mt.rs $OUT/previous/c19_global.rs $WT/sandbox/tests/
cd $WT
# previous tester's wrap-around tests (c3 is expected to "fail": it observes the transient under-count
# at limit=usize::MAX through a reset_max racing with operations, which is outside the property)
cargo test --offline -p rink-sandbox --test c19_mt $PROFILE -- --nocapture --test-threads=1 c_wrap c2_ c3_ || true
cargo test --offline -p rink-sandbox --test c19_global $PROFILE -- --nocapture --test-threads=1 || true
# this hunt (b3_residual_giant_finite_limit is expected to fail: limits around 2^64/k)
cargo test --offline -p rink-sandbox --test c19_h3 $PROFILE -- --nocapture --test-threads=1 $FILTER || true
rm -rf $WT/sandbox/tests
