// C19 hunt, third pass (after the wrap-around repair: pre-charge `size > limit` guard + wrapping_add).
// Run: cargo test --offline -p rink-sandbox --test c19_h3 [--release] -- --nocapture --test-threads=1
// Env: C19_SCALE=<float, default 1.0> scales iteration counts.
use rink_sandbox::Alloc;
use std::alloc::{GlobalAlloc, Layout};
use std::sync::atomic::{AtomicU64, AtomicUsize, Ordering::*};
use std::sync::{Arc, Mutex};
use std::thread;

const M: usize = isize::MAX as usize;

fn scale(n: u64) -> u64 {
    let s: f64 = std::env::var("C19_SCALE").ok().and_then(|s| s.parse().ok()).unwrap_or(1.0);
    ((n as f64) * s).max(1.0) as u64
}

fn usage(a: &Alloc) -> usize {
    a.reset_max();
    a.get_max()
}

struct SpinBarrier {
    n: usize,
    count: AtomicUsize,
    gen: AtomicUsize,
}
impl SpinBarrier {
    fn new(n: usize) -> Self {
        SpinBarrier { n, count: AtomicUsize::new(0), gen: AtomicUsize::new(0) }
    }
    fn wait(&self) {
        let g = self.gen.load(Acquire);
        if self.count.fetch_add(1, AcqRel) + 1 == self.n {
            self.count.store(0, Release);
            self.gen.fetch_add(1, AcqRel);
        } else {
            let mut k = 0u32;
            while self.gen.load(Acquire) == g {
                k += 1;
                if k > 200 {
                    thread::yield_now();
                } else {
                    std::hint::spin_loop();
                }
            }
        }
    }
}

struct Blk {
    ptr: *mut u8,
    size: usize,
    align: usize,
    tag: u8,
}
unsafe impl Send for Blk {}
impl Blk {
    fn layout(&self) -> Layout {
        Layout::from_size_align(self.size, self.align).unwrap()
    }
    fn pat(&self, i: usize) -> u8 {
        self.tag.wrapping_add((i as u8).wrapping_mul(13)) | 1 // never zero
    }
    unsafe fn fill(&self, from: usize) {
        for i in from..self.size {
            *self.ptr.add(i) = self.pat(i);
        }
    }
    unsafe fn check(&self, upto: usize) -> bool {
        (0..upto).all(|i| *self.ptr.add(i) == self.pat(i))
    }
}

struct Rng(u64);
impl Rng {
    fn next(&mut self) -> u64 {
        self.0 ^= self.0 << 13;
        self.0 ^= self.0 >> 7;
        self.0 ^= self.0 << 17;
        self.0
    }
    fn below(&mut self, n: usize) -> usize {
        (self.next() % n as u64) as usize
    }
}

// =============================================================================================
// 1/7. Hammer with a continuous lower-bound ledger AND its high-water mark.
//   floor      : bytes that are certainly live right now (added after a success returned,
//                removed before the freeing / shrinking call is made)
//   floor_hw   : largest value `floor` ever had since the last quiescent reset
//   Claims checked:
//     - any success: floor <= limit                                   (limit)
//     - mid-flight after own success: get_max() >= floor value        (peak, non-quiescent)
//     - at every barrier (quiescent): get_max() >= floor_hw,          (peak)
//                                     usage == exact live total,      (accounting)
//     - refused realloc: block intact; alloc_zeroed: zero; realloc keeps prefix
// =============================================================================================
#[derive(Default, Debug)]
struct HR {
    ops: u64,
    succ: u64,
    refused: u64,
    parent_fail_like: u64,
    joins: u64,
    mid_under: u64,
    peak_slack_max: usize,
    viol: Vec<String>,
}

fn hammer(nthreads: usize, limit: usize, rounds: u64, ops_per_round: u64, with_huge: bool, seed: u64) -> HR {
    let a: Arc<Alloc> = Arc::new(Alloc::new(limit));
    let pinned_size = if limit >= 64 { 29usize } else { 0 };
    let pinned = if pinned_size > 0 {
        let p = unsafe { a.alloc(Layout::from_size_align(pinned_size, 1).unwrap()) };
        assert!(!p.is_null());
        Some(Blk { ptr: p, size: pinned_size, align: 1, tag: 0 })
    } else {
        None
    };
    assert_eq!(usage(&a), pinned_size);
    let exchange: Arc<Vec<Mutex<Option<Blk>>>> = Arc::new((0..48).map(|_| Mutex::new(None)).collect());
    let floor = Arc::new(AtomicUsize::new(pinned_size));
    let floor_hw = Arc::new(AtomicUsize::new(pinned_size));
    let held: Arc<Vec<AtomicUsize>> = Arc::new((0..nthreads).map(|_| AtomicUsize::new(0)).collect());
    let barrier = Arc::new(SpinBarrier::new(nthreads));
    let viol: Arc<Mutex<Vec<String>>> = Arc::new(Mutex::new(Vec::new()));
    let c = Arc::new([
        AtomicU64::new(0), // ops
        AtomicU64::new(0), // succ
        AtomicU64::new(0), // refused
        AtomicU64::new(0), // huge refused / parent
        AtomicU64::new(0), // joins
        AtomicU64::new(0), // mid-flight under
    ]);
    let slack = Arc::new(AtomicUsize::new(0));

    let mut hs = Vec::new();
    for t in 0..nthreads {
        let (a, exchange, floor, floor_hw, held, barrier, viol, c, slack) =
            (a.clone(), exchange.clone(), floor.clone(), floor_hw.clone(), held.clone(), barrier.clone(), viol.clone(), c.clone(), slack.clone());
        hs.push(thread::spawn(move || {
            let mut rng = Rng(0x9E3779B97F4A7C15 ^ seed.wrapping_mul(0x2545F4914F6CDD1D) ^ ((t as u64 + 1) * 0x1234567));
            let mut mine: Vec<Blk> = Vec::new();
            let mut my_bytes = 0usize;
            let small: [usize; 12] = [1, 2, 7, 8, 16, 33, 100, 257, 500, 999, 4096, 70000];
            let huge: [usize; 7] = [M, M - 1, (1 << 63) - (1 << 19), 1 << 62, (1 << 62) - (1 << 18), 1 << 50, 1 << 48];
            let aligns: [usize; 4] = [1, 8, 64, 4096];
            let maxsz = if limit == usize::MAX { 70000 } else { (limit / 2).max(1) };
            let report = |s: String| {
                let mut v = viol.lock().unwrap();
                if v.len() < 12 {
                    v.push(s);
                }
            };
            let (mut ops, mut succ, mut refd, mut pf, mut mid) = (0u64, 0u64, 0u64, 0u64, 0u64);
            for _round in 0..rounds {
                barrier.wait();
                for _ in 0..ops_per_round {
                    ops += 1;
                    let choice = rng.below(100);
                    let pick_size = |rng: &mut Rng| -> usize {
                        if with_huge && rng.below(6) == 0 {
                            return huge[rng.below(huge.len())];
                        }
                        small[rng.below(small.len())].min(maxsz).max(1)
                    };
                    unsafe {
                        if choice < 30 || mine.is_empty() && choice < 80 {
                            let zero = rng.below(2) == 0;
                            let size = pick_size(&mut rng);
                            let is_huge = size >= 1 << 48;
                            let align = if is_huge { 1 } else { aligns[rng.below(4)] };
                            let l = Layout::from_size_align(size, align).unwrap();
                            let p = if zero { a.alloc_zeroed(l) } else { a.alloc(l) };
                            if p.is_null() {
                                refd += 1;
                                if is_huge {
                                    pf += 1;
                                }
                            } else {
                                succ += 1;
                                if is_huge {
                                    report(format!("huge alloc {:#x} succeeded?!", size));
                                    a.dealloc(p, l);
                                    continue;
                                }
                                let b = Blk { ptr: p, size, align, tag: rng.next() as u8 };
                                if p as usize % align != 0 {
                                    report("misaligned".into());
                                }
                                if zero && !(0..size).all(|i| *p.add(i) == 0) {
                                    report(format!("VIOLATION alloc_zeroed({},{}) returned non-zero memory", size, align));
                                }
                                b.fill(0);
                                let f = floor.fetch_add(size, AcqRel) + size;
                                floor_hw.fetch_max(f, AcqRel);
                                if f > limit {
                                    report(format!("VIOLATION success above limit: certainly-live {} > limit {} after alloc({})", f, limit, size));
                                }
                                let pk = a.get_max();
                                if pk < f {
                                    mid += 1;
                                    report(format!("mid-flight: peak {:#x} < certainly-live {:#x} right after own alloc({})", pk, f, size));
                                }
                                my_bytes += size;
                                mine.push(b);
                            }
                        } else if choice < 58 && !mine.is_empty() {
                            let i = rng.below(mine.len());
                            let old = mine[i].size;
                            let mut ns = match rng.below(5) {
                                0 => old,
                                1 => (old / 2).max(1),
                                2 => (old + 1 + rng.below(old + 8)).min(maxsz.max(old)),
                                3 => old.saturating_sub(1).max(1),
                                _ => pick_size(&mut rng),
                            };
                            if ns >= 1 << 48 && mine[i].align > 1 {
                                ns &= !(mine[i].align - 1); // keep the rounded-up size <= isize::MAX (caller contract)
                            }
                            let is_huge = ns >= 1 << 48;
                            if ns < old {
                                floor.fetch_sub(old - ns, AcqRel);
                            }
                            let l = mine[i].layout();
                            let p = a.realloc(mine[i].ptr, l, ns);
                            if p.is_null() {
                                refd += 1;
                                if is_huge {
                                    pf += 1;
                                }
                                if ns < old {
                                    let f = floor.fetch_add(old - ns, AcqRel) + (old - ns);
                                    floor_hw.fetch_max(f, AcqRel);
                                }
                                if !mine[i].check(old) {
                                    report(format!("VIOLATION refused realloc {}->{:#x} damaged the block", old, ns));
                                }
                            } else {
                                succ += 1;
                                if is_huge {
                                    report(format!("huge realloc {:#x} succeeded?!", ns));
                                }
                                mine[i].ptr = p;
                                mine[i].size = ns;
                                if p as usize % mine[i].align != 0 {
                                    report("misaligned after realloc".into());
                                }
                                if !mine[i].check(old.min(ns)) {
                                    report("VIOLATION realloc lost the common prefix".into());
                                }
                                mine[i].fill(old.min(ns));
                                if ns > old {
                                    let f = floor.fetch_add(ns - old, AcqRel) + (ns - old);
                                    floor_hw.fetch_max(f, AcqRel);
                                    if f > limit {
                                        report(format!("VIOLATION success above limit: certainly-live {} > limit {} after realloc {}->{}", f, limit, old, ns));
                                    }
                                    let pk = a.get_max();
                                    if pk < f {
                                        mid += 1;
                                        report(format!("mid-flight: peak {:#x} < certainly-live {:#x} right after own realloc {}->{}", pk, f, old, ns));
                                    }
                                }
                                my_bytes = my_bytes - old + ns;
                            }
                        } else if choice < 76 && !mine.is_empty() {
                            let i = rng.below(mine.len());
                            let b = mine.swap_remove(i);
                            if !b.check(b.size) {
                                report("block content damaged before dealloc".into());
                            }
                            floor.fetch_sub(b.size, AcqRel);
                            my_bytes -= b.size;
                            a.dealloc(b.ptr, b.layout());
                        } else if choice < 88 && !mine.is_empty() {
                            let i = rng.below(mine.len());
                            let mut slot = exchange[rng.below(48)].lock().unwrap();
                            if slot.is_none() {
                                let b = mine.swap_remove(i);
                                my_bytes -= b.size;
                                *slot = Some(b);
                            }
                        } else {
                            let mut slot = exchange[rng.below(48)].lock().unwrap();
                            if let Some(b) = slot.take() {
                                my_bytes += b.size;
                                mine.push(b);
                            }
                        }
                    }
                }
                held[t].store(my_bytes, Release);
                barrier.wait();
                if t == 0 {
                    let mut total = pinned_size;
                    for i in 0..nthreads {
                        total += held[i].load(Acquire);
                    }
                    for s in exchange.iter() {
                        if let Some(b) = s.lock().unwrap().as_ref() {
                            total += b.size;
                        }
                    }
                    let pk = a.get_max();
                    let hw = floor_hw.load(Acquire);
                    if pk < hw {
                        report(format!("VIOLATION at join: peak {:#x} < high-water of certainly-live bytes {:#x} (deficit {})", pk, hw, hw - pk));
                    } else if pk < 1 << 47 {
                        slack.fetch_max(pk - hw, Relaxed);
                    }
                    let fl = floor.load(Acquire);
                    if fl != total {
                        report(format!("harness bug: floor {} != total {}", fl, total));
                    }
                    let u = usage(&a);
                    if u != total {
                        report(format!("VIOLATION at join: usage {:#x} != live total {:#x}", u, total));
                    }
                    if total > limit {
                        report(format!("VIOLATION at join: live total {} > limit {}", total, limit));
                    }
                    floor_hw.store(total, Release);
                    c[4].fetch_add(1, Relaxed);
                }
                barrier.wait();
            }
            for b in mine.drain(..) {
                unsafe { a.dealloc(b.ptr, b.layout()) };
            }
            c[0].fetch_add(ops, Relaxed);
            c[1].fetch_add(succ, Relaxed);
            c[2].fetch_add(refd, Relaxed);
            c[3].fetch_add(pf, Relaxed);
            c[5].fetch_add(mid, Relaxed);
        }));
    }
    for h in hs {
        h.join().unwrap();
    }
    for s in exchange.iter() {
        if let Some(b) = s.lock().unwrap().take() {
            unsafe { a.dealloc(b.ptr, b.layout()) };
        }
    }
    let mut v = viol.lock().unwrap().clone();
    let u = usage(&a);
    if u != pinned_size {
        v.push(format!("VIOLATION final: usage {:#x} != pinned {}", u, pinned_size));
    }
    if let Some(b) = pinned {
        unsafe {
            if !b.check(0) {
                v.push("pinned damaged".into());
            }
            a.dealloc(b.ptr, b.layout())
        };
    }
    if usage(&a) != 0 {
        v.push(format!("VIOLATION final: usage {:#x} != 0 after freeing all", usage(&a)));
    }
    HR {
        ops: c[0].load(Relaxed),
        succ: c[1].load(Relaxed),
        refused: c[2].load(Relaxed),
        parent_fail_like: c[3].load(Relaxed),
        joins: c[4].load(Relaxed),
        mid_under: c[5].load(Relaxed),
        peak_slack_max: slack.load(Relaxed),
        viol: v,
    }
}

fn run_hammers(with_huge: bool, rounds: u64, opr: u64, tag: &str) -> usize {
    let mut bad = 0;
    for &n in &[2usize, 3, 4, 8, 16, 32] {
        for &limit in &[64usize, 1000, 1 << 20, usize::MAX] {
            // barrier-dominated tiny rounds get very slow with more threads than cores
            let rounds = if opr <= 3 && n >= 16 { rounds / 10 } else { rounds };
            let r = hammer(n, limit, scale(rounds), opr, with_huge, n as u64 * 31 + opr);
            println!(
                "hammer[{}] threads={:<2} limit={:<20} ops={} succ={} refused={} (huge refused {}) joins={} mid_under={} max peak over-report at a join={} violations={}",
                tag, n, limit, r.ops, r.succ, r.refused, r.parent_fail_like, r.joins, r.mid_under, r.peak_slack_max, r.viol.len()
            );
            for v in &r.viol {
                println!("      {}", v);
            }
            bad += r.viol.len();
        }
    }
    bad
}

#[test]
fn a1_hammer_long_rounds_no_huge() {
    assert_eq!(run_hammers(false, 150, 2000, "long,no-huge"), 0);
}
#[test]
fn a2_hammer_long_rounds_huge() {
    assert_eq!(run_hammers(true, 150, 2000, "long,huge"), 0);
}
// very short rounds: 1..3 operations per thread between two quiescent points; many joins, so the
// quiescent peak >= high-water check is made against histories of only a handful of overlapping ops.
#[test]
fn a3_hammer_tiny_rounds_no_huge() {
    let mut bad = 0;
    for &opr in &[1u64, 2, 3] {
        bad += run_hammers(false, 20_000, opr, &format!("tiny{},no-huge", opr));
    }
    assert_eq!(bad, 0);
}
#[test]
fn a4_hammer_tiny_rounds_huge() {
    let mut bad = 0;
    for &opr in &[1u64, 3] {
        bad += run_hammers(true, 20_000, opr, &format!("tiny{},huge", opr));
    }
    assert_eq!(bad, 0);
}

// =============================================================================================
// 2. Giant limits / "no limit": H threads keep issuing enormous (always failing) requests while
//    one prober makes exactly ONE successful allocation of `s` bytes per round and holds it to
//    the quiescent point. Then: usage must be T+s exactly, peak must be >= T+s.
// =============================================================================================
struct GiantOut {
    rounds: u64,
    prober_success: u64,
    prober_gaveup: u64,
    peak_under: u64,
    max_deficit: usize,
    usage_wrong: u64,
    huge_success: u64,
    peak_example: usize,
}

fn giant(limit: usize, h: usize, nh: usize, pinned: usize, rounds: u64, per_round: u64, realloc_prober: bool) -> GiantOut {
    let a: Arc<Alloc> = Arc::new(Alloc::new(limit));
    let pin_l = Layout::from_size_align(pinned, 1).unwrap();
    let pin = unsafe { a.alloc(pin_l) };
    assert!(!pin.is_null());
    assert_eq!(usage(&a), pinned);
    let bar = Arc::new(SpinBarrier::new(nh + 1));
    let hsucc = Arc::new(AtomicU64::new(0));
    let mut hs = Vec::new();
    for t in 0..nh {
        let (a, bar, hsucc) = (a.clone(), bar.clone(), hsucc.clone());
        hs.push(thread::spawn(move || {
            let l = Layout::from_size_align(h, 1).unwrap();
            // a small block of our own, to also send huge *realloc* requests
            let sl = Layout::from_size_align(16, 1).unwrap();
            for _ in 0..rounds {
                bar.wait();
                let small = unsafe { a.alloc(sl) };
                for i in 0..per_round {
                    unsafe {
                        let p = match (i + t as u64) % 3 {
                            0 => a.alloc(l),
                            1 => a.alloc_zeroed(l),
                            _ => {
                                if small.is_null() {
                                    a.alloc(l)
                                } else {
                                    let q = a.realloc(small, sl, h);
                                    if !q.is_null() {
                                        hsucc.fetch_add(1, Relaxed);
                                        // cannot continue sanely; leak
                                    }
                                    std::ptr::null_mut()
                                }
                            }
                        };
                        if !p.is_null() {
                            hsucc.fetch_add(1, Relaxed);
                            a.dealloc(p, l);
                        }
                    }
                }
                if !small.is_null() {
                    unsafe { a.dealloc(small, sl) };
                }
                bar.wait(); // quiescent point
                bar.wait(); // checks done
            }
        }));
    }
    let mut out = GiantOut { rounds, prober_success: 0, prober_gaveup: 0, peak_under: 0, max_deficit: 0, usage_wrong: 0, huge_success: 0, peak_example: 0 };
    let base_l = Layout::from_size_align(64, 1).unwrap();
    for r in 0..rounds {
        let s = 4096 + (r as usize % 1000);
        let l = Layout::from_size_align(s, 1).unwrap();
        // for the realloc prober: a 64-byte block obtained at the quiescent point, grown to s
        let base = if realloc_prober { unsafe { a.alloc(base_l) } } else { std::ptr::null_mut() };
        let t0 = usage(&a);
        assert_eq!(t0, pinned + if realloc_prober { 64 } else { 0 });
        bar.wait();
        let mut p: *mut u8 = std::ptr::null_mut();
        let mut tries = 0;
        // start a little into the round
        for _ in 0..(r % 64) * 8 {
            std::hint::spin_loop();
        }
        while p.is_null() && tries < 200_000 {
            p = unsafe { if realloc_prober { a.realloc(base, base_l, s) } else { a.alloc(l) } };
            tries += 1;
        }
        bar.wait();
        // quiescent
        let pk = a.get_max();
        if !p.is_null() {
            out.prober_success += 1;
            let need = pinned + s;
            if pk < need {
                out.peak_under += 1;
                out.max_deficit = out.max_deficit.max(need - pk);
            }
            out.peak_example = pk;
            let u = usage(&a);
            if u != need {
                out.usage_wrong += 1;
            }
            unsafe { a.dealloc(p, l) };
        } else {
            out.prober_gaveup += 1;
            if realloc_prober {
                unsafe { a.dealloc(base, base_l) };
            }
        }
        if usage(&a) != pinned {
            out.usage_wrong += 1;
        }
        bar.wait();
    }
    for h in hs {
        h.join().unwrap();
    }
    unsafe { a.dealloc(pin, pin_l) };
    if usage(&a) != 0 {
        out.usage_wrong += 1;
    }
    out.huge_success = hsucc.load(Relaxed);
    out
}

fn show(name: &str, o: &GiantOut) {
    println!(
        "{}: rounds={} prober_success={} gave_up={} PEAK_UNDER_REPORTED_AT_QUIESCENCE={} (max deficit {} bytes) usage_wrong={} huge_success={} last peak={:#x}",
        name, o.rounds, o.prober_success, o.prober_gaveup, o.peak_under, o.max_deficit, o.usage_wrong, o.huge_success, o.peak_example
    );
}

// limit == usize::MAX: what the CLI has before set_limit. Guard `size > limit` never fires.
#[test]
fn b1_unlimited_huge_requests() {
    let mut bad = 0;
    for &rp in &[false, true] {
        for &(h, hn) in &[(M, "isize::MAX"), ((1usize << 63) - (1 << 19), "2^63-2^19"), (1usize << 62, "2^62")] {
            for &nh in &[2usize, 3, 4, 8] {
                let o = giant(usize::MAX, h, nh, 2 << 20, scale(3000), 40, rp);
                show(&format!("unlimited realloc_prober={} h={} huge_threads={}", rp, hn, nh), &o);
                bad += o.peak_under + o.usage_wrong + o.huge_success;
            }
        }
    }
    assert_eq!(bad, 0);
}

// realistic finite limits with huge requests in flight (guard fires: never charged)
#[test]
fn b2_finite_limits_huge_requests() {
    let mut bad = 0;
    for &limit in &[4usize << 20, 1 << 30, 1 << 40] {
        for &nh in &[2usize, 4, 8] {
            let o = giant(limit, M, nh, 2 << 20, scale(2000), 40, false);
            show(&format!("limit={:#x} h=isize::MAX huge_threads={}", limit, nh), &o);
            bad += o.peak_under + o.usage_wrong + o.huge_success;
            // requests of exactly `limit` bytes: charged, always refused (pinned > 0)
            let o = giant(limit, limit, nh, 2 << 20, scale(2000), 40, true);
            show(&format!("limit={:#x} h=limit huge_threads={} (realloc prober)", limit, nh), &o);
            bad += o.peak_under + o.usage_wrong + o.huge_success;
        }
    }
    assert_eq!(bad, 0);
}

// RESIDUAL of the wrap-around defect: limits around 2^64/k for small k (k = requests in flight).
// limit = h = 2^63-2^19, 2 MiB live: first huge request is refused post-charge (not recorded),
// second wraps `used` to T-2^20 and passes the check; a small request that succeeds in that window
// records peak = T-2^20+s although usage really is T+s.
#[test]
fn b3_residual_giant_finite_limit() {
    let mut found = 0;
    let h = (1usize << 63) - (1 << 19);
    for &nh in &[2usize, 4, 8] {
        for &rp in &[false, true] {
            let o = giant(h, h, nh, 2 << 20, scale(3000), 40, rp);
            show(&format!("RESIDUAL limit=2^63-2^19 h=limit huge_threads={} realloc_prober={}", nh, rp), &o);
            found += o.peak_under + o.usage_wrong + o.huge_success;
        }
    }
    let h = (1usize << 62) - (1 << 18);
    for &nh in &[4usize, 8, 16] {
        let o = giant(h, h, nh, 2 << 20, scale(3000), 40, false);
        show(&format!("RESIDUAL limit=2^62-2^18 h=limit huge_threads={}", nh), &o);
        found += o.peak_under + o.usage_wrong + o.huge_success;
    }
    let o = giant(M, M, 2, 2 << 20, scale(3000), 40, false);
    show("RESIDUAL limit=isize::MAX h=isize::MAX huge_threads=2", &o);
    found += o.peak_under + o.usage_wrong + o.huge_success;
    assert_eq!(found, 0, "peak under-reported at a quiescent point with a giant finite limit");
}

// =============================================================================================
// 5. The three refusal paths of realloc: block intact, still accounted, still freeable.
// =============================================================================================
#[test]
fn c1_realloc_refusal_paths() {
    unsafe {
        for &align in &[1usize, 8, 64, 4096] {
            // (a) pre-charge guard: new_size > limit
            let a = Alloc::new(1000);
            let mut b = Blk { ptr: a.alloc(Layout::from_size_align(400, align).unwrap()), size: 400, align, tag: 7 };
            assert!(!b.ptr.is_null());
            b.fill(0);
            for &ns in &[1001usize, 4096, 1 << 40, M & !(align - 1)] {
                assert!(a.realloc(b.ptr, b.layout(), ns).is_null());
                assert!(b.check(400), "refused realloc (guard) damaged block");
                assert_eq!(usage(&a), 400);
            }
            // (b) post-charge refusal: used + new_size > limit (includes shrinks and same-size: conservative)
            for &ns in &[601usize, 1000, 700] {
                assert!(a.realloc(b.ptr, b.layout(), ns).is_null(), "400->{} with limit 1000 charges 400+{}", ns, ns);
                assert!(b.check(400));
                assert_eq!(usage(&a), 400);
            }
            // boundary: 400 + 600 == limit -> must succeed (resulting usage 600)
            let p = a.realloc(b.ptr, b.layout(), 600);
            assert!(!p.is_null());
            b.ptr = p;
            b.size = 600;
            assert!(b.check(400));
            b.fill(400);
            assert_eq!(a.get_max(), 1000, "peak after realloc 400->600 is old+new (over-report, allowed)");
            assert_eq!(usage(&a), 600);
            // conservative: shrink 600->500 needs 600+500 > 1000 -> refused though result would fit
            let p = a.realloc(b.ptr, b.layout(), 500);
            println!("align={} shrink 600->500 at limit 1000: refused={} (conservative, allowed)", align, p.is_null());
            assert!(p.is_null());
            assert!(b.check(600));
            assert_eq!(usage(&a), 600);
            a.dealloc(b.ptr, b.layout());
            assert_eq!(usage(&a), 0);

            // (c) parent failure: limit lets it through, System cannot provide
            for &limit in &[usize::MAX, 1usize << 60] {
                let a = Alloc::new(limit);
                let mut b = Blk { ptr: a.alloc(Layout::from_size_align(5000, align).unwrap()), size: 5000, align, tag: 9 };
                b.fill(0);
                assert_eq!(usage(&a), 5000);
                for &ns in &[1usize << 50, 1 << 48, (1 << 60) - 4096] {
                    let p = a.realloc(b.ptr, b.layout(), ns);
                    assert!(p.is_null(), "System provided {:#x} bytes?!", ns);
                    assert!(b.check(5000), "parent-failed realloc damaged block");
                    let pk = a.get_max();
                    assert!(pk >= 5000);
                    assert_eq!(usage(&a), 5000, "parent-failed realloc changed usage");
                }
                // parent-failed alloc / alloc_zeroed
                for &ns in &[1usize << 50, 1 << 48] {
                    assert!(a.alloc(Layout::from_size_align(ns, align).unwrap()).is_null());
                    assert!(a.alloc_zeroed(Layout::from_size_align(ns, align).unwrap()).is_null());
                    assert_eq!(usage(&a), 5000);
                }
                // still usable afterwards
                let p = a.realloc(b.ptr, b.layout(), 9000);
                assert!(!p.is_null());
                b.ptr = p;
                b.size = 9000;
                assert!(b.check(5000));
                assert_eq!(usage(&a), 9000);
                a.dealloc(b.ptr, b.layout());
                assert_eq!(usage(&a), 0);
            }
        }
    }
}

// =============================================================================================
// 6. alloc_zeroed on recycled (dirty) memory.
// =============================================================================================
#[test]
fn c2_alloc_zeroed_recycled() {
    unsafe {
        let a = Alloc::new(usize::MAX);
        let mut recycled = 0;
        let mut total = 0;
        for &align in &[1usize, 2, 8, 16, 32, 64, 4096, 1 << 16] {
            for &size in &[1usize, 8, 24, 100, 1000, 4096, 65536, 131072, 200_000, 1 << 20, 3 << 20] {
                for rep in 0..6 {
                    let l = Layout::from_size_align(size, align).unwrap();
                    // dirty several blocks of this class, free them all
                    let mut ps = Vec::new();
                    for _ in 0..(rep + 1) {
                        let p = a.alloc(l);
                        assert!(!p.is_null());
                        std::ptr::write_bytes(p, 0xAB, size);
                        ps.push(p as usize);
                    }
                    for &p in &ps {
                        a.dealloc(p as *mut u8, l);
                    }
                    let z = a.alloc_zeroed(l);
                    assert!(!z.is_null());
                    assert!(z as usize % align == 0);
                    total += 1;
                    if ps.contains(&(z as usize)) {
                        recycled += 1;
                    }
                    let bad = (0..size).find(|&i| *z.add(i) != 0);
                    assert!(bad.is_none(), "VIOLATION alloc_zeroed(size={}, align={}) non-zero at {:?} (recycled={})", size, align, bad, ps.contains(&(z as usize)));
                    // realloc-grow of a zeroed block keeps prefix; nothing promised about the tail
                    a.dealloc(z, l);
                }
            }
        }
        assert_eq!(usage(&a), 0);
        println!("alloc_zeroed: {} checks, {} of them got a just-freed dirty block back; all zero", total, recycled);
        assert!(recycled > 0, "harness never saw recycled memory");
    }
}

// =============================================================================================
// 4. Zero sizes (outside the GlobalAlloc contract): what the accounting does. Informational.
// =============================================================================================
#[test]
fn z_zero_sizes_out_of_contract() {
    unsafe {
        for &align in &[1usize, 8, 64] {
            let a = Alloc::new(1000);
            let l0 = Layout::from_size_align(0, align).unwrap();
            let p0 = a.alloc(l0);
            let z0 = a.alloc_zeroed(l0);
            println!("align={}: alloc(0) null={} alloc_zeroed(0) null={} usage={}", align, p0.is_null(), z0.is_null(), usage(&a));
            // realloc from size 0
            if !p0.is_null() {
                let q = a.realloc(p0, l0, 100);
                println!("   realloc 0->100 null={} usage={} (expected 100 if non-null)", q.is_null(), usage(&a));
                if !q.is_null() {
                    a.dealloc(q, Layout::from_size_align(100, align).unwrap());
                } else {
                    a.dealloc(p0, l0);
                }
            }
            if !z0.is_null() {
                a.dealloc(z0, l0);
            }
            println!("   after freeing: usage={}", usage(&a));
            // realloc to size 0
            let l = Layout::from_size_align(200, align).unwrap();
            let p = a.alloc(l);
            std::ptr::write_bytes(p, 0x5A, 200);
            let q = a.realloc(p, l, 0);
            let u = usage(&a);
            println!("   realloc 200->0: returned null={} usage afterwards={}", q.is_null(), u);
            if q.is_null() {
                // Alloc reports a refusal: by the property the block must be intact and accounted (u == 200).
                // Is it really still allocated? Ask the system allocator for the same size class and see
                // whether it hands the same address out again.
                let again = std::alloc::System.alloc(l);
                println!("   -> System.alloc(200) right after returned the SAME address: {} (block was freed by the parent although realloc reported failure)", again == p);
                std::alloc::System.dealloc(again, l);
                // do not touch p again
            } else {
                a.dealloc(q, l0);
                println!("   after dealloc of the zero-size block: usage={}", usage(&a));
            }
        }
    }
}
