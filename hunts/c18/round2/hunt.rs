// C18 hunt driver: one Sandbox per process, real child processes.
//
//   hunt <scenario> key=value ...
//
// scenario `mix`   : seeded random request sequence drawn from the categories in `cats=`
// scenarios `bigreq`, `leakbig`, `leaksmall`, `badser`, `huge`, `cancel`, `concurrent`, `terminate`,
//          `resume`, `stdout`, `delayed`, `idlekill`, `stopwrite` : small deterministic sequences
//          (see the functions below)
//
// Every request carries a unique id that the service echoes in its reply (and in
// formatted panic messages), so any stale / foreign reply is attributable.
//
// Exit status: 0 = no hard violation, 1 = hard violation(s), 3 = watchdog (hang).

use rink_sandbox::{Alloc, Error, Response, Sandbox, Service};
use serde_derive::{Deserialize, Serialize};
use std::{
    env,
    ffi::OsString,
    io::Error as IoError,
    sync::atomic::{AtomicU64, AtomicUsize, Ordering},
    sync::Arc,
    time::{Duration, Instant},
};

extern "C" {
    fn kill(pid: i32, sig: i32) -> i32;
    fn raise(sig: i32) -> i32;
    fn abort() -> !;
    fn _exit(c: i32) -> !;
    fn close(fd: i32) -> i32;
    fn getppid() -> i32;
}
const SIGINT: i32 = 2;
const SIGKILL: i32 = 9;
const SIGSTOP: i32 = 19;

#[global_allocator]
pub(crate) static GLOBAL: Alloc = Alloc::new(usize::MAX);

#[derive(Serialize, Deserialize, Clone, Debug, Default)]
struct Cfg {
    timeout_ms: u64,
    mem_limit: usize,
    /// create() sleeps this long before returning (slow start-up)
    create_ms: u64,
    /// ballast carried by the config itself (handshake frame size)
    ballast: String,
}

#[derive(Serialize, Deserialize, Clone, Debug)]
enum Op {
    Add(i64, i64),
    Echo { reply: usize },
    AllocOk(usize),
    PanicLit,
    PanicFmt,
    PanicHold(usize),
    PanicAny,
    DoublePanic,
    ThreadPanicOk,
    ResumeUnwind,
    Sleep(u64),
    Spin(u64),
    SleepReply { ms: u64, reply: usize },
    AllocAbort(usize),
    AllocInReply(usize),
    Exit(i32),
    Abort,
    KillSelf(i32),
    Println(String),
    DelayedAbort(u64),
    Leak(usize),
    Zeros(usize),
    LeakUntil(usize),
    Path(std::path::PathBuf),
    /// reply normally; a background thread ends the process `us` microseconds later
    /// how: 0 = _exit(0), 1 = abort, 2 = SIGKILL, 3 = SIGSTOP
    DelayedDie { us: u64, how: u8 },
    StackOverflow,
    /// the reply value itself blows up when the child drops it, after the reply was written
    /// 1 = panic in drop, 2 = abort in drop, 3 = exit(0) in drop
    Bomb(u8),
    CloseStdout,
    /// SIGINT to the parent (the driver) from inside the request
    IntParent,
}

#[derive(Serialize, Deserialize, Clone, Debug)]
struct Req {
    id: u64,
    op: Op,
    pad: String,
    /// many empty vectors: 8 bytes each in the frame, 24 bytes each once deserialised
    blow: Vec<Vec<u8>>,
}

#[derive(Serialize, Deserialize, Clone, Debug)]
struct Res {
    id: u64,
    val: i64,
    pid: u32,
    pad_len: usize,
    pad_sum: u64,
    data: String,
    bomb: u8,
}

static IS_CHILD: std::sync::atomic::AtomicBool = std::sync::atomic::AtomicBool::new(false);

impl Drop for Res {
    fn drop(&mut self) {
        if self.bomb != 0 && IS_CHILD.load(Ordering::SeqCst) {
            match self.bomb {
                1 => panic!("hunt bomb panic in drop of reply id={} end", self.id),
                2 => unsafe { abort() },
                _ => unsafe { _exit(0) },
            }
        }
    }
}

#[inline(never)]
fn recurse(n: u64) -> u64 {
    let a = [n; 64];
    if n == u64::MAX {
        return 0;
    }
    std::hint::black_box(recurse(n + 1) + std::hint::black_box(a)[(n % 64) as usize])
}

fn payload(id: u64, n: usize) -> String {
    let pat = format!("{:016x}|", id);
    let pb = pat.as_bytes();
    let mut s = String::with_capacity(n);
    let mut i = 0;
    while s.len() < n {
        s.push(pb[i % pb.len()] as char);
        i += 1;
    }
    s
}

fn checksum(s: &str) -> u64 {
    let mut h: u64 = 0xcbf29ce484222325;
    for b in s.as_bytes() {
        h ^= *b as u64;
        h = h.wrapping_mul(0x100000001b3);
    }
    h
}

struct Hunt;

static LEAKED: AtomicUsize = AtomicUsize::new(0);

impl Service for Hunt {
    type Req = Req;
    type Res = Res;
    type Config = Cfg;

    fn args(_c: &Cfg) -> Vec<OsString> {
        vec!["--child".into()]
    }
    fn timeout(c: &Cfg) -> Duration {
        Duration::from_millis(c.timeout_ms)
    }
    fn create(c: Cfg) -> Result<Self, IoError> {
        GLOBAL.set_limit(c.mem_limit);
        if c.create_ms > 0 {
            std::thread::sleep(Duration::from_millis(c.create_ms));
        }
        Ok(Hunt)
    }
    fn handle(&self, r: Req) -> Res {
        let mut res = Res {
            id: r.id,
            val: 0,
            pid: std::process::id(),
            pad_len: r.pad.len(),
            pad_sum: checksum(&r.pad),
            data: String::new(),
            bomb: 0,
        };
        match r.op {
            Op::DelayedDie { us, how } => {
                std::thread::spawn(move || {
                    let t = Instant::now();
                    while t.elapsed() < Duration::from_micros(us) {
                        std::hint::spin_loop();
                    }
                    unsafe {
                        match how {
                            0 => _exit(0),
                            1 => abort(),
                            2 => {
                                raise(SIGKILL);
                            }
                            _ => {
                                raise(SIGSTOP);
                            }
                        }
                    }
                });
                res.val = 1;
            }
            Op::StackOverflow => res.val = recurse(r.id) as i64,
            Op::Bomb(k) => {
                res.bomb = k;
                res.val = k as i64;
            }
            Op::CloseStdout => {
                unsafe { close(1) };
                std::thread::sleep(Duration::from_millis(20));
                res.val = 1;
            }
            Op::IntParent => {
                unsafe { kill(getppid(), SIGINT) };
                res.val = 1;
            }
            Op::Add(a, b) => res.val = a + b,
            Op::Echo { reply } => res.data = payload(r.id ^ 0x5a5a, reply),
            Op::AllocOk(n) => {
                let v = vec![1u8; n];
                res.val = v.iter().map(|x| *x as i64).sum();
            }
            Op::PanicLit => panic!("hunt literal panic"),
            Op::PanicFmt => panic!("hunt fmt panic id={} end", r.id),
            Op::PanicHold(n) => {
                let v = vec![7u8; n];
                if v[n / 2] == 7 {
                    panic!("hunt hold panic id={} end", r.id);
                }
            }
            Op::PanicAny => std::panic::panic_any(r.id),
            Op::DoublePanic => {
                struct D;
                impl Drop for D {
                    fn drop(&mut self) {
                        panic!("second panic in drop");
                    }
                }
                let _d = D;
                panic!("hunt first panic id={} end", r.id);
            }
            Op::ThreadPanicOk => {
                let id = r.id;
                let j = std::thread::spawn(move || panic!("hunt thread panic id={} end", id));
                res.val = if j.join().is_err() { 1 } else { 0 };
            }
            Op::ResumeUnwind => std::panic::resume_unwind(Box::new(r.id)),
            Op::Sleep(ms) => {
                std::thread::sleep(Duration::from_millis(ms));
                res.val = ms as i64;
            }
            Op::Spin(ms) => {
                let t = Instant::now();
                let mut x = 0u64;
                while t.elapsed() < Duration::from_millis(ms) {
                    x = x.wrapping_mul(31).wrapping_add(7);
                }
                res.val = (x & 1) as i64;
            }
            Op::SleepReply { ms, reply } => {
                std::thread::sleep(Duration::from_millis(ms));
                res.data = payload(r.id ^ 0x5a5a, reply);
            }
            Op::AllocAbort(n) => {
                let v = vec![1u8; n];
                res.val = v[n - 1] as i64;
            }
            Op::AllocInReply(n) => {
                // reply whose serialisation (a second copy) breaks the limit
                res.data = payload(r.id ^ 0x5a5a, n);
            }
            Op::Exit(c) => std::process::exit(c),
            Op::Abort => unsafe { abort() },
            Op::KillSelf(sig) => {
                unsafe { raise(sig) };
                res.val = sig as i64;
            }
            Op::Println(s) => {
                print!("{}", s);
                res.val = 1;
            }
            Op::DelayedAbort(ms) => {
                std::thread::spawn(move || {
                    std::thread::sleep(Duration::from_millis(ms));
                    unsafe { abort() }
                });
                res.val = 1;
            }
            Op::Zeros(n) => res.data = "0".repeat(n),
            Op::Path(p) => res.val = p.as_os_str().len() as i64,
            Op::LeakUntil(chunk) => {
                // stateful service filling up: leak until less than `chunk`..2*`chunk` bytes are left
                let mut last: Option<Vec<u8>> = None;
                let mut total = 0usize;
                loop {
                    let mut v: Vec<u8> = Vec::new();
                    if v.try_reserve_exact(chunk).is_err() {
                        break;
                    }
                    v.resize(chunk, 9);
                    total += chunk;
                    if let Some(prev) = last.replace(v) {
                        std::mem::forget(prev);
                    }
                }
                drop(last); // give one chunk back so that the reply itself can be built
                res.val = total as i64;
            }
            Op::Leak(n) => {
                let v = vec![3u8; n];
                std::mem::forget(v);
                res.val = (LEAKED.fetch_add(n, Ordering::SeqCst) + n) as i64;
            }
        }
        res
    }
}

// ---------------------------------------------------------------- driver side

#[derive(Debug, Clone)]
enum Out {
    Ok(Res),
    Panic(String),
    Timeout,
    Crashed,
    Other(String),
}

fn classify(r: Result<Response<Res>, Error>) -> Out {
    match r {
        Ok(resp) => Out::Ok(resp.result),
        Err(Error::Panic(m)) => Out::Panic(m),
        Err(Error::Timeout(_)) => Out::Timeout,
        Err(Error::Crashed) => Out::Crashed,
        Err(e) => Out::Other(format!("{:?}", e)),
    }
}

fn short(o: &Out) -> String {
    match o {
        Out::Ok(r) => format!(
            "Ok(id={} val={} pid={} pad_len={} data_len={})",
            r.id,
            r.val,
            r.pid,
            r.pad_len,
            r.data.len()
        ),
        Out::Panic(m) => {
            let m: String = m.chars().filter(|c| !c.is_control()).take(160).collect();
            format!("Panic({})", m)
        }
        Out::Timeout => "Timeout".into(),
        Out::Crashed => "Crashed".into(),
        Out::Other(s) => format!("Other({})", s),
    }
}

#[derive(Default, Clone, Debug)]
struct Expect {
    ok: bool,
    panic_marker: Option<String>,
    timeout: bool,
    crashed: bool,
    // expected reply contents when Ok
    val: Option<i64>,
    data_len: usize,
    // an Err(other) whose Debug text contains this is this request's accurate answer
    other: Option<String>,
}

struct Rng(u64);
impl Rng {
    fn next(&mut self) -> u64 {
        self.0 = self.0.wrapping_add(0x9e3779b97f4a7c15);
        let mut z = self.0;
        z = (z ^ (z >> 30)).wrapping_mul(0xbf58476d1ce4e5b9);
        z = (z ^ (z >> 27)).wrapping_mul(0x94d049bb133111eb);
        z ^ (z >> 31)
    }
    fn below(&mut self, n: u64) -> u64 {
        self.next() % n
    }
    fn pick<T: Copy>(&mut self, xs: &[T]) -> T {
        xs[self.below(xs.len() as u64) as usize]
    }
}

struct Stats {
    sent: u64,
    ok: u64,
    hard: u64,
    soft_timeout: u64,
    late_ok: u64,
    dead: bool,
    by_kind: std::collections::BTreeMap<String, u64>,
}

static PROGRESS: AtomicU64 = AtomicU64::new(0);
static CURRENT: std::sync::Mutex<String> = std::sync::Mutex::new(String::new());

fn start_watchdog(limit: Duration, tag: String) {
    std::thread::spawn(move || {
        let mut last = PROGRESS.load(Ordering::SeqCst);
        let mut since = Instant::now();
        loop {
            std::thread::sleep(Duration::from_millis(200));
            let now = PROGRESS.load(Ordering::SeqCst);
            if now != last {
                last = now;
                since = Instant::now();
            } else if since.elapsed() > limit {
                println!(
                    "HANG {} no progress for {:?} at step {} while: {}",
                    tag,
                    limit,
                    now,
                    CURRENT.lock().unwrap()
                );
                println!("RESULT {} hang=1", tag);
                for p in current_child_pids() {
                    unsafe { kill(p as i32, SIGKILL) };
                }
                std::process::exit(3);
            }
        }
    });
}

fn tick(what: &str) {
    PROGRESS.fetch_add(1, Ordering::SeqCst);
    *CURRENT.lock().unwrap() = what.to_string();
}

fn child_of_mine(pid: u32) -> bool {
    let me = std::process::id();
    match std::fs::read_to_string(format!("/proc/{}/stat", pid)) {
        Ok(s) => {
            // pid (comm) state ppid ...
            if let Some(p) = s.rfind(')') {
                let rest: Vec<&str> = s[p + 1..].split_whitespace().collect();
                rest.len() > 1 && rest[1].parse::<u32>().ok() == Some(me)
            } else {
                false
            }
        }
        Err(_) => false,
    }
}

fn rchar(pid: u32) -> Option<u64> {
    let s = std::fs::read_to_string(format!("/proc/{}/io", pid)).ok()?;
    for l in s.lines() {
        if let Some(v) = l.strip_prefix("rchar: ") {
            return v.trim().parse().ok();
        }
    }
    None
}

fn current_child_pids() -> Vec<u32> {
    let me = std::process::id();
    let mut v = vec![];
    if let Ok(rd) = std::fs::read_dir(format!("/proc/{}/task", me)) {
        for t in rd.flatten() {
            if let Ok(s) = std::fs::read_to_string(t.path().join("children")) {
                for p in s.split_whitespace() {
                    if let Ok(p) = p.parse() {
                        v.push(p)
                    }
                }
            }
        }
    }
    v
}

fn check(stats: &mut Stats, tag: &str, idx: u64, req_desc: &str, id: u64, exp: &Expect, out: &Out) {
    stats.sent += 1;
    let kind = match out {
        Out::Ok(_) => "Ok",
        Out::Panic(_) => "Panic",
        Out::Timeout => "Timeout",
        Out::Crashed => "Crashed",
        Out::Other(_) => "Other",
    };
    *stats.by_kind.entry(kind.to_string()).or_insert(0) += 1;
    let mut bad: Option<String> = None;
    match out {
        Out::Ok(r) => {
            if r.id != id {
                bad = Some(format!("FOREIGN/STALE reply: reply id {} for request id {}", r.id, id));
            } else if !exp.ok && exp.timeout && !exp.crashed {
                // the op ran past the limit, yet its own reply was delivered: the time limit
                // was not enforced (parent polled late), but C18 is not broken
                stats.late_ok += 1;
                println!("LATEOK {} #{} id={} {} -> own reply delivered although the op exceeds the limit", tag, idx, id, req_desc);
            } else if !exp.ok {
                bad = Some("Ok reply where a fault was required".into());
            } else {
                if let Some(v) = exp.val {
                    if v != r.val {
                        bad = Some(format!("wrong val {} expected {}", r.val, v));
                    }
                }
                if r.data.len() != exp.data_len || r.data != payload(id ^ 0x5a5a, exp.data_len) {
                    bad = Some(format!("wrong data (len {} expected {})", r.data.len(), exp.data_len));
                }
                stats.ok += 1;
            }
        }
        Out::Panic(m) => match &exp.panic_marker {
            Some(mk) if m.contains(mk.as_str()) => {}
            Some(mk) => bad = Some(format!("panic message lacks marker {:?}", mk)),
            None => bad = Some("unexpected Panic".into()),
        },
        Out::Timeout => {
            if !exp.timeout {
                // accurate error, request did exceed the limit from the parent's view: soft
                stats.soft_timeout += 1;
                println!("SOFT {} #{} id={} {} -> Timeout (not required by op)", tag, idx, id, req_desc);
            }
        }
        Out::Crashed => {
            if !exp.crashed {
                bad = Some("unexpected Crashed".into());
            }
        }
        Out::Other(s) => {
            if s.contains("request to child") {
                stats.dead = true;
            }
            match &exp.other {
                Some(m) if s.contains(m.as_str()) => {}
                _ => bad = Some(format!("unexpected error {}", s)),
            }
        }
    }
    if let Some(b) = bad {
        stats.hard += 1;
        println!("VIOLATION {} #{} id={} {} -> {} :: {}", tag, idx, id, req_desc, short(out), b);
    } else if env::var("HUNT_VERBOSE").is_ok() {
        println!("ok {} #{} id={} {} -> {}", tag, idx, id, req_desc, short(out));
    }
}

fn desc(r: &Req) -> String {
    format!("{:?} pad={}", r.op, r.pad.len())
}

struct Args {
    scenario: String,
    kv: std::collections::HashMap<String, String>,
}
impl Args {
    fn u(&self, k: &str, d: u64) -> u64 {
        self.kv.get(k).map(|v| v.parse().unwrap()).unwrap_or(d)
    }
    fn s(&self, k: &str, d: &str) -> String {
        self.kv.get(k).cloned().unwrap_or(d.to_string())
    }
}

const SIZES: &[usize] = &[
    0, 1, 7, 100, 1000, 4000, 4050, 4090, 4096, 4100, 8192, 16384, 32768, 65400, 65480, 65500,
    65530, 65536, 65537, 65600, 70000, 131072, 131073, 262144, 524288, 1048576, 1048577,
    2 * 1048576 + 3, 3 * 1048576, 5 * 1048576,
];

async fn run_mix(a: &Args, tag: &str) -> Stats {
    let seed = a.u("seed", 1);
    let n = a.u("n", 100);
    let limit = a.u("limit", 200);
    let mem = a.u("mem", 64 << 20) as usize;
    let cats: Vec<String> = a.s("cats", "benign,panic,timeout,oom,die,ext,race").split(',').map(|s| s.to_string()).collect();
    let gap = a.s("gap", "mixed"); // none | async | block | mixed
    let maxsize = a.u("maxsize", 5 * 1048576 + 1) as usize;
    let mut rng = Rng(seed.wrapping_mul(0x1234567) ^ 0xdeadbeef);
    let sizes: Vec<usize> = SIZES.iter().cloned().filter(|s| *s <= maxsize).collect();

    let sb = Sandbox::<Hunt>::new(Cfg { timeout_ms: limit, mem_limit: mem, ..Default::default() }).await.unwrap();
    let mut stats = Stats { sent: 0, ok: 0, hard: 0, soft_timeout: 0, late_ok: 0, dead: false, by_kind: Default::default() };
    let mut next_id = seed * 1_000_000 + 1;
    let mut last_pid: u32 = 0;
    // an external kill that landed only after the reply hits an IDLE child: outside the property
    let mut tainted = false;
    // pid of a child that an earlier (already answered) request condemned to die soon
    let mut doomed: Option<u32> = None;

    for idx in 0..n {
        let id = next_id;
        next_id += 1;
        let cat = rng.pick(&cats.iter().map(|s| s.as_str()).collect::<Vec<_>>()).to_string();
        let mut exp = Expect::default();
        let mut pad = 0usize;
        let mut ext: Option<(i32, u64)> = None; // (signal, delay ms)
        let mut blow = 0usize;
        let mut dooms = false;
        let op = match cat.as_str() {
            "deser" => {
                // the frame fits into the child's memory, the deserialised value does not
                exp.crashed = true;
                blow = mem / 8 * 6 / 10;
                Op::Add(1, 1)
            }
            "delayed" => {
                // replies normally, the child dies shortly afterwards
                exp.ok = true;
                exp.crashed = true; // the background thread may win the race against the reply
                exp.val = Some(1);
                dooms = true;
                Op::DelayedDie { us: rng.pick(&[0u64, 5, 20, 50, 100, 200, 500, 1000, 3000]), how: rng.below(3) as u8 }
            }
            "bomb" => {
                exp.ok = true;
                let k = 1 + rng.below(3) as u8;
                exp.val = Some(k as i64);
                dooms = true;
                Op::Bomb(k)
            }
            "badser" => {
                use std::os::unix::ffi::OsStringExt;
                exp.other = Some("invalid UTF-8".into());
                Op::Path(std::path::PathBuf::from(std::ffi::OsString::from_vec(vec![b'/', 0xff, 0xfe])))
            }
            "stack" => {
                exp.crashed = true;
                Op::StackOverflow
            }
            "closeout" => {
                exp.crashed = true;
                Op::CloseStdout
            }
            "benign" => {
                // with a leaking (stateful) service an otherwise harmless request may be the one
                // that hits the limit: then Crashed is its accurate answer
                exp.crashed = cats.iter().any(|c| c == "leak");
                pad = if rng.below(3) == 0 { rng.pick(&sizes) } else { rng.pick(&sizes[..8.min(sizes.len())]) };
                exp.ok = true;
                match rng.below(3) {
                    0 => {
                        let (x, y) = (rng.below(1000) as i64, rng.below(1000) as i64);
                        exp.val = Some(x + y);
                        Op::Add(x, y)
                    }
                    1 => {
                        let r = rng.pick(&sizes);
                        exp.data_len = r;
                        exp.val = Some(0);
                        Op::Echo { reply: r }
                    }
                    _ => {
                        let k = (rng.below((mem / 4) as u64) as usize).max(1);
                        exp.val = Some(k as i64);
                        Op::AllocOk(k)
                    }
                }
            }
            "panic" => {
                pad = if rng.below(4) == 0 { rng.pick(&sizes) } else { 0 };
                match rng.below(6) {
                    0 => {
                        exp.panic_marker = Some("hunt literal panic".into());
                        Op::PanicLit
                    }
                    1 => {
                        exp.panic_marker = Some(format!("id={} end", id));
                        Op::PanicFmt
                    }
                    2 => {
                        // panic while holding most of the memory limit: the hook may run out
                        exp.panic_marker = Some(format!("id={} end", id));
                        exp.crashed = true;
                        let hold = mem - (rng.pick(&[0usize, 100, 1000, 5000, 20000, 100000, 400000]) % (mem / 2));
                        let hold = hold.saturating_sub(pad * 2 + 200_000).max(1);
                        Op::PanicHold(hold)
                    }
                    3 => {
                        exp.panic_marker = Some("".into());
                        Op::PanicAny
                    }
                    4 => {
                        exp.crashed = true; // panic in drop during unwind aborts
                        exp.panic_marker = Some("".into());
                        Op::DoublePanic
                    }
                    _ => {
                        exp.ok = true;
                        exp.val = Some(1);
                        Op::ThreadPanicOk
                    }
                }
            }
            "timeout" => {
                exp.timeout = true;
                pad = if rng.below(4) == 0 { rng.pick(&sizes) } else { 0 };
                let over = limit * 2 + 50 + rng.below(limit + 1);
                match rng.below(3) {
                    0 => Op::Sleep(over),
                    1 => Op::Spin(over),
                    _ => {
                        // big reply that starts arriving around the deadline: timer fires mid-frame
                        let r = rng.pick(&sizes);
                        exp.ok = true;
                        exp.data_len = r;
                        exp.val = Some(0);
                        Op::SleepReply { ms: limit.saturating_sub(rng.below(4)), reply: r }
                    }
                }
            }
            "race" => {
                // reply lands right around the deadline
                exp.timeout = true;
                exp.ok = true;
                let r = rng.pick(&sizes);
                exp.data_len = r;
                exp.val = Some(0);
                let d = rng.below(7) as i64 - 3;
                Op::SleepReply { ms: (limit as i64 + d).max(0) as u64, reply: r }
            }
            "oom" => {
                exp.crashed = true;
                pad = if rng.below(4) == 0 { rng.pick(&sizes[..20.min(sizes.len())]) } else { 0 };
                match rng.below(3) {
                    0 => Op::AllocAbort(mem + 1 + rng.below(1 << 20) as usize),
                    1 => Op::AllocAbort(mem - rng.below(1000) as usize),
                    _ => {
                        // reply data fits (just), its serialised copy does not
                        Op::AllocInReply(mem * 6 / 10)
                    }
                }
            }
            "die" => {
                exp.crashed = true;
                pad = if rng.below(4) == 0 { rng.pick(&sizes) } else { 0 };
                match rng.below(5) {
                    0 => Op::Exit(0),
                    1 => Op::Exit(1),
                    2 => Op::Abort,
                    3 => Op::KillSelf(SIGKILL),
                    _ => {
                        exp.crashed = false;
                        exp.timeout = true;
                        Op::KillSelf(SIGSTOP)
                    }
                }
            }
            "ext" => {
                // killed / stopped from outside while in flight (small request)
                let sig = if rng.below(3) == 0 { SIGSTOP } else { SIGKILL };
                let delay = rng.below((limit * 6 / 10).max(1));
                ext = Some((sig, delay));
                if sig == SIGKILL {
                    exp.crashed = true
                } else {
                    exp.timeout = true
                }
                Op::Sleep(limit * 3 + 100)
            }
            "extbig" => {
                // killed from outside while a LARGE request / reply is in flight
                let sig = SIGKILL;
                let delay = 0;
                ext = Some((sig, delay));
                exp.crashed = true;
                exp.ok = true; // the kill may land after the reply
                pad = rng.pick(&[1048576usize, 3 * 1048576, 5 * 1048576]);
                let r = rng.pick(&[0usize, 1048576, 3 * 1048576]);
                exp.data_len = r;
                exp.val = Some(0);
                Op::Echo { reply: r }
            }
            "bigreq" => {
                // request bigger than the child's memory limit
                exp.crashed = true;
                pad = mem + rng.pick(&[1usize, 4096, 65536, 1 << 20]);
                Op::Add(1, 1)
            }
            "leak" => {
                exp.ok = true;
                exp.crashed = true;
                exp.val = None;
                Op::Leak(mem / 5)
            }
            other => panic!("unknown category {}", other),
        };
        let req = Req { id, op, pad: payload(id, pad), blow: vec![Vec::new(); blow] };
        let d = format!("[{}] {} blow={}", cat, desc(&req), blow);
        if doomed.is_some() {
            // the child that serves this request was doomed by an earlier request
            exp.crashed = true;
        }
        tick(&d);

        // external killer needs the pid of the live child: ask for it first
        let mut killer = None;
        if let Some((sig, delay)) = ext {
            let pid_req = Req { id: next_id, op: Op::Add(0, 0), pad: String::new(), blow: vec![] };
            next_id += 1;
            let mut pe = Expect { ok: true, val: Some(0), ..Default::default() };
            let pd = format!("[pid-probe] {}", desc(&pid_req));
            let pid_id = pid_req.id;
            let o = classify(sb.execute(pid_req).await);
            if tainted {
                pe.crashed = true;
            }
            check(&mut stats, tag, idx, &pd, pid_id, &pe, &o);
            tainted = false;
            if stats.dead {
                println!("DEAD {} sandbox permanently dead after #{} (every execute() now fails with Send)", tag, idx);
                break;
            }
            if let Out::Ok(r) = &o {
                last_pid = r.pid;
                let pid = r.pid;
                // The killer strikes only once it has SEEN the child consume (part of) this
                // request (rchar in /proc/<pid>/io grows), so the kill is certainly in flight.
                let base = rchar(pid);
                let threshold: u64 = if cat == "extbig" { 100_000 } else { 1 };
                let wait_ms = limit.max(50);
                killer = Some(std::thread::spawn(move || {
                    let t = Instant::now();
                    loop {
                        match (base, rchar(pid)) {
                            (Some(b), Some(now)) if now >= b + threshold => break,
                            (None, _) | (_, None) => return (false, 0),
                            _ => {}
                        }
                        if t.elapsed() > Duration::from_millis(wait_ms) {
                            return (false, 0);
                        }
                        std::thread::yield_now();
                    }
                    std::thread::sleep(Duration::from_millis(delay));
                    let seen = rchar(pid).unwrap_or(0).saturating_sub(base.unwrap_or(0));
                    if child_of_mine(pid) {
                        unsafe { kill(pid as i32, sig) };
                        (true, seen)
                    } else {
                        (false, seen)
                    }
                }));
            } else {
                continue;
            }
        }

        let t0 = Instant::now();
        let o = classify(sb.execute(req).await);
        let el = t0.elapsed();
        let mut d = d;
        if tainted {
            exp.crashed = true;
            d = format!("{} {{child may have been killed while idle by the previous late external kill}}", d);
            tainted = false;
        }
        if let Some(k) = killer {
            if let Ok((struck, seen)) = k.join() {
                tainted = struck && matches!(o, Out::Ok(_));
                d = format!("{} {{external signal {} sent in flight={} after child had read {} bytes of the request}}", d, ext.unwrap().0, struck, seen);
            }
        }
        if let Out::Ok(r) = &o {
            last_pid = r.pid;
        }
        let d = if doomed.is_some() { format!("{} {{child doomed by an earlier request}}", d) } else { d };
        match &o {
            Out::Ok(r) => {
                if doomed.is_some() && doomed != Some(r.pid) {
                    doomed = None;
                }
                if dooms {
                    doomed = Some(r.pid);
                }
            }
            _ => doomed = None,
        }
        check(&mut stats, tag, idx, &d, id, &exp, &o);
        if stats.dead {
            println!("DEAD {} sandbox permanently dead after #{} (every execute() now fails with Send)", tag, idx);
            break;
        }
        // a reply must never take (much) longer than the limit plus transfer time
        if el > Duration::from_millis(limit * 3 + 3000) {
            println!("SLOW {} #{} id={} {} took {:?}", tag, idx, id, d, el);
        }
        tick("gap");

        let g = match gap.as_str() {
            "none" => 0,
            "async" => 1,
            "block" => 2,
            _ => rng.below(3),
        };
        let gms = match rng.below(5) {
            0 => 0,
            1 => rng.below(3),
            2 => rng.below(limit / 2 + 1),
            3 => limit + rng.below(limit + 1),
            _ => 0,
        }
        .min(1500);
        match g {
            1 => async_std::task::sleep(Duration::from_millis(gms)).await,
            2 => std::thread::sleep(Duration::from_millis(gms)),
            _ => {}
        }
    }
    let _ = last_pid;

    // trailing sentinels: must be served normally, by id
    let mut sentinel_ok = stats.dead;
    for k in 0..(if stats.dead { 0 } else { 5 }) {
        let id = next_id;
        next_id += 1;
        let req = Req { id, op: Op::Add(40, 2), pad: String::new(), blow: vec![] };
        tick("sentinel");
        let o = classify(sb.execute(req).await);
        match &o {
            Out::Ok(r) if r.id == id && r.val == 42 => {
                sentinel_ok = true;
                break;
            }
            Out::Timeout => {
                println!("SOFT {} sentinel {} -> Timeout", tag, k);
            }
            Out::Crashed if doomed.is_some() || tainted => {
                doomed = None;
                tainted = false;
            }
            _ => {
                stats.hard += 1;
                println!("VIOLATION {} sentinel {} id={} -> {}", tag, k, id, short(&o));
                break;
            }
        }
    }
    if !sentinel_ok {
        stats.hard += 1;
        println!("VIOLATION {} no sentinel was served", tag);
    }
    tick("terminate");
    let t = sb.terminate().await;
    if stats.dead {
        println!("INFO {} run_task ended with: {:?}", tag, t);
    }
    stats
}

// Small deterministic scenarios -------------------------------------------------

async fn exec_log(sb: &Sandbox<Hunt>, tag: &str, req: Req) -> Out {
    let d = desc(&req);
    let id = req.id;
    tick(&d);
    let t0 = Instant::now();
    let o = classify(sb.execute(req).await);
    println!("STEP {} id={} {} -> {} [{:?}]", tag, id, d, short(&o), t0.elapsed());
    o
}

fn rq(id: u64, op: Op, pad: usize) -> Req {
    Req { id, op, pad: payload(id, pad), blow: vec![] }
}

/// request larger than the child's memory limit (and larger than the pipe buffer)
async fn run_bigreq(a: &Args, tag: &str) -> u64 {
    let limit = a.u("limit", 500);
    let mem = a.u("mem", 1 << 20) as usize;
    let pad = a.u("pad", (mem + 4096) as u64) as usize;
    let sb = Sandbox::<Hunt>::new(Cfg { timeout_ms: limit, mem_limit: mem, ..Default::default() }).await.unwrap();
    let mut hard = 0;
    let o = exec_log(&sb, tag, rq(1, Op::Add(1, 2), 0)).await;
    if !matches!(o, Out::Ok(ref r) if r.id == 1 && r.val == 3) {
        hard += 1
    }
    let o = exec_log(&sb, tag, rq(2, Op::Add(1, 2), pad)).await;
    if !matches!(o, Out::Crashed | Out::Timeout) && !matches!(o, Out::Ok(ref r) if r.id==2) {
        println!("VIOLATION {} oversized request got {}", tag, short(&o));
        hard += 1
    }
    for id in 3..6 {
        let o = exec_log(&sb, tag, rq(id, Op::Add(id as i64, 2), 0)).await;
        if !matches!(o, Out::Ok(ref r) if r.id == id && r.val == id as i64 + 2) {
            println!("VIOLATION {} later request id={} not served: {}", tag, id, short(&o));
            hard += 1
        }
    }
    if hard > 0 {
        println!("INFO {} run_task ended with: {:?}", tag, sb.terminate().await);
    }
    hard
}

/// the caller abandons an execute() future (its own deadline), then goes on
async fn run_cancel(a: &Args, tag: &str) -> u64 {
    use async_std::future::timeout;
    let limit = a.u("limit", 1000);
    let sb = Sandbox::<Hunt>::new(Cfg { timeout_ms: limit, mem_limit: 64 << 20, ..Default::default() }).await.unwrap();
    let mut hard = 0;
    exec_log(&sb, tag, rq(1, Op::Add(1, 2), 0)).await;
    let r = timeout(Duration::from_millis(20), sb.execute(rq(2, Op::Sleep(100), 0))).await;
    println!("STEP {} id=2 Sleep(100) abandoned by caller after 20ms: is_err={}", tag, r.is_err());
    for id in 3..7 {
        let o = exec_log(&sb, tag, rq(id, Op::Add(id as i64, 0), 0)).await;
        match o {
            Out::Ok(ref r) if r.id == id => {}
            _ => {
                println!("VIOLATION {} request id={} got {}", tag, id, short(&o));
                hard += 1
            }
        }
    }
    hard
}

/// two execute() futures polled concurrently on the same sandbox
async fn run_concurrent(a: &Args, tag: &str) -> u64 {
    use async_std::prelude::FutureExt;
    let limit = a.u("limit", 1000);
    let sb = Sandbox::<Hunt>::new(Cfg { timeout_ms: limit, mem_limit: 64 << 20, ..Default::default() }).await.unwrap();
    let mut hard = 0;
    for round in 0..20u64 {
        let (i1, i2) = (round * 2 + 1, round * 2 + 2);
        let f1 = async { classify(sb.execute(rq(i1, Op::Sleep(round % 5), 0)).await) };
        let f2 = async { classify(sb.execute(rq(i2, Op::Add(1, 1), 0)).await) };
        let (o1, o2) = if round % 2 == 0 { f1.join(f2).await } else { let (b, a) = f2.join(f1).await; (a, b) };
        tick("concurrent");
        for (id, o) in [(i1, o1), (i2, o2)] {
            match o {
                Out::Ok(ref r) if r.id == id => {}
                _ => {
                    println!("VIOLATION {} concurrent request id={} got {}", tag, id, short(&o));
                    hard += 1
                }
            }
        }
    }
    hard
}

/// terminate() while a request is in flight
async fn run_terminate(a: &Args, tag: &str) -> u64 {
    use async_std::prelude::FutureExt;
    let limit = a.u("limit", 1000);
    let sb = Sandbox::<Hunt>::new(Cfg { timeout_ms: limit, mem_limit: 64 << 20, ..Default::default() }).await.unwrap();
    exec_log(&sb, tag, rq(1, Op::Add(1, 2), 0)).await;
    let f1 = async { classify(sb.execute(rq(2, Op::Sleep(300), 0)).await) };
    let f2 = async {
        async_std::task::sleep(Duration::from_millis(50)).await;
        sb.terminate().await
    };
    let (o, t) = f1.join(f2).await;
    println!("STEP {} in-flight request at terminate -> {} ; terminate -> {:?}", tag, short(&o), t);
    let o = classify(sb.execute(rq(3, Op::Add(1, 2), 0)).await);
    println!("STEP {} execute after terminate -> {}", tag, short(&o));
    0
}

/// panic message of an earlier request resurfacing in a later one
async fn run_resume(a: &Args, tag: &str) -> u64 {
    let limit = a.u("limit", 1000);
    let sb = Sandbox::<Hunt>::new(Cfg { timeout_ms: limit, mem_limit: 64 << 20, ..Default::default() }).await.unwrap();
    let mut hard = 0;
    exec_log(&sb, tag, rq(1, Op::ThreadPanicOk, 0)).await;
    exec_log(&sb, tag, rq(2, Op::Add(1, 2), 0)).await;
    let o = exec_log(&sb, tag, rq(3, Op::ResumeUnwind, 0)).await;
    if let Out::Panic(m) = &o {
        if m.contains("id=1 end") {
            println!("VIOLATION {} request id=3 was answered with the panic message of request id=1", tag);
            hard += 1;
        }
    }
    exec_log(&sb, tag, rq(4, Op::Add(1, 2), 0)).await;
    hard
}

/// service writes to its own stdout (misuse; outside the property)
async fn run_stdout(a: &Args, tag: &str) -> u64 {
    let limit = a.u("limit", 500);
    let what = a.s("what", "small");
    let sb = Sandbox::<Hunt>::new(Cfg { timeout_ms: limit, mem_limit: 64 << 20, ..Default::default() }).await.unwrap();
    let mut hard = 0;
    exec_log(&sb, tag, rq(1, Op::Add(1, 2), 0)).await;
    let s = match what.as_str() {
        "small" => "\u{1}\0\0\0X".to_string(), // a 1-byte frame
        _ => "debug: hello\n".to_string(),
    };
    exec_log(&sb, tag, rq(2, Op::Println(s), 0)).await;
    for id in 3..6 {
        let o = exec_log(&sb, tag, rq(id, Op::Add(id as i64, 0), 0)).await;
        match o {
            Out::Ok(ref r) if r.id == id => {}
            _ => {
                println!("NOTE {} request id={} got {}", tag, id, short(&o));
                hard += 1
            }
        }
    }
    hard
}

/// a request that kills the child later (after its own reply), and idle kills
async fn run_delayed(a: &Args, tag: &str) -> u64 {
    let limit = a.u("limit", 500);
    let idle = a.u("idle", 200);
    let sb = Sandbox::<Hunt>::new(Cfg { timeout_ms: limit, mem_limit: 64 << 20, ..Default::default() }).await.unwrap();
    let mut hard = 0;
    exec_log(&sb, tag, rq(1, Op::Add(1, 2), 0)).await;
    exec_log(&sb, tag, rq(2, Op::DelayedAbort(50), 0)).await;
    async_std::task::sleep(Duration::from_millis(idle)).await;
    for id in 3..6 {
        let o = exec_log(&sb, tag, rq(id, Op::Add(id as i64, 0), 0)).await;
        match o {
            Out::Ok(ref r) if r.id == id => {}
            _ => hard += 1,
        }
    }
    hard
}

/// a stateful service that is close to its memory limit receives a perfectly
/// ordinary request that is larger than the pipe buffer
async fn run_leakbig(a: &Args, tag: &str) -> u64 {
    let limit = a.u("limit", 500);
    let mem = a.u("mem", 8 << 20) as usize;
    let pad = a.u("pad", 1 << 20) as usize;
    let sb = Sandbox::<Hunt>::new(Cfg { timeout_ms: limit, mem_limit: mem, ..Default::default() }).await.unwrap();
    let mut hard = 0;
    exec_log(&sb, tag, rq(1, Op::Add(1, 2), pad)).await; // the same request is fine on a fresh child
    exec_log(&sb, tag, rq(2, Op::Leak(mem * 9 / 10), 0)).await;
    let o = exec_log(&sb, tag, rq(3, Op::Add(1, 2), pad)).await;
    if !matches!(o, Out::Crashed | Out::Timeout) {
        println!("VIOLATION {} request id=3 got {}", tag, short(&o));
        hard += 1
    }
    for id in 4..7 {
        let o = exec_log(&sb, tag, rq(id, Op::Add(id as i64, 0), 0)).await;
        match o {
            Out::Ok(ref r) if r.id == id => {}
            _ => {
                println!("VIOLATION {} later request id={} not served: {}", tag, id, short(&o));
                hard += 1
            }
        }
    }
    hard
}

/// A stateful service that has (legitimately) filled its memory up to a few KB below the limit
/// receives a SMALL request (fits in the pipe buffer) that no longer fits in memory: the child
/// aborts in `Frame::read_sync` (buf.resize) right after reading the 4 length bytes, racing with
/// the parent's separate write of the body.
async fn run_leaksmall(a: &Args, tag: &str) -> u64 {
    let limit = a.u("limit", 500);
    let mem = a.u("mem", 4 << 20) as usize;
    let pad = a.u("pad", 20000) as usize;
    let rounds = a.u("rounds", 200);
    let sb = Sandbox::<Hunt>::new(Cfg { timeout_ms: limit, mem_limit: mem, ..Default::default() }).await.unwrap();
    let mut hard = 0;
    let mut crashed = 0;
    let mut id = 0;
    for round in 0..rounds {
        id += 1;
        tick("leakuntil");
        let o = classify(sb.execute(rq(id, Op::LeakUntil(4096), 0)).await);
        if !matches!(o, Out::Ok(ref r) if r.id == id) {
            println!("VIOLATION {} round {} LeakUntil id={} got {}", tag, round, id, short(&o));
            hard += 1;
            break;
        }
        id += 1;
        tick("small request to full child");
        let o = classify(sb.execute(rq(id, Op::Add(1, 2), pad)).await);
        match o {
            Out::Crashed => crashed += 1,
            _ => {
                println!("VIOLATION {} round {} id={} Add pad={} to a full child got {}", tag, round, id, pad, short(&o));
                hard += 1;
            }
        }
        id += 1;
        tick("after");
        let o = classify(sb.execute(rq(id, Op::Add(1, 2), 0)).await);
        if !matches!(o, Out::Ok(ref r) if r.id == id) {
            println!("VIOLATION {} round {} next request id={} not served: {}", tag, round, id, short(&o));
            hard += 1;
            break;
        }
    }
    println!("INFO {} rounds with the expected Crashed reply: {}", tag, crashed);
    if hard > 0 {
        println!("INFO {} run_task ended with: {:?}", tag, sb.terminate().await);
    }
    hard
}

/// a request value that serde refuses to serialise (non-UTF-8 path): fails in the PARENT
async fn run_badser(a: &Args, tag: &str) -> u64 {
    use std::os::unix::ffi::OsStringExt;
    let limit = a.u("limit", 500);
    let sb = Sandbox::<Hunt>::new(Cfg { timeout_ms: limit, mem_limit: 64 << 20, ..Default::default() }).await.unwrap();
    let mut hard = 0;
    exec_log(&sb, tag, rq(1, Op::Path("/tmp/ok".into()), 0)).await;
    let bad = std::path::PathBuf::from(std::ffi::OsString::from_vec(vec![b'/', 0xff, 0xfe]));
    exec_log(&sb, tag, rq(2, Op::Path(bad), 0)).await;
    for id in 3..6 {
        let o = exec_log(&sb, tag, rq(id, Op::Add(id as i64, 0), 0)).await;
        match o {
            Out::Ok(ref r) if r.id == id => {}
            _ => {
                println!("VIOLATION {} later request id={} not served: {}", tag, id, short(&o));
                hard += 1
            }
        }
    }
    if hard > 0 {
        println!("INFO {} run_task ended with: {:?}", tag, sb.terminate().await);
    }
    hard
}

/// external SIGSTOP while a large request is being written: the time limit does not cover the write
async fn run_stopwrite(a: &Args, tag: &str) -> u64 {
    let limit = a.u("limit", 300);
    let pad = a.u("pad", 5 << 20) as usize;
    let sb = Sandbox::<Hunt>::new(Cfg { timeout_ms: limit, mem_limit: 64 << 20, ..Default::default() }).await.unwrap();
    let mut hard = 0;
    let o = exec_log(&sb, tag, rq(1, Op::Add(1, 2), 0)).await;
    let pid = if let Out::Ok(r) = o { r.pid } else { return 1 };
    let base = rchar(pid).unwrap_or(0);
    let k = std::thread::spawn(move || {
        let t = Instant::now();
        while rchar(pid).unwrap_or(0) < base + 100_000 {
            if t.elapsed() > Duration::from_secs(5) {
                return 0;
            }
            std::thread::yield_now();
        }
        if child_of_mine(pid) {
            unsafe { kill(pid as i32, SIGSTOP) };
        }
        rchar(pid).unwrap_or(0) - base
    });
    let o = exec_log(&sb, tag, rq(2, Op::Add(1, 2), pad)).await;
    println!("INFO {} SIGSTOP sent after child had read {:?} bytes", tag, k.join());
    if !matches!(o, Out::Timeout | Out::Crashed) && !matches!(o, Out::Ok(ref r) if r.id == 2) {
        hard += 1;
    }
    for id in 3..6 {
        let o = exec_log(&sb, tag, rq(id, Op::Add(id as i64, 0), 0)).await;
        match o {
            Out::Ok(ref r) if r.id == id => {}
            _ => hard += 1,
        }
    }
    hard
}

/// a reply of 4 GiB or more: the u32 frame length wraps around
async fn run_huge(a: &Args, tag: &str) -> u64 {
    let limit = a.u("limit", 60_000);
    let n = a.u("bytes", (1u64 << 32) + 100) as usize;
    let sb = Sandbox::<Hunt>::new(Cfg { timeout_ms: limit, mem_limit: 24 << 30, ..Default::default() }).await.unwrap();
    let mut hard = 0;
    exec_log(&sb, tag, rq(1, Op::Add(1, 2), 0)).await;
    exec_log(&sb, tag, rq(2, Op::Zeros(n), 0)).await;
    for id in 3..9 {
        let o = exec_log(&sb, tag, rq(id, Op::Add(id as i64, 0), 0)).await;
        match o {
            Out::Ok(ref r) if r.id == id => {}
            _ => {
                println!("VIOLATION {} later request id={} not served: {}", tag, id, short(&o));
                hard += 1
            }
        }
    }
    hard
}

async fn run_idlekill(a: &Args, tag: &str) -> u64 {
    let limit = a.u("limit", 500);
    let sb = Sandbox::<Hunt>::new(Cfg { timeout_ms: limit, mem_limit: 64 << 20, ..Default::default() }).await.unwrap();
    let mut hard = 0;
    let o = exec_log(&sb, tag, rq(1, Op::Add(1, 2), 0)).await;
    if let Out::Ok(r) = o {
        if child_of_mine(r.pid) {
            unsafe { kill(r.pid as i32, SIGKILL) };
        }
    }
    async_std::task::sleep(Duration::from_millis(100)).await;
    for id in 3..6 {
        let o = exec_log(&sb, tag, rq(id, Op::Add(id as i64, 0), 0)).await;
        match o {
            Out::Ok(ref r) if r.id == id => {}
            _ => hard += 1,
        }
    }
    hard
}


// ------------------------------------------------------------------ second hunt

const NKINDS: u64 = 24;

/// One request of fault kind `k`. Returns (request, expectation, dooms the child after an Ok reply).
fn fault(k: u64, id: u64, limit: u64, mem: usize) -> (Req, Expect, bool) {
    use std::os::unix::ffi::OsStringExt;
    let mut e = Expect::default();
    let mut pad = 0usize;
    let mut blow = 0usize;
    let mut dooms = false;
    let op = match k {
        0 => {
            e.panic_marker = Some("hunt literal panic".into());
            Op::PanicLit
        }
        1 => {
            pad = 70000;
            e.panic_marker = Some(format!("id={} end", id));
            Op::PanicFmt
        }
        2 => {
            e.panic_marker = Some(format!("id={} end", id));
            e.crashed = true;
            Op::PanicHold(mem.saturating_sub(3000).max(1))
        }
        3 => {
            e.panic_marker = Some("".into());
            Op::PanicAny
        }
        4 => {
            e.crashed = true;
            e.panic_marker = Some("".into());
            Op::DoublePanic
        }
        5 => {
            e.timeout = true;
            Op::Sleep(limit * 3 + 50)
        }
        6 => {
            e.timeout = true;
            pad = 200_000;
            Op::Spin(limit * 3 + 50)
        }
        7 => {
            e.timeout = true;
            e.ok = true;
            e.val = Some(0);
            e.data_len = (mem / 4).min(3 << 20);
            Op::SleepReply { ms: limit.saturating_sub(1), reply: e.data_len }
        }
        8 => {
            e.crashed = true;
            Op::AllocAbort(mem + 1)
        }
        9 => {
            e.crashed = true;
            Op::AllocInReply(mem * 6 / 10)
        }
        10 => {
            e.crashed = true;
            Op::Exit(0)
        }
        11 => {
            e.crashed = true;
            pad = 100_000;
            Op::Exit(1)
        }
        12 => {
            e.crashed = true;
            Op::Abort
        }
        13 => {
            e.crashed = true;
            Op::KillSelf(SIGKILL)
        }
        14 => {
            e.timeout = true;
            Op::KillSelf(SIGSTOP)
        }
        15 => {
            // request larger than the child's whole limit
            e.crashed = true;
            pad = mem + 4096;
            Op::Add(1, 1)
        }
        16 => {
            // frame fits, the deserialised value does not
            e.crashed = true;
            blow = mem / 8 * 6 / 10;
            Op::Add(1, 1)
        }
        17 => {
            e.ok = true;
            e.crashed = true; // the background thread may win the race against the reply
            e.val = Some(1);
            dooms = true;
            Op::DelayedDie { us: (id % 7) * 40, how: (id % 3) as u8 }
        }
        18 => {
            e.ok = true;
            e.val = Some(0);
            pad = (mem / 4).min(1 << 20);
            e.data_len = (mem / 4).min(1 << 20);
            Op::Echo { reply: e.data_len }
        }
        19 => {
            e.ok = true;
            let b = 1 + (id % 3) as u8;
            e.val = Some(b as i64);
            dooms = true;
            Op::Bomb(b)
        }
        20 => {
            e.other = Some("invalid UTF-8".into());
            Op::Path(std::path::PathBuf::from(std::ffi::OsString::from_vec(vec![b'/', 0xff, 0xfe])))
        }
        21 => {
            e.crashed = true;
            Op::StackOverflow
        }
        22 => {
            e.crashed = true;
            Op::CloseStdout
        }
        _ => {
            // request whose frame is a little below the limit: dies while deserialising the pad
            e.crashed = true;
            pad = mem * 6 / 10;
            Op::Add(1, 1)
        }
    };
    (Req { id, op, pad: payload(id, pad), blow: vec![Vec::new(); blow] }, e, dooms)
}

struct Seq<'a> {
    sb: &'a Sandbox<Hunt>,
    tag: String,
    stats: Stats,
    next_id: u64,
    idx: u64,
    doomed: Option<u32>,
    limit: u64,
}

impl<'a> Seq<'a> {
    fn new(sb: &'a Sandbox<Hunt>, tag: &str, limit: u64, base: u64) -> Self {
        Seq {
            sb,
            tag: tag.to_string(),
            stats: Stats { sent: 0, ok: 0, hard: 0, soft_timeout: 0, late_ok: 0, dead: false, by_kind: Default::default() },
            next_id: base,
            idx: 0,
            doomed: None,
            limit,
        }
    }
    fn id(&mut self) -> u64 {
        self.next_id += 1;
        self.next_id
    }
    async fn send(&mut self, what: &str, req: Req, mut exp: Expect, dooms: bool) -> Out {
        let id = req.id;
        let mut d = format!("[{}] {} blow={}", what, desc(&req), req.blow.len());
        if self.doomed.is_some() {
            exp.crashed = true;
            d = format!("{} {{child doomed by an earlier request}}", d);
        }
        tick(&d);
        let t0 = Instant::now();
        let o = classify(self.sb.execute(req).await);
        let el = t0.elapsed();
        match &o {
            Out::Ok(r) => {
                if self.doomed.is_some() && self.doomed != Some(r.pid) {
                    self.doomed = None;
                }
                if dooms {
                    self.doomed = Some(r.pid);
                }
            }
            _ => self.doomed = None,
        }
        check(&mut self.stats, &self.tag, self.idx, &d, id, &exp, &o);
        if el > Duration::from_millis(self.limit * 3 + 3000) {
            println!("SLOW {} #{} id={} {} took {:?}", self.tag, self.idx, id, d, el);
        }
        self.idx += 1;
        o
    }
    async fn fault(&mut self, k: u64, mem: usize) -> Out {
        let id = self.id();
        let (r, e, dooms) = fault(k, id, self.limit, mem);
        self.send(&format!("k{}", k), r, e, dooms).await
    }
    /// a trivial request that has to be served normally (a child doomed earlier may still take it down once)
    async fn sentinel(&mut self) -> bool {
        for _try in 0..4 {
            let id = self.id();
            let e = Expect { ok: true, val: Some(42), ..Default::default() };
            let was_doomed = self.doomed.is_some();
            let o = self.send("sentinel", rq(id, Op::Add(40, 2), 0), e, false).await;
            match o {
                Out::Ok(_) => return true,
                Out::Timeout => continue, // SOFT, try again
                Out::Crashed if was_doomed => continue,
                _ => return false,
            }
        }
        self.stats.hard += 1;
        println!("VIOLATION {} no sentinel served after 4 tries", self.tag);
        false
    }
    fn finish(&self) -> u64 {
        println!(
            "RESULT {} sent={} ok={} hard={} soft_timeout={} late_ok={} dead={} kinds={:?} hang=0",
            self.tag, self.stats.sent, self.stats.ok, self.stats.hard, self.stats.soft_timeout, self.stats.late_ok, self.stats.dead as u8, self.stats.by_kind
        );
        self.stats.hard
    }
}

fn cfg_from(a: &Args, limit: u64, mem: usize) -> Cfg {
    Cfg { timeout_ms: limit, mem_limit: mem, create_ms: a.u("create_ms", 0), ballast: payload(7, a.u("ballast", 0) as usize) }
}

/// the very first request is the fault, sent before the first handshake can have completed
async fn run_first(a: &Args, tag: &str) -> u64 {
    let limit = a.u("limit", 100);
    let mem = a.u("mem", 4 << 20) as usize;
    let k = a.u("kind", 0);
    let sb = Sandbox::<Hunt>::new(cfg_from(a, limit, mem)).await.unwrap();
    let mut q = Seq::new(&sb, tag, limit, k * 1000);
    q.fault(k, mem).await;
    q.fault((k + 7) % NKINDS, mem).await;
    q.sentinel().await;
    q.sentinel().await;
    q.finish()
}

/// every ordered pair of fault kinds back to back, then sentinels, all on one sandbox
async fn run_pairs(a: &Args, tag: &str) -> u64 {
    let limit = a.u("limit", 100);
    let mem = a.u("mem", 4 << 20) as usize;
    let rounds = a.u("rounds", 1);
    let only = a.kv.get("k1").map(|v| v.parse::<u64>().unwrap());
    let sb = Sandbox::<Hunt>::new(cfg_from(a, limit, mem)).await.unwrap();
    let mut q = Seq::new(&sb, tag, limit, 5_000_000);
    'outer: for _ in 0..rounds {
        for k1 in 0..NKINDS {
            if only.is_some() && only != Some(k1) {
                continue;
            }
            for k2 in 0..NKINDS {
                q.fault(k1, mem).await;
                q.fault(k2, mem).await;
                if !q.sentinel().await || q.stats.dead {
                    break 'outer;
                }
            }
        }
    }
    q.finish()
}

/// payload sizes around the pipe-buffer boundaries against a child whose memory limit is `mem`
async fn run_sweep(a: &Args, tag: &str) -> u64 {
    let limit = a.u("limit", 2000);
    let mem = a.u("mem", 100_000) as usize;
    let opk = a.s("op", "add");
    let sb = Sandbox::<Hunt>::new(cfg_from(a, limit, mem)).await.unwrap();
    let mut q = Seq::new(&sb, tag, limit, mem as u64 * 1000);
    // is the limit large enough for the child to serve anything at all?
    let id = q.id();
    let probe = classify(sb.execute(rq(id, Op::Add(40, 2), 0)).await);
    let viable = matches!(probe, Out::Ok(ref r) if r.id == id);
    if !viable {
        println!("NOTE {} trivial request on a fresh child -> {}", tag, short(&probe));
        if let Out::Other(_) = probe {
            println!("SKIP {} limit too small for the handshake", tag);
            println!("RESULT {} skipped hard=0 hang=0", tag);
            return 0;
        }
    }
    let mut pads: Vec<usize> = vec![0, 1, 100, 1000, 2000];
    for c in [4096usize, 8192, 16384, 32768, 65536, 131072] {
        for d in [-80i64, -64, -48, -45, -44, -41, -40, -37, -36, -33, -32, -29, -28, -24, -16, -8, -5, -4, -1, 0, 1, 4, 8, 64] {
            pads.push((c as i64 + d) as usize);
        }
    }
    pads.push(mem.saturating_sub(5000));
    pads.push(mem.saturating_sub(100));
    pads.push(mem);
    pads.push(mem + 100);
    pads.push(mem / 2);
    pads.push(mem / 2 - 60);
    pads.push(mem / 3);
    for pad in pads {
        let id = q.id();
        let mut e = Expect { ok: true, crashed: true, ..Default::default() };
        let op = match opk.as_str() {
            "add" => {
                e.val = Some(3);
                Op::Add(1, 2)
            }
            "echo" => {
                e.val = Some(0);
                e.data_len = pad;
                Op::Echo { reply: pad }
            }
            _ => {
                e.ok = false;
                e.panic_marker = Some(format!("id={} end", id));
                Op::PanicFmt
            }
        };
        q.send(&opk, rq(id, op, pad), e, false).await;
        if q.stats.dead {
            break;
        }
        // the next request must be served normally (if the limit allows any service at all)
        let id = q.id();
        let e = Expect { ok: true, val: Some(42), crashed: !viable, ..Default::default() };
        q.send("after", rq(id, Op::Add(40, 2), 0), e, false).await;
        if q.stats.dead {
            break;
        }
    }
    q.finish()
}

/// very short time limits with large payloads and replies
async fn run_tiny(a: &Args, tag: &str) -> u64 {
    let limit = a.u("limit", 2);
    let mem = a.u("mem", 64 << 20) as usize;
    let n = a.u("n", 300);
    let seed = a.u("seed", 1);
    let mut rng = Rng(seed.wrapping_mul(0x9876543) ^ 0xfeedface);
    let sb = Sandbox::<Hunt>::new(cfg_from(a, limit, mem)).await.unwrap();
    let mut q = Seq::new(&sb, tag, limit, seed * 1_000_000);
    let big = [0usize, 1000, 65536, 65537, 200_000, 1 << 20, 3 << 20, 8 << 20];
    for _ in 0..n {
        let id = q.id();
        let pad = rng.pick(&big);
        let mut e = Expect { timeout: true, ..Default::default() };
        let op = match rng.below(8) {
            0 => {
                e.ok = true;
                e.val = Some(5);
                Op::Add(2, 3)
            }
            1 | 2 => {
                e.ok = true;
                e.val = Some(0);
                e.data_len = rng.pick(&big);
                Op::Echo { reply: e.data_len }
            }
            3 => {
                e.ok = true;
                e.val = Some(0);
                e.data_len = rng.pick(&big);
                Op::SleepReply { ms: rng.below(limit + 2), reply: e.data_len }
            }
            4 => {
                e.panic_marker = Some(format!("id={} end", id));
                Op::PanicFmt
            }
            5 => {
                e.crashed = true;
                Op::Exit(0)
            }
            6 => {
                e.crashed = true;
                Op::AllocAbort(mem + 1)
            }
            _ => Op::Sleep(limit * 2 + 5),
        };
        if 2 * pad + 2 * e.data_len + 65536 > mem {
            e.crashed = true; // frame + deserialised copy (+ reply and its serialised copy) exceed the limit
        }
        q.send("tiny", rq(id, op, pad), e, false).await;
        if q.stats.dead {
            break;
        }
        if rng.below(4) == 0 {
            async_std::task::sleep(Duration::from_millis(rng.below(4))).await;
        }
    }
    // with a limit of a millisecond or two a trivial request may well time out: only foreign
    // replies and dead sandboxes count here, plus: some sentinel has to get through eventually
    if limit > 0 && !q.stats.dead {
        let mut served = false;
        for _ in 0..200 {
            let id = q.id();
            let e = Expect { ok: true, timeout: true, val: Some(42), ..Default::default() };
            if let Out::Ok(_) = q.send("sentinel", rq(id, Op::Add(40, 2), 0), e, false).await {
                served = true;
                break;
            }
        }
        if !served {
            println!("NOTE {} no sentinel got through in 200 tries (limit {} ms)", tag, limit);
        }
    }
    q.finish()
}

/// start-up slower than the time limit (create_ms > limit)
async fn run_slowcreate(a: &Args, tag: &str) -> u64 {
    let limit = a.u("limit", 50);
    let mem = a.u("mem", 4 << 20) as usize;
    let mut cfg = cfg_from(a, limit, mem);
    if cfg.create_ms == 0 {
        cfg.create_ms = 300;
    }
    let sb = Sandbox::<Hunt>::new(cfg).await.unwrap();
    let mut q = Seq::new(&sb, tag, limit, 9_000_000);
    for k in 0..NKINDS {
        q.fault(k, mem).await;
        if !q.sentinel().await || q.stats.dead {
            break;
        }
    }
    q.finish()
}

/// SIGINT (the sandbox's own interrupt feature)
async fn run_sigint(a: &Args, tag: &str) -> u64 {
    let limit = a.u("limit", 500);
    let sb = Sandbox::<Hunt>::new(Cfg { timeout_ms: limit, mem_limit: 64 << 20, ..Default::default() }).await.unwrap();
    let mut hard = 0;
    exec_log(&sb, tag, rq(1, Op::Add(1, 2), 0)).await;
    // (a) interrupt arrives while NO request is in flight
    unsafe { kill(std::process::id() as i32, SIGINT) };
    async_std::task::sleep(Duration::from_millis(50)).await;
    let o = exec_log(&sb, tag, rq(2, Op::Add(2, 2), 0)).await;
    if !matches!(o, Out::Ok(ref r) if r.id == 2) {
        println!("NOTE {} request id=2, sent 50 ms AFTER an interrupt that hit an idle sandbox, got {}", tag, short(&o));
        hard += 1;
    }
    exec_log(&sb, tag, rq(3, Op::Add(3, 2), 0)).await;
    // (b) the request itself interrupts the parent and then returns normally
    exec_log(&sb, tag, rq(4, Op::IntParent, 0)).await;
    let o = exec_log(&sb, tag, rq(5, Op::Add(5, 2), 0)).await;
    if !matches!(o, Out::Ok(ref r) if r.id == 5) {
        println!("NOTE {} request id=5 after an interrupted one got {}", tag, short(&o));
        hard += 1;
    }
    exec_log(&sb, tag, rq(6, Op::Add(6, 2), 0)).await;
    hard
}

/// a request that freezes the child AFTER its own reply; the next, large request is then written
/// to a child that never reads (the time limit does not cover the write)
async fn run_stoplater(a: &Args, tag: &str) -> u64 {
    let limit = a.u("limit", 300);
    let pad = a.u("pad", 1 << 20) as usize;
    let sb = Sandbox::<Hunt>::new(Cfg { timeout_ms: limit, mem_limit: 64 << 20, ..Default::default() }).await.unwrap();
    let mut hard = 0;
    exec_log(&sb, tag, rq(1, Op::Add(1, 2), 0)).await;
    exec_log(&sb, tag, rq(2, Op::DelayedDie { us: 20_000, how: 3 }, 0)).await;
    async_std::task::sleep(Duration::from_millis(100)).await;
    let o = exec_log(&sb, tag, rq(3, Op::Add(1, 2), pad)).await;
    if !matches!(o, Out::Timeout | Out::Crashed) {
        hard += 1;
    }
    for id in 4..7 {
        let o = exec_log(&sb, tag, rq(id, Op::Add(id as i64, 0), 0)).await;
        if !matches!(o, Out::Ok(ref r) if r.id == id) {
            hard += 1;
        }
    }
    hard
}

/// k execute() futures in flight at once on one sandbox, polled in a random order on every wake-up
async fn run_conc(a: &Args, tag: &str) -> u64 {
    use std::future::Future;
    use std::pin::Pin;
    use std::task::{Context, Poll};
    let limit = a.u("limit", 1000);
    let k = a.u("k", 3);
    let rounds = a.u("rounds", 200);
    let order = a.s("order", "random"); // random | fixed
    let seed = a.u("seed", 1);
    let sb = Sandbox::<Hunt>::new(Cfg { timeout_ms: limit, mem_limit: 64 << 20, ..Default::default() }).await.unwrap();
    struct RandJoin<'f> {
        futs: Vec<Option<Pin<Box<dyn Future<Output = Out> + 'f>>>>,
        outs: Vec<Option<Out>>,
        rng: Rng,
        random: bool,
    }
    impl<'f> Future for RandJoin<'f> {
        type Output = Vec<Out>;
        fn poll(mut self: Pin<&mut Self>, cx: &mut Context<'_>) -> Poll<Vec<Out>> {
            let n = self.futs.len();
            let mut idxs: Vec<usize> = (0..n).collect();
            if self.random {
                for i in (1..n).rev() {
                    let j = self.rng.below(i as u64 + 1) as usize;
                    idxs.swap(i, j);
                }
            }
            for i in idxs {
                if let Some(f) = self.futs[i].as_mut() {
                    if let Poll::Ready(o) = f.as_mut().poll(cx) {
                        self.outs[i] = Some(o);
                        self.futs[i] = None;
                    }
                }
            }
            if self.outs.iter().all(|o| o.is_some()) {
                Poll::Ready(self.outs.iter_mut().map(|o| o.take().unwrap()).collect())
            } else {
                Poll::Pending
            }
        }
    }
    let mut hard = 0;
    let mut id = 0u64;
    for round in 0..rounds {
        let mut futs: Vec<Option<Pin<Box<dyn Future<Output = Out> + '_>>>> = vec![];
        let mut ids = vec![];
        for j in 0..k {
            id += 1;
            ids.push(id);
            let sbr = &sb;
            let req = rq(id, if j % 2 == 0 { Op::Add(1, 1) } else { Op::Sleep(round % 3) }, 0);
            futs.push(Some(Box::pin(async move { classify(sbr.execute(req).await) })));
        }
        let n = futs.len();
        let outs = RandJoin { futs, outs: (0..n).map(|_| None).collect(), rng: Rng(seed * 7919 + round), random: order == "random" }.await;
        tick("conc");
        for (i, o) in ids.iter().zip(outs.iter()) {
            match o {
                Out::Ok(r) if r.id == *i => {}
                _ => {
                    println!("VIOLATION {} round {} concurrent request id={} got {}", tag, round, i, short(o));
                    hard += 1;
                }
            }
        }
        if hard > 0 {
            break;
        }
    }
    hard
}

/// many restarts on one sandbox: resources (fds, zombies) must not pile up until spawn fails
async fn run_churn(a: &Args, tag: &str) -> u64 {
    let limit = a.u("limit", 1000);
    let n = a.u("n", 30000);
    let sb = Sandbox::<Hunt>::new(Cfg { timeout_ms: limit, mem_limit: 4 << 20, ..Default::default() }).await.unwrap();
    let mut q = Seq::new(&sb, tag, limit, 0);
    let count = |p: &str| std::fs::read_dir(p).map(|d| d.count()).unwrap_or(0);
    for i in 0..n {
        let k = [10u64, 12, 13, 0, 15, 8][(i % 6) as usize];
        q.fault(k, 4 << 20).await;
        if i % 3 == 0 && !q.sentinel().await {
            break;
        }
        if q.stats.dead {
            break;
        }
        if i % 2000 == 0 {
            println!("INFO {} after {} restarts: fds={} threads={} children={}", tag, i, count("/proc/self/fd"), count("/proc/self/task"), current_child_pids().len());
        }
    }
    println!("INFO {} end: fds={} threads={} children={}", tag, count("/proc/self/fd"), count("/proc/self/task"), current_child_pids().len());
    q.finish()
}

/// Ctrl+C as a terminal delivers it: SIGINT to the whole process group (driver AND child), twice
async fn run_sigintgrp(a: &Args, tag: &str) -> u64 {
    extern "C" {
        fn setsid() -> i32;
    }
    let limit = a.u("limit", 1000);
    let gap_us = a.u("gap_us", 1000);
    let rounds = a.u("rounds", 20);
    let r = unsafe { setsid() };
    println!("INFO {} setsid -> {}", tag, r);
    if r < 0 {
        return 0;
    }
    let sb = Sandbox::<Hunt>::new(Cfg { timeout_ms: limit, mem_limit: 64 << 20, ..Default::default() }).await.unwrap();
    let mut hard = 0;
    let mut id = 0;
    for round in 0..rounds {
        id += 1;
        let k = std::thread::spawn(move || {
            std::thread::sleep(Duration::from_millis(30));
            unsafe { kill(0, SIGINT) };
            let t = Instant::now();
            while t.elapsed() < Duration::from_micros(gap_us) {
                std::hint::spin_loop();
            }
            unsafe { kill(0, SIGINT) };
        });
        let o = exec_log(&sb, tag, rq(id, Op::Sleep(200), 0)).await;
        let _ = k.join();
        if !matches!(o, Out::Crashed | Out::Other(_)) {
            println!("NOTE {} round {} interrupted request got {}", tag, round, short(&o));
        }
        async_std::task::sleep(Duration::from_millis(50)).await;
        for _ in 0..3 {
            id += 1;
            let o = exec_log(&sb, tag, rq(id, Op::Add(id as i64, 0), 0)).await;
            match o {
                Out::Ok(ref r) if r.id == id => {}
                Out::Other(ref s) if s.contains("Interrupted") => {
                    println!("NOTE {} round {} request id={} sent >=50 ms after the last interrupt got {}", tag, round, id, short(&o));
                }
                _ => {
                    println!("NOTE {} round {} later request id={} not served: {}", tag, round, id, short(&o));
                    hard += 1;
                }
            }
        }
        if hard > 0 {
            println!("INFO {} run_task ended with: {:?}", tag, sb.terminate().await);
            break;
        }
    }
    hard
}

fn main() {
    let argv: Vec<String> = env::args().collect();
    if argv.len() > 1 && argv[1] == "--child" {
        IS_CHILD.store(true, Ordering::SeqCst);
        rink_sandbox::become_child::<Hunt, _>(&GLOBAL);
    }
    let scenario = argv.get(1).cloned().unwrap_or("mix".into());
    let mut kv = std::collections::HashMap::new();
    for a in argv.iter().skip(2) {
        if let Some((k, v)) = a.split_once('=') {
            kv.insert(k.to_string(), v.to_string());
        }
    }
    let a = Args { scenario, kv };
    let tag = format!(
        "{}:{}",
        a.scenario,
        argv.iter().skip(2).cloned().collect::<Vec<_>>().join(",")
    );
    let limit = a.u("limit", 200);
    start_watchdog(Duration::from_millis(limit * 6 + 20_000), tag.clone());
    let _keep = Arc::new(());
    let t0 = Instant::now();
    let hard = async_std::task::block_on(async {
        match a.scenario.as_str() {
            "mix" => {
                let s = run_mix(&a, &tag).await;
                println!(
                    "RESULT {} sent={} ok={} hard={} soft_timeout={} late_ok={} dead={} kinds={:?} hang=0 secs={:.1}",
                    tag,
                    s.sent,
                    s.ok,
                    s.hard,
                    s.soft_timeout,
                    s.late_ok,
                    s.dead as u8,
                    s.by_kind,
                    t0.elapsed().as_secs_f64()
                );
                s.hard
            }
            "bigreq" => run_bigreq(&a, &tag).await,
            "cancel" => run_cancel(&a, &tag).await,
            "concurrent" => run_concurrent(&a, &tag).await,
            "terminate" => run_terminate(&a, &tag).await,
            "resume" => run_resume(&a, &tag).await,
            "stdout" => run_stdout(&a, &tag).await,
            "delayed" => run_delayed(&a, &tag).await,
            "idlekill" => run_idlekill(&a, &tag).await,
            "leakbig" => run_leakbig(&a, &tag).await,
            "huge" => run_huge(&a, &tag).await,
            "badser" => run_badser(&a, &tag).await,
            "stopwrite" => run_stopwrite(&a, &tag).await,
            "leaksmall" => run_leaksmall(&a, &tag).await,
            "first" => run_first(&a, &tag).await,
            "pairs" => run_pairs(&a, &tag).await,
            "sweep" => run_sweep(&a, &tag).await,
            "tiny" => run_tiny(&a, &tag).await,
            "slowcreate" => run_slowcreate(&a, &tag).await,
            "sigint" => run_sigint(&a, &tag).await,
            "stoplater" => run_stoplater(&a, &tag).await,
            "conc" => run_conc(&a, &tag).await,
            "churn" => run_churn(&a, &tag).await,
            "sigintgrp" => run_sigintgrp(&a, &tag).await,
            other => panic!("unknown scenario {}", other),
        }
    });
    if a.scenario != "mix" {
        println!("RESULT {} hard={} hang=0", tag, hard);
    }
    // leave no children behind
    for p in current_child_pids() {
        unsafe { kill(p as i32, SIGKILL) };
    }
    std::process::exit(if hard > 0 { 1 } else { 0 });
}
