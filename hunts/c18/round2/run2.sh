#!/bin/bash
# Second C18 hunt: campaigns over the new scenarios (driver: hunt.rs, built by ./run.sh build).
#   ./run2.sh first|pairs|sweep|fine|tiny|long [P]     P = driver processes at once (default 32)
set -u
WT=/tmp/hunt2wt-c18
OUT=/tmp/hunt2out-c18
export RUST_BACKTRACE=0
H=$WT/target/release/examples/hunt
P=${2:-32}
camp=${1:-}
L=$OUT/logs-$camp
rm -rf $L; mkdir -p $L
JOBS=$L/jobs.txt; : > $JOBS
case "$camp" in
first)
  for rep in 1 2 3; do for k in $(seq 0 23); do
    for cfg in "limit=100 mem=4194304" "limit=30 mem=1048576 create_ms=120" "limit=100 mem=8388608 ballast=300000" "limit=5 mem=4194304" "limit=100 mem=4194304 create_ms=40 rep=$rep"; do
      echo "first kind=$k $cfg rep=$rep" >> $JOBS
    done; done; done ;;
pairs)
  for rep in 1 2; do for k1 in $(seq 0 23); do
    echo "pairs k1=$k1 limit=60 mem=4194304 rep=$rep" >> $JOBS
    echo "pairs k1=$k1 limit=20 mem=1048576 rep=$rep" >> $JOBS
    echo "pairs k1=$k1 limit=150 mem=2097152 create_ms=30 rep=$rep" >> $JOBS
  done; done ;;
sweep)
  # child memory limits from "cannot even start" up to well above the largest frame, fine steps
  for op in add echo panic; do
    for mem in $(seq 6000 500 30000) $(seq 30000 1024 150000) $(seq 65000 48 67000) $(seq 131000 96 133000) $(seq 12000 40 14000) 200000 270000 300000 400000 1000000; do
      echo "sweep mem=$mem op=$op" >> $JOBS
    done
  done ;;
fine)
  # the narrow zone between "handshake fails" and "a trivial request is served"
  for op in add echo panic; do for mem in $(seq 10400 4 11200); do
    echo "sweep mem=$mem op=$op" >> $JOBS
  done; done ;;
tiny)
  for seed in $(seq 1 12); do for limit in 0 1 2 3 5 8; do
    echo "tiny limit=$limit seed=$seed n=250" >> $JOBS
    echo "tiny limit=$limit seed=$((seed+100)) n=250 mem=2097152" >> $JOBS
  done; done ;;
long)
  RQ="benign,benign,panic,timeout,oom,die,race,bigreq,deser,delayed,bomb,badser,stack,closeout"
  for seed in $(seq 1 8); do for limit in 10 25 60 150; do
    echo "mix seed=$((seed*1000+1)) n=1500 limit=$limit mem=4194304 maxsize=1048577 gap=none cats=$RQ" >> $JOBS
    echo "mix seed=$((seed*1000+2)) n=1200 limit=$limit cats=$RQ" >> $JOBS
  done; done ;;
*) echo "usage: $0 first|pairs|sweep|tiny|long [P]"; exit 1;;
esac
echo "$(wc -l < $JOBS) driver runs, $P at a time"
cat $JOBS | xargs -P $P -I{} bash -c 'f=$(echo "{}" | tr " =," "___" | cut -c1-120); timeout 3000 '$H' {} > '$L'/$f.log 2> '$L'/$f.err; echo "exit=$?" >> '$L'/$f.log'
pkill -9 -f "hunt2wt-c18/target/release/examples/[h]unt --child" 2>/dev/null
echo "--- summary $camp"
echo "results:         $(cat $L/*.log | grep -c '^RESULT')"
echo "hard violations: $(cat $L/*.log | grep -c '^VIOLATION')"
echo "hangs:           $(cat $L/*.log | grep -c '^HANG')"
echo "soft timeouts:   $(cat $L/*.log | grep -c '^SOFT')"
echo "slow:            $(cat $L/*.log | grep -c '^SLOW')"
echo "late ok:         $(cat $L/*.log | grep -c '^LATEOK')"
echo "dead sandboxes:  $(cat $L/*.log | grep -c '^DEAD')"
echo "skipped:         $(cat $L/*.log | grep -c '^SKIP')"
echo "requests sent:   $(cat $L/*.log | grep '^RESULT' | grep -o ' sent=[0-9]*' | cut -d= -f2 | paste -sd+ | bc)"
grep -h '^exit=' $L/*.log | sort | uniq -c
