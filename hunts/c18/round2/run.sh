#!/bin/bash
# C18 hunt: build the driver against the UNMODIFIED sandbox crate and run it.
#   ./run.sh build            copy hunt.rs into the worktree's sandbox/examples and build (release)
#   ./run.sh repro            the deterministic reproductions (findings + surprising-but-out-of-scope)
#   ./run.sh stress [P] [S]   randomized campaign, P driver processes at once (default 32), S seeds per cell (default 6)
#   ./run.sh leaksmall        frequency of finding 1b (64 processes x 50 rounds, alone and 32 at a time)
#   ./run.sh huge             finding 4 (4 GiB reply; needs ~10 GB RAM and ~4 minutes)
#   ./run.sh clean            remove the example from the worktree again
set -u
WT=${WT:-/tmp/hunt2wt-c18}
OUT=${OUT:-/tmp/hunt2out-c18}
export CARGO_TARGET_DIR=$WT/target CARGO_NET_OFFLINE=true RUST_BACKTRACE=0
H=$CARGO_TARGET_DIR/release/examples/hunt

case "${1:-}" in
build)
  cp $OUT/hunt.rs $WT/sandbox/examples/hunt.rs
  (cd $WT && cargo build --offline --release -p rink-sandbox --example hunt 2>&1 | tail -2)
  ;;
clean)
  rm -f $WT/sandbox/examples/hunt.rs
  (cd $WT && git status --short)
  ;;
repro)
  for s in "bigreq" "bigreq mem=20971520 pad=20975616 limit=10000" "bigreq mem=1048576 pad=60000" \
           "leakbig" "leaksmall rounds=200" "badser" \
           "cancel" "resume" "concurrent" "terminate" "stdout what=small" "stdout what=text limit=300" \
           "delayed idle=200" "delayed idle=0" "idlekill" "stopwrite"; do
    echo "=== hunt $s"
    timeout 120 $H $s 2>&1 | cut -c1-330
  done
  ;;
leaksmall)
  for pad in 20000 60000; do for P in 1 32; do
    seq 1 64 | xargs -P $P -I{} bash -c "timeout 300 $H leaksmall rounds=50 pad=$pad tag={} 2>/dev/null | grep -E '^INFO.*reply|^RESULT' | tr '\n' ' '; echo" > $OUT/leaksmall.txt
    tot=$(grep -o 'reply: [0-9]*' $OUT/leaksmall.txt | awk '{s+=$2} END{print s}'); dead=$(grep -c 'hard=2' $OUT/leaksmall.txt)
    echo "pad=$pad, $P at a time: 64 processes; rounds answered Crashed (correct): $tot; processes whose sandbox ended permanently dead: $dead"
  done; done
  ;;
huge)
  timeout 900 $H huge limit=120000 2>&1 | cut -c1-300
  ;;
stress)
  P=${2:-32}; S=${3:-6}
  rm -rf $OUT/logs; mkdir -p $OUT/logs
  JOBS=$OUT/logs/jobs.txt; : > $JOBS
  RQ="benign,panic,timeout,oom,die,race"      # faults caused by the requests themselves
  for seed in $(seq 1 $S); do
    for limit in 10 25 50 100 250 500 1000 2000; do
      n=120; [ $limit -ge 500 ] && n=60; [ $limit -ge 2000 ] && n=40
      # A: 64 MB child limit, payloads up to 5 MB both ways, mixed gaps
      echo "mix seed=$((seed*100+1)) n=$n limit=$limit cats=$RQ" >> $JOBS
      # B: small child limit (4 MB), payloads up to 1 MB: memory pressure in frame / reply / panic hook
      echo "mix seed=$((seed*100+2)) n=$n limit=$limit mem=4194304 maxsize=1048577 cats=$RQ" >> $JOBS
      # C: no gaps at all, every fault immediately followed by the next request
      echo "mix seed=$((seed*100+3)) n=$n limit=$limit gap=none cats=benign,panic,die,oom,benign" >> $JOBS
      # D: external SIGKILL/SIGSTOP while a (small) request is certainly in flight
      echo "mix seed=$((seed*100+4)) n=40 limit=$limit cats=benign,ext,ext" >> $JOBS
      # E: external SIGKILL while a big request is being transmitted
      echo "mix seed=$((seed*100+5)) n=30 limit=$limit cats=benign,extbig" >> $JOBS
      # F: stateful service leaking up to its limit (requests <= 64 KiB + 64 B)
      echo "mix seed=$((seed*100+6)) n=40 limit=$limit mem=8388608 maxsize=65600 cats=benign,leak,leak" >> $JOBS
    done
  done
  echo "$(wc -l < $JOBS) driver runs, $P at a time"
  i=0
  cat $JOBS | xargs -P $P -I{} bash -c 'f=$(echo "{}" | tr " =," "___"); timeout 900 '$H' {} > '$OUT'/logs/$f.log 2> '$OUT'/logs/$f.err; echo "exit=$?" >> '$OUT'/logs/$f.log'
  pkill -9 -f "hunt2wt-c18/target/release/examples/[h]unt --child" 2>/dev/null
  echo "--- summary"
  cat $OUT/logs/*.log | grep -c '^RESULT'
  echo "hard violations: $(cat $OUT/logs/*.log | grep -c '^VIOLATION')"
  echo "hangs:           $(cat $OUT/logs/*.log | grep -c '^HANG')"
  echo "soft timeouts:   $(cat $OUT/logs/*.log | grep -c '^SOFT')"
  echo "slow:            $(cat $OUT/logs/*.log | grep -c '^SLOW')"
  echo "late ok:         $(cat $OUT/logs/*.log | grep -c '^LATEOK')"
  echo "runs ending with a permanently dead sandbox: $(cat $OUT/logs/*.log | grep -c '^DEAD')"
  echo "requests sent:   $(cat $OUT/logs/*.log | grep '^RESULT' | sed -E 's/.* sent=([0-9]+) .*/\1/' | paste -sd+ | bc)"
  echo "--- first violation of each failing run, by category"
  for f in $(grep -l '^VIOLATION' $OUT/logs/*.log); do grep -m1 '^VIOLATION' $f; done | sed -E 's/^[^[]*(\[[a-z-]+\]).* -> ([A-Za-z]+).*/\1 \2/' | sort | uniq -c
  grep -h '^exit=' $OUT/logs/*.log | sort | uniq -c
  ;;
*) echo "usage: $0 build|repro|stress [P] [S]|clean";;
esac
