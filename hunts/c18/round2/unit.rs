// C18 hunt, side driver: zero-length request frames (Req = ()) and unit replies.
use rink_sandbox::{Alloc, Error, Sandbox, Service};
use std::{env, ffi::OsString, io::Error as IoError, sync::atomic::{AtomicU64, Ordering}, time::Duration};

#[global_allocator]
static GLOBAL: Alloc = Alloc::new(usize::MAX);
static N: AtomicU64 = AtomicU64::new(0);
struct Unit;
impl Service for Unit {
    type Req = ();
    type Res = u64;
    type Config = ();
    fn args(_: &()) -> Vec<OsString> { vec!["--child".into()] }
    fn timeout(_: &()) -> Duration { Duration::from_millis(200) }
    fn create(_: ()) -> Result<Self, IoError> { Ok(Unit) }
    fn handle(&self, _: ()) -> u64 {
        // the n-th request served by this child; every 5th one kills the child in turn
        let n = N.fetch_add(1, Ordering::SeqCst) + 1;
        match n % 5 {
            0 => match (std::process::id() % 3, n) { (0, _) => std::process::exit(0), (1, _) => panic!("unit panic"), _ => std::thread::sleep(Duration::from_millis(700)) },
            _ => {}
        }
        n
    }
}
fn main() {
    if env::args().nth(1).as_deref() == Some("--child") {
        rink_sandbox::become_child::<Unit, _>(&GLOBAL);
    }
    let bad = async_std::task::block_on(async {
        let sb = Sandbox::<Unit>::new(()).await.unwrap();
        let mut expect = 1u64; // position within the current child
        let mut bad = 0;
        let mut kinds = std::collections::BTreeMap::new();
        for i in 0..600 {
            let r = sb.execute(()).await;
            let k = match &r {
                Ok(resp) => {
                    if resp.result != expect { println!("VIOLATION unit #{} got n={} expected {}", i, resp.result, expect); bad += 1; }
                    expect += 1;
                    "Ok"
                }
                Err(e) => {
                    let fault_due = expect == 5;
                    expect = 1;
                    match e {
                        Error::Crashed if fault_due => "Crashed",
                        Error::Panic(_) if fault_due => "Panic",
                        Error::Timeout(_) if fault_due => "Timeout",
                        other => { println!("VIOLATION unit #{} got {:?} (fault due: {})", i, other, fault_due); bad += 1; "Other" }
                    }
                }
            };
            *kinds.entry(k).or_insert(0u32) += 1;
        }
        println!("RESULT unit sent=600 hard={} kinds={:?}", bad, kinds);
        bad
    });
    std::process::exit(if bad > 0 { 1 } else { 0 });
}
