// Differential tester for property C15 ("queries are pure; only `ans`
// carries state between them").
//
// Install: copy to core/tests/hunt_c15.rs, then
//   HUNT_RUN=1 cargo test -p rink-core --features bundle-files,serde_json --release \
//       --offline --test hunt_c15 hunt -- --exact --nocapture
//
// One LIVE context per history is driven through `rink_core::eval`.  After
// every query the reply (to_string + serde_json), `ctx.previous_result`, the
// settings and a hash of the normalised Debug dump of the whole context are
// compared against an ORACLE: a context built from scratch in a freshly
// spawned thread or a freshly spawned process (re-exec of this test binary),
// with `previous_result` preset to the MODEL's value of `ans`, the same
// settings and `set_time(live.now)`.
//
// The model's value of `ans` is computed independently of helpers::eval: it
// is the fold, in a fresh context, of `Context::eval(expr)` over the chain of
// queries that -- per the wording of C15 -- set `ans`:
//   flag on  &&  the query parses as a plain expression (Query::Expr)
//            &&  it succeeds  &&  it is not a definition lookup (Def reply)
//            &&  its value is a Value::Number.
// Divergences on that rule are classified, logged, and the model is re-synced
// to the live context so the history can continue.

use chrono::{Local, TimeZone};
use rink_core::ast::{Expr, Query};
use rink_core::output::{QueryError, QueryReply};
use rink_core::parsing::text_query;
use rink_core::types::{Number, Numeric};
use rink_core::{Context, Value};
use serde_json::json;
use std::collections::{BTreeMap, BTreeSet};
use std::fmt::Write as FmtWrite;
use std::io::Write as IoWrite;
use std::panic::{catch_unwind, AssertUnwindSafe};
use std::sync::atomic::{AtomicUsize, Ordering};
use std::sync::mpsc;
use std::sync::{Arc, Mutex};
use std::time::{Duration, Instant};

// ---------------------------------------------------------------- utilities

struct Rng(u64);
impl Rng {
    fn next(&mut self) -> u64 {
        self.0 = self.0.wrapping_add(0x9E3779B97F4A7C15);
        let mut z = self.0;
        z = (z ^ (z >> 30)).wrapping_mul(0xBF58476D1CE4E5B9);
        z = (z ^ (z >> 27)).wrapping_mul(0x94D049BB133111EB);
        z ^ (z >> 31)
    }
    fn below(&mut self, n: usize) -> usize {
        (self.next() % (n as u64)) as usize
    }
    fn chance(&mut self, pct: usize) -> bool {
        self.below(100) < pct
    }
    fn pick<'a, T>(&mut self, v: &'a [T]) -> &'a T {
        &v[self.below(v.len())]
    }
}

fn fresh_ctx(currency: bool) -> Context {
    let mut ctx = rink_core::simple_context().unwrap();
    if currency {
        ctx.load_currency(
            include_str!("currency.snapshot.json"),
            rink_core::CURRENCY_FILE.unwrap(),
        )
        .unwrap();
    }
    ctx
}

fn parse(q: &str) -> Query {
    let mut iter = text_query::TokenIterator::new(q.trim()).peekable();
    text_query::parse_query(&mut iter)
}

/// Exact fingerprint of a stored answer (bit-exact for floats).
fn fp(n: &Option<Number>) -> String {
    match n {
        None => "None".to_owned(),
        Some(n) => {
            let v = match n.value {
                Numeric::Float(f) => format!("F{:016x}", f.to_bits()),
                Numeric::Rational(_) => {
                    let (a, b) = n.value.to_rational();
                    format!("R{}/{}", a, b)
                }
            };
            let mut u = String::new();
            for (k, p) in n.unit.iter() {
                write!(u, " {}^{}", k.as_str(), p).unwrap();
            }
            format!("{} [{}]", v, u.trim())
        }
    }
}

fn short(s: &str) -> String {
    if s.len() > 300 {
        let mut end = 300;
        while !s.is_char_boundary(end) {
            end -= 1;
        }
        format!("{}...(+{} bytes)", &s[..end], s.len() - end)
    } else {
        s.to_owned()
    }
}

fn ans_bits(n: &Option<Number>) -> usize {
    match n {
        None => 0,
        Some(n) => match n.value {
            Numeric::Float(_) => 64,
            Numeric::Rational(_) => {
                let (a, b) = n.value.to_rational();
                a.size_in_base(2).max(b.size_in_base(2))
            }
        },
    }
}

fn ans_small(n: &Option<Number>) -> bool {
    match n {
        None => true,
        Some(n) => {
            let f = n.value.to_f64();
            f.is_finite() && f.abs() <= 24.0 && ans_bits(&Some(n.clone())) < 64
        }
    }
}

struct HashWriter(u64, usize);
impl std::fmt::Write for HashWriter {
    fn write_str(&mut self, s: &str) -> std::fmt::Result {
        for b in s.bytes() {
            self.0 ^= b as u64;
            self.0 = self.0.wrapping_mul(0x100000001b3);
        }
        self.1 += s.len();
        Ok(())
    }
}

/// Hash of the Debug dump of the whole context, with `now` and
/// `previous_result` normalised (and restored afterwards).
fn ctx_hash(ctx: &mut Context) -> String {
    let prev = ctx.previous_result.take();
    let now = ctx.now;
    let (flag, hum) = (ctx.save_previous_result, ctx.use_humanize);
    ctx.set_time(Local.timestamp_opt(0, 0).unwrap());
    ctx.save_previous_result = false;
    ctx.use_humanize = true;
    let mut w = HashWriter(0xcbf29ce484222325, 0);
    write!(w, "{:?}", ctx).unwrap();
    ctx.set_time(now);
    ctx.previous_result = prev;
    ctx.save_previous_result = flag;
    ctx.use_humanize = hum;
    format!("{:016x}/{}", w.0, w.1)
}

fn panic_msg(e: Box<dyn std::any::Any + Send>) -> String {
    if let Some(s) = e.downcast_ref::<&str>() {
        s.to_string()
    } else if let Some(s) = e.downcast_ref::<String>() {
        s.clone()
    } else {
        "<non-string panic>".to_owned()
    }
}

fn reply_kind(r: &Result<QueryReply, QueryError>) -> &'static str {
    match r {
        Ok(QueryReply::Number(_)) => "Number",
        Ok(QueryReply::Date(_)) => "Date",
        Ok(QueryReply::Substance(_)) => "Substance",
        Ok(QueryReply::Duration(_)) => "Duration",
        Ok(QueryReply::Def(_)) => "Def",
        Ok(QueryReply::Conversion(_)) => "Conversion",
        Ok(QueryReply::Factorize(_)) => "Factorize",
        Ok(QueryReply::UnitsFor(_)) => "UnitsFor",
        Ok(QueryReply::UnitList(_)) => "UnitList",
        Ok(QueryReply::Search(_)) => "Search",
        Err(QueryError::Conformance(_)) => "ErrConformance",
        Err(QueryError::NotFound(_)) => "ErrNotFound",
        Err(QueryError::Generic { .. }) => "ErrGeneric",
    }
}

fn parse_kind(q: &Query) -> &'static str {
    match q {
        Query::Expr(_) => "Expr",
        Query::Convert(..) => "Convert",
        Query::Factorize(_) => "Factorize",
        Query::UnitsFor(_) => "UnitsFor",
        Query::Search(_) => "Search",
        Query::Error(_) => "Error",
    }
}

/// Text and JSON rendering of a reply; both guarded against panics.
fn render(res: &Result<QueryReply, QueryError>) -> (String, String) {
    let text = catch_unwind(AssertUnwindSafe(|| match res {
        Ok(v) => format!("OK: {}", v),
        Err(e) => format!("ERR: {}", e),
    }))
    .unwrap_or_else(|e| format!("TEXTPANIC: {}", panic_msg(e)));
    let js = catch_unwind(AssertUnwindSafe(|| match serde_json::to_string(res) {
        Ok(s) => s,
        Err(e) => format!("JSONERR: {}", e),
    }))
    .unwrap_or_else(|e| format!("JSONPANIC: {}", panic_msg(e)));
    (text, js)
}

// ------------------------------------------------------------------ oracle

#[derive(Clone, Debug)]
struct ChainEntry {
    query: String,
    secs: i64,
    nanos: u32,
}

#[derive(Clone, Debug)]
struct Request {
    hash: bool,
    currency: bool,
    flag: bool,
    humanize: bool,
    secs: i64,
    nanos: u32,
    chain: Vec<ChainEntry>,
    query: String,
}

#[derive(Clone, Debug, Default)]
struct Response {
    text: String,
    json: String,
    kind: String,
    pkind: String,
    /// would the query set `ans`, per the wording of C15 (ignoring the flag)
    sets_worded: bool,
    prev_before: String,
    prev_after: String,
    pristine_hash: String,
    after_hash: String,
    chain_err: String,
}

impl Request {
    fn to_json(&self) -> String {
        json!({
            "hash": self.hash, "currency": self.currency, "flag": self.flag, "humanize": self.humanize,
            "secs": self.secs, "nanos": self.nanos, "query": self.query,
            "chain": self.chain.iter().map(|c| json!({"q": c.query, "s": c.secs, "n": c.nanos})).collect::<Vec<_>>(),
        })
        .to_string()
    }
    fn from_json(s: &str) -> Request {
        let v: serde_json::Value = serde_json::from_str(s).unwrap();
        Request {
            hash: v["hash"].as_bool().unwrap(),
            currency: v["currency"].as_bool().unwrap(),
            flag: v["flag"].as_bool().unwrap(),
            humanize: v["humanize"].as_bool().unwrap(),
            secs: v["secs"].as_i64().unwrap(),
            nanos: v["nanos"].as_u64().unwrap() as u32,
            query: v["query"].as_str().unwrap().to_owned(),
            chain: v["chain"]
                .as_array()
                .unwrap()
                .iter()
                .map(|c| ChainEntry {
                    query: c["q"].as_str().unwrap().to_owned(),
                    secs: c["s"].as_i64().unwrap(),
                    nanos: c["n"].as_u64().unwrap() as u32,
                })
                .collect(),
        }
    }
}

impl Response {
    fn to_json(&self) -> String {
        json!({
            "text": self.text, "json": self.json, "kind": self.kind, "pkind": self.pkind,
            "sets_worded": self.sets_worded, "prev_before": self.prev_before,
            "prev_after": self.prev_after, "pristine_hash": self.pristine_hash,
            "after_hash": self.after_hash, "chain_err": self.chain_err,
        })
        .to_string()
    }
    fn from_json(s: &str) -> Response {
        let v: serde_json::Value = serde_json::from_str(s).unwrap();
        let g = |k: &str| v[k].as_str().unwrap().to_owned();
        Response {
            text: g("text"),
            json: g("json"),
            kind: g("kind"),
            pkind: g("pkind"),
            sets_worded: v["sets_worded"].as_bool().unwrap(),
            prev_before: g("prev_before"),
            prev_after: g("prev_after"),
            pristine_hash: g("pristine_hash"),
            after_hash: g("after_hash"),
            chain_err: g("chain_err"),
        }
    }
}

fn plain_expr_of(q: &Query) -> Option<&Expr> {
    match q {
        Query::Expr(e) => Some(e),
        // only reached after a re-sync onto the live behaviour (`x ->`)
        Query::Convert(e, _, _, _) => Some(e),
        _ => None,
    }
}

/// Everything here happens on a context that did not exist before the call.
fn oracle_answer(req: &Request) -> Response {
    let mut ctx = fresh_ctx(req.currency);
    let pristine_hash = if req.hash { ctx_hash(&mut ctx) } else { String::new() };
    let mut chain_err = String::new();

    // model value of `ans`
    let mut prev: Option<Number> = None;
    for c in &req.chain {
        ctx.previous_result = prev.clone();
        ctx.set_time(Local.timestamp_opt(c.secs, c.nanos).unwrap());
        let q = parse(&c.query);
        match plain_expr_of(&q).map(|e| ctx.eval(e)) {
            Some(Ok(Value::Number(n))) => prev = Some(n),
            other => {
                write!(
                    chain_err,
                    "chain entry {:?} did not evaluate to a number: {:?}; ",
                    c.query,
                    other.map(|r| r.map(|_| "non-number").map_err(|e| e.to_string()))
                )
                .unwrap();
            }
        }
    }
    let prev_before = fp(&prev);

    ctx.previous_result = prev.clone();
    ctx.save_previous_result = req.flag;
    ctx.use_humanize = req.humanize;
    ctx.set_time(Local.timestamp_opt(req.secs, req.nanos).unwrap());

    let line = req.query.clone();
    let outcome = catch_unwind(AssertUnwindSafe(|| {
        let q = parse(&line);
        let res = ctx.eval_query(&q);
        let (text, js) = render(&res);
        let kind = reply_kind(&res).to_owned();
        let pkind = parse_kind(&q).to_owned();
        let mut new_prev = None;
        if let (Query::Expr(e), true) = (&q, res.is_ok()) {
            if kind != "Def" {
                if let Ok(Value::Number(n)) = ctx.eval(e) {
                    new_prev = Some(n);
                }
            }
        }
        (text, js, kind, pkind, new_prev)
    }));
    let after_hash = if req.hash { ctx_hash(&mut ctx) } else { String::new() };
    match outcome {
        Ok((text, js, kind, pkind, new_prev)) => {
            let sets_worded = new_prev.is_some();
            let after = if sets_worded && req.flag { new_prev } else { prev };
            Response {
                text,
                json: js,
                kind,
                pkind,
                sets_worded,
                prev_before,
                prev_after: fp(&after),
                pristine_hash,
                after_hash,
                chain_err,
            }
        }
        Err(e) => Response {
            text: format!("PANIC: {}", panic_msg(e)),
            json: "PANIC".to_owned(),
            kind: "Panic".to_owned(),
            pkind: "?".to_owned(),
            sets_worded: false,
            prev_before: prev_before.clone(),
            prev_after: prev_before,
            pristine_hash,
            after_hash,
            chain_err,
        },
    }
}

fn oracle_in_thread(req: &Request) -> Response {
    let req = req.clone();
    std::thread::Builder::new()
        .stack_size(16 << 20)
        .spawn(move || oracle_answer(&req))
        .unwrap()
        .join()
        .unwrap()
}

fn oracle_in_process(req: &Request) -> Response {
    use std::process::Stdio;
    let exe = std::env::current_exe().unwrap();
    let mut child = std::process::Command::new(exe)
        .args(["oracle_child", "--exact", "--nocapture", "--test-threads=1"])
        .env("HUNT_CHILD", "1")
        .env_remove("HUNT_RUN")
        .env_remove("HUNT_REPLAY")
        .env("RUST_BACKTRACE", "0")
        .stdin(Stdio::piped())
        .stdout(Stdio::piped())
        .stderr(Stdio::piped())
        .spawn()
        .unwrap();
    {
        let mut stdin = child.stdin.take().unwrap();
        stdin.write_all(req.to_json().as_bytes()).unwrap();
    }
    let out = child.wait_with_output().unwrap();
    let stdout = String::from_utf8_lossy(&out.stdout);
    for line in stdout.lines() {
        if let Some(idx) = line.find("@@RESP ") {
            return Response::from_json(&line[idx + 7..]);
        }
    }
    panic!(
        "oracle child gave no response: status {:?}\nstdout: {}\nstderr: {}",
        out.status,
        stdout,
        String::from_utf8_lossy(&out.stderr)
    );
}

#[test]
fn oracle_child() {
    if std::env::var("HUNT_CHILD").is_err() {
        return;
    }
    let mut req = String::new();
    std::io::Read::read_to_string(&mut std::io::stdin(), &mut req).unwrap();
    std::panic::set_hook(Box::new(|_| {}));
    let resp = oracle_answer(&Request::from_json(&req));
    println!("\n@@RESP {}", resp.to_json());
}

// ----------------------------------------------------------------- corpus

struct Corpus {
    queries: Vec<String>,
    units: Vec<String>,
    base: Vec<String>,
    prefixes: Vec<String>,
    quantities: Vec<String>,
    substances: Vec<String>,
    symbols: Vec<String>,
    props: Vec<String>,
    docs: Vec<String>,
}

fn extract_query_rs() -> Vec<String> {
    let src = include_str!("query.rs");
    let mut out = vec![];
    let bytes: Vec<char> = src.chars().collect();
    let needles = ["test(", "test_starts_with("];
    let mut i = 0;
    while i < bytes.len() {
        let mut matched = 0;
        for n in &needles {
            let nc: Vec<char> = n.chars().collect();
            if i + nc.len() <= bytes.len() && bytes[i..i + nc.len()] == nc[..] {
                let before_ok = i == 0 || !(bytes[i - 1].is_alphanumeric() || bytes[i - 1] == '_');
                if before_ok {
                    matched = nc.len();
                }
            }
        }
        if matched == 0 {
            i += 1;
            continue;
        }
        let mut j = i + matched;
        while j < bytes.len() && bytes[j].is_whitespace() {
            j += 1;
        }
        if j >= bytes.len() || bytes[j] != '"' {
            i += matched;
            continue;
        }
        j += 1;
        let mut s = String::new();
        while j < bytes.len() && bytes[j] != '"' {
            if bytes[j] == '\\' {
                j += 1;
                match bytes[j] {
                    'n' => s.push('\n'),
                    't' => s.push('\t'),
                    '\\' => s.push('\\'),
                    '"' => s.push('"'),
                    '\'' => s.push('\''),
                    'u' => {
                        // \u{XXXX}
                        let mut k = j + 2;
                        let mut hex = String::new();
                        while bytes[k] != '}' {
                            hex.push(bytes[k]);
                            k += 1;
                        }
                        if let Some(c) = u32::from_str_radix(&hex, 16).ok().and_then(char::from_u32) {
                            s.push(c);
                        }
                        j = k;
                    }
                    '\n' => {
                        while j + 1 < bytes.len() && bytes[j + 1].is_whitespace() {
                            j += 1;
                        }
                    }
                    c => s.push(c),
                }
                j += 1;
            } else {
                s.push(bytes[j]);
                j += 1;
            }
        }
        out.push(s);
        i = j;
    }
    out.sort();
    out.dedup();
    out
}

fn build_corpus(ctx: &Context) -> Corpus {
    let r = &ctx.registry;
    let mut props = BTreeSet::new();
    for s in r.substances.values() {
        for (k, p) in &s.properties.properties {
            props.insert(k.clone());
            props.insert(p.input_name.clone());
            props.insert(p.output_name.clone());
        }
    }
    Corpus {
        queries: extract_query_rs(),
        units: r.units.keys().cloned().collect(),
        base: r.base_units.iter().map(|b| b.as_str().to_owned()).collect(),
        prefixes: r.prefixes.iter().map(|p| p.0.clone()).collect(),
        quantities: r.quantities.values().cloned().collect(),
        substances: r.substances.keys().cloned().collect(),
        symbols: r.substance_symbols.keys().cloned().collect(),
        props: props.into_iter().collect(),
        docs: r.docs.keys().cloned().collect(),
    }
}

const ALIASES: &[&str] = &["ans", "ANS", "_"];

const FUNCS: &[&str] = &[
    "sqrt", "exp", "ln", "log2", "log10", "sin", "cos", "tan", "asin", "acos", "atan", "sinh",
    "cosh", "tanh", "asinh", "acosh", "atanh",
];
const FUNCS2: &[&str] = &["log", "hypot", "atan2"];

const COMMON_UNITS: &[&str] = &[
    "m", "meter", "km", "cm", "mm", "kg", "g", "gram", "s", "second", "ms", "minute", "min",
    "hour", "day", "week", "year", "month", "ft", "foot", "feet", "inch", "mile", "yard", "lb",
    "pound", "oz", "N", "newton", "J", "joule", "W", "watt", "kWh", "V", "volt", "A", "ampere",
    "ohm", "K", "kelvin", "mol", "bit", "byte", "MB", "GiB", "radian", "degree", "percent",
    "liter", "gallon", "c", "G", "pi", "e", "hertz", "Hz", "Pa", "atm", "bar", "USD", "EUR",
    "JPY", "dollar", "acre", "hectare", "knot", "mph", "lightyear", "au", "parsec", "eV", "cal",
    "btu", "hp", "dozen", "mole", "candela", "lumen", "lux", "steradian", "tesla", "weber",
    "farad", "henry", "coulomb", "gray", "sievert", "becquerel", "katal", "planck_length",
    "earthmass", "sunmass", "gravity", "force", "siderealyear", "fortnight", "century",
];

const TZS: &[&str] = &[
    "UTC", "US/Pacific", "America/New_York", "Europe/London", "Europe/Berlin", "Asia/Tokyo",
    "Australia/Sydney", "Asia/Kolkata", "America/Sao_Paulo", "Africa/Cairo", "EST", "GMT",
    "Pacific/Auckland", "Asia/Kathmandu", "Etc/GMT+12", "Zulu", "PST8PDT", "Iceland", "GB",
];

const OFFSETS: &[&str] = &["+00:00", "+05:30", "-08:00", "+14:00", "-12:00", "+01:00", "+99:00", "-00:30"];

const DEGREES: &[&str] = &[
    "degC", "°C", "celsius", "℃", "degF", "°F", "fahrenheit", "℉", "degRé", "°Ré", "degRe",
    "°Re", "réaumur", "reaumur", "degRø", "°Rø", "degRo", "°Ro", "rømer", "romer", "degDe",
    "°De", "delisle", "degN", "°N", "degnewton",
];

// one literal (or more) for every pattern line of datepatterns.txt
const DATES: &[&str] = &[
    "#2020-02-29#", "#2016-08-02T15:33:19#", "#2016-08-02T15:33#", "#2016-08-02T15:33:19 +01:00#",
    "#2016-08-02T15:33:19 -04:00#", "#2016-08-02 15:33:19#", "#2016-08-02 15:33#",
    "#2016-08-02 15:33:19 +05:30#", "#2016-08-02 15:33:19 US/Pacific#", "#2016-08-02 15:33:19 Z#",
    "#2016-W31#", "#2016-W31 10:00#", "#2016-W31 10:00:30 +02:00#", "#2016-215#",
    "#2016-215 23:59#", "#2016-215 23:59:59 -03:00#", "#--08-02#", "#--08-02 09:15#",
    "#--08-02 09:15:01 +00:00#", "#August 2#", "#Aug 2, 2016#", "#August 2 2016#",
    "#January 1, 1970#", "#jan 1, 1970 12:00 am#", "#Jan 1, 1970 12:00:30 pm +01:00#",
    "#Feb 3, 44 BC#", "#March 15 44 bc#", "#July 4, 1776 AD#", "#Dec 25, 2000 18:30#",
    "#Dec 25, 2000 18:30:15 -05:00#", "#Dec 25 18:30#", "#Tue Aug 2 2016#",
    "#Tue Aug 2 15:33:19 2016#", "#Tuesday August 2 15:33 2016#", "#2016 August 2#",
    "#1970 January 1 1:00 pm#", "#1970 Jan 1 1:00:05 am +09:00#", "#1970 Jan 1 13:00#",
    "#1970 Jan 1 13:00:59 +00:00 AD#", "#44 March 15 BC#", "#10:30#", "#10:30:15#",
    "#10:30 pm#", "#10:30:15 am -07:00#", "#23:59:59 +05:45#", "#10:30 Asia/Tokyo#",
    "#0000-01-01#", "#9999-12-31#", "#-0001-01-01#", "#2016-13-45#", "#2016-02-30#",
    "#25:61#", "#nonsense#", "#2016-08-02", "##", "# #", "#Feb 30, 2020#", "#12:00 xm#",
    "#292277026596-12-04#", "#1e9-01-01#", "#2016-08-02T15:33:19.5#", "#2038-01-19 03:14:08 +00:00#",
    "#1900-01-01#", "#1582-10-10#",
];

const NUMS: &[&str] = &[
    "0", "1", "2", "3", "7", "10", "12", "42", "100", "255", "1000", "65536", "0.5", "1.5",
    "0.1", "0.001", "3.14159", "2.718281828", "1e3", "1e-9", "1e100", "1e-100", "6.022e23",
    "0x1f", "0xdeadbeef", "0o17", "0b101", "1|3", "2|7", "22|7", "1_000_000", ".5",
    "12345678901234567890", "9007199254740993", "1e308", "4.9e-324", "0.30000000000000004",
    "1E5", "1ee5", "1e+5",
];

/// Queries of every reply kind, used as "what came before `ans`".
const SETTERS: &[&str] = &[
    // plain numbers
    "42", "0", "-7", "1/3", "-2|3", "0.1", "1e100", "2^4000", "2^-4000", "-(3^2000)", "1.5 m",
    "0 m", "-0.25 kg", "3 kg m / s^2", "100 km/hour", "5 %", "pi", "e", "2 pi radian", "1 byte",
    "98.6 °F", "25 °C", "-40 degF", "0 K", "'widget' 5", "3 'widget' / 'gadget'", "kilometer",
    "km", "feet", "3 c", "12 inch + 1 ft", "0x10", "0.5 mol", "3 USD", "1 / (3 m)", "1e-30 A",
    "sqrt(2)", "sqrt(4 m^2)", "sin(1)", "cos(pi)", "exp(1)", "ln(10)", "log2(8)", "10^0.5",
    "2^0.5 m", "hypot(3 m, 4 m)", "atan2(1, 1)", "7 mod 3", "6 and 3", "1 << 10", "1024 >> 3",
    "5 xor 1", "4 or 1", "x = 5", "foo = 3 m", "1.0", "1.0 s / s", "60 s / minute", "3 m\n4",
    // NaN and infinities
    "log2(0)", "-log2(0)", "ln(0)", "log10(0)", "ln(-1)", "asin(2)", "acos(-2)", "0 * log2(0)",
    "log2(0) - log2(0)", "exp(1000)", "-exp(1000)", "exp(1000) m", "sqrt(-1)", "(-1)^0.5",
    "acosh(0)", "atanh(1)", "atanh(2)", "tan(pi/2)", "1e308 * 10.5", "log(0, 0)", "0^0", "0^-1",
    "log(1, 1)", "hypot(exp(1000), 1)", "atan2(0, 0)", "sinh(1000)", "exp(-1000)", "-0.0",
    "-exp(-1000) * exp(-1000)",
    // durations (results in seconds)
    "2 hours", "90 s", "1 year", "now - #2020-01-01#", "#2021-01-01# - #2020-01-01#", "0 s",
    "-5 s", "1e30 s", "0.001 s", "hour", "3 weeks + 2 days", "1.5 s", "1|3 s", "log2(0) s",
    "exp(1000) s", "ln(-1) s", "1 / Hz", "3 m / (2 m/s)", "day", "fortnight", "2^4000 s",
    // dates
    "now", "#2020-02-29#", "#2020-01-01# + 1 week", "now + 3 days", "#10:30#", "now - 2 hours",
    "#2016-08-02T15:33:19 -04:00#",
    // substances
    "water", "3 kg water", "gold", "H2O", "C6H12O6", "NaCl", "density of water",
    "molar_mass of H2O", "water 2 liter", "5 mol helium", "egg", "2 egg", "speed of light",
    // conversions
    "5 ft -> m", "1 mile -> km;m", "10 -> hex", "1/3 -> digits 30", "1/3 -> frac",
    "100 °C -> °F", "now -> UTC", "2 hours -> min", "3 ->", "3 m to", "90 s ->", "now ->",
    "water ->", "meter ->", "1e6 -> sci", "1234567 -> eng", "255 -> bin", "1 -> base 36",
    "3.5 hours -> hour;min;sec", "10 kg -> lb;oz", "now -> +05:30", "water -> kg",
    "3 kg -> water", "1 -> 1", "100 -> %", "5 m -> 'widget'", "42 -> digits",
    // definitions
    "meter", "foot", "speed", "length", "kilo", "USD", "second", "kg", "c", "byte", "inch",
    "ampere", "velocity", "time", "s", "bit",
    // commands
    "units for power", "units of length", "units energy", "factorize velocity",
    "factorize energy", "search mile", "search ans", "units for 3 m", "factorize 3 kg",
    "search", "units", "factorize",
    // errors, also after partial evaluation
    "3 m + 2 s", "foobarbaz", "1/0", "(", "", ")", "5 +", "1 << 1e10", "sqrt(2 m)", "3 m -> s",
    "#nonsense#", "5 5 5 m s kg + 1", "(1 + 2) + (3 m + 2 s)", "sqrt(4) + foo", "2 * (3 / 0)",
    "1 m^0.5", "log(2 m, 3 m)", "sin(3 m)", "3 -> foo", "density of 3", "foo of water",
    "water + water", "now + now", "now * 2", "5 °C °C", "3 m °C", "1 << 0.5", "3 and 0.5",
    "3 m and 1", "2^(1 m)", "1 -> digits 0", "1 -> base 1", "1 -> base 99", "1 -> digits foo",
    "1 -> hex sci", "1 -> US/Pacific", "now -> m", "now -> digits", "3 -> +05:30",
    "1 -> m;s", "1 m -> m;s", "1 m -> ;", "1 m -> m;", "1 -> ()", "sqrt()", "sqrt(1,2)",
    "log(1)", "hypot(1 m, 1 s)", "atan2(1 m, 1)", "'", "\"", "0x", "1e", "1.", "/*", "@", "\\q",
    "\u{1F600}", "1 = 2", "1 + = 2", "3 m = 4", "of", "of of of", "to", "in", "per", "mod",
    "int", "survey", "UK", "-", "+", "--1", "+-+-1", "^2", "2^", "|", "1|", "1|0", "°C",
    "°C 5", "5 °C -> °C 5", "-> m", "->", "-> ->", "3 -> -> m",
];

/// `ans` in every position. `{A}` is replaced by a random alias; `{S}` marks
/// templates that may blow up when `ans` is large.
const USES: &[&str] = &[
    "{A}", " {A} ", "({A})", "(({A}))", "+{A}", "-{A}", "--{A}", "{A} + 1", "1 + {A}",
    "{A} - 1", "1 - {A}", "{A} * 2", "2 * {A}", "2 {A}", "{A} 2", "{A} / 3", "3 / {A}",
    "{A} - {A}", "{A} + {A}", "{A} {A}", "{A} * {A}", "{A} / {A}", "{A}|3", "3|{A}",
    "{A}|{A}", "{A}%", "{A} %", "{A} percent", "{A} m", "m {A}", "{A} / s", "s / {A}",
    "{A} kg m / s^2", "{A} + 3 m", "{A} + 2 s", "3 m + {A}", "2 s - {A}", "{A} + 1 K",
    "{A} -> m", "{A} -> s", "{A} -> kg", "{A} -> K", "{A} -> minute", "{A} -> year",
    "{A} -> 1", "{A} -> %", "{A} ->", "{A} to", "{A} in", "{A} -> {A}", "{A} to {A}",
    "5 m -> {A}", "5 -> {A}", "3 s -> {A}", "{A} -> 2 {A}", "{A} -> {A}^2", "{A} -> {A} m",
    "{A} -> 1/{A}", "{A} -> digits", "{A} -> digits 50", "{A} -> digits 1", "{A} -> digits 0",
    "{A} -> frac", "{A} -> fraction", "{A} -> ratio", "{A} -> sci", "{A} -> scientific",
    "{A} -> eng", "{A} -> engineering", "{A} -> hex", "{A} -> hexadecimal", "{A} -> base16",
    "{A} -> oct", "{A} -> octal", "{A} -> base8", "{A} -> bin", "{A} -> binary", "{A} -> base2",
    "{A} -> base 7", "{A} -> base 36", "{A} -> base 2", "{A} -> digits 20 base 36",
    "{A} -> digits hex", "{A} -> sci hex", "{A} -> eng base 3", "{A} -> frac bin",
    "{A} -> digits 10 m", "{A} -> sci s", "{A} -> frac kg", "{A} -> hex m", "{A} -> base 12 s",
    "{A} -> °C", "{A} -> degF", "{A} -> kelvin", "{A} -> °Ré", "{A} -> °Rø", "{A} -> °De",
    "{A} -> °N", "{A} -> digits 5 °C", "{A} °C", "{A} degF", "{A} °C -> °F", "{A} degF -> degC",
    "{A} °Ré", "{A} °De", "{A} °N", "{A} °Rø", "-{A} °C", "{A} °C + {A}", "{A} -> UTC",
    "{A} -> US/Pacific", "{A} -> +05:30", "{A} -> -08:00", "{A} -> ft;in", "{A} -> ft,in",
    "{A} -> hour;min;sec", "{A} -> year;week;day", "{A} -> lb;oz", "{A} -> m;cm;mm",
    "{A} -> {A};m", "{A} -> m;{A}", "{A} -> {A};{A}", "5 m -> {A};m", "{A} -> _;_",
    "units for {A}", "units of {A}", "units {A}", "units for {A} m", "units for {A} / s",
    "factorize {A}", "factorize {A} m", "search {A}", "search {A}s", "{A} = 5", "x = {A}",
    "{A} = {A}", "{A} = {A} + 1", "density of {A}", "{A} of water", "{A} of {A}", "water {A}",
    "{A} water", "{A} kg water", "{A} water -> volume", "{A} -> water", "water -> {A}",
    "mass of {A} water", "volume of {A} kg water", "molar_mass of {A}", "{A} mol H2O",
    "{A} gold -> mass", "now + {A}", "now - {A}", "{A} + now", "{A} - now", "now {A}",
    "#2020-01-01# + {A}", "#2020-01-01# - {A}", "#2020-01-01# + {A} s", "now + {A} days",
    "now - {A} year", "now -> {A}", "{A} #2020-01-01#", "sqrt({A})", "sqrt {A}", "sqrt({A}^2)",
    "sqrt({A}) ^ 2", "sin({A})", "sin {A}", "cos({A})", "tan({A})", "asin({A})", "acos({A})",
    "atan({A})", "sinh({A})", "cosh({A})", "tanh({A})", "asinh({A})", "acosh({A})",
    "atanh({A})", "ln({A})", "log2({A})", "log10({A})", "exp({A})", "atan2({A}, 1)",
    "atan2(1, {A})", "atan2({A}, {A})", "hypot({A}, {A})", "hypot({A}, 3)", "hypot(3 m, {A})",
    "log({A}, 2)", "log(8, {A})", "log({A}, {A})", "sqrt({A}, {A})", "sqrt()", "{A}()", "{A}(1)",
    "{A} mod 7", "7 mod {A}", "{A} mod {A}", "{A} mod 0", "{A} mod 3 m", "{A} and 3", "3 and {A}",
    "{A} or 8", "{A} xor 1", "{A} xor {A}", "{A} << 2", "{A} >> 1", "{A} >> 100",
    "{S}1 << {A}", "{S}1 >> {A}", "{S}{A}^2", "{S}{A}^3", "{S}{A}^-1", "{A}^0", "{A}^1",
    "{S}{A}^0.5", "{S}{A}^(1/2)", "{S}{A}^(1/3)", "{S}2^{A}", "{S}{A}^{A}", "{S}{A}**2",
    "{S}0.5^{A}", "{S}(-1)^{A}", "{S}10^{A}", "{S}{A}^2 m", "{S}m^{A}", "{S}2^{A} m",
    "{S}{A} << {A}", "({A} + 1) + (3 m + 2 s)", "({A} * 2) / 0", "{A} / 0", "0 / {A}", "0 * {A}",
    "{A} * 0", "{A} -> 0", "{A} -> 0 m", "({A} + 1) -> foo", "{A} + foo", "foo + {A}",
    "{A} + (", "({A}", "{A})", "{A} ) 5", "{A} , 5", "{A} ; 5", "{A} // comment",
    "/* c */ {A}", "{A} /* c */ + 1", "{A} /* unterminated", "{A}\n5", "5\n{A}", "{A}\t+\t1",
    "'{A}'", "'{A}' + {A}", "{A} -> '{A}'", "3 '{A}'", "\"{A}\"", "\"{A}\" + 1", "\\u5f",
    "{A}s", "k{A}", "kilo{A}", "m{A}", "milli{A}", "{A}_", "_{A}", "__", "_1", "_ _", "_+_",
    "_-_", "_*_", "_/_", "_|_", "_^_", "_%", "-_", "(_)", "_ -> _", "_;_", "Ans", "aNS", "ANs",
    "anS", "ａｎｓ", "ans$", "$ans", "int {A}", "survey {A}", "UK {A}", "{A} per s", "{A} per {A}",
    "{A} in m", "{A} to {A}s", "{A} {A} {A}", "{A} + {A} + {A}", "{A} {A}|{A} {A}", "{A}^{A}^0",
    "1e{A}", "0x{A}", "{A}e3", "{A}.5", "5.{A}", "{A} .5", "{A}#2020-01-01#", "{A} 1e3",
    "{A} -> hex {A}", "{A} -> digits {A}", "{A} -> base {A}", "{A} 5 % ", "{A} 5%% ",
    "{A} light", "{A} c", "{A} G", "{A} pi", "{A} e", "{A} / pi", "{A} radian", "{A} degree",
    "sin({A} degree)", "{A} USD", "{A} USD -> EUR", "{A} -> USD", "{A} bit", "{A} byte -> bit",
    "{A} -> byte", "{A} year -> day", "{A} s", "{A} hour", "{A} * 1 s", "{A} / 1 s", "1 s / {A}",
];

fn alias(rng: &mut Rng) -> &'static str {
    // favour `ans`, but use all three spellings
    match rng.below(10) {
        0..=4 => "ans",
        5..=6 => "ANS",
        _ => "_",
    }
}

fn fill(t: &str, rng: &mut Rng) -> String {
    let t = t.strip_prefix("{S}").unwrap_or(t);
    let mut out = String::new();
    let mut rest = t;
    while let Some(i) = rest.find("{A}") {
        out.push_str(&rest[..i]);
        out.push_str(alias(rng));
        rest = &rest[i + 3..];
    }
    out.push_str(rest);
    out
}

struct GenState {
    small: bool,
    bits: usize,
    currency: bool,
}

fn num(rng: &mut Rng) -> String {
    if rng.chance(70) {
        rng.pick(NUMS).to_string()
    } else {
        match rng.below(4) {
            0 => format!("{}", rng.below(1000)),
            1 => format!("{}.{}", rng.below(100), rng.below(1000)),
            2 => format!("{}e{}", 1 + rng.below(9), rng.below(40) as i64 - 20),
            _ => format!("{}|{}", rng.below(50), 1 + rng.below(50)),
        }
    }
}

fn unit(rng: &mut Rng, c: &Corpus) -> String {
    match rng.below(100) {
        0..=54 => rng.pick(COMMON_UNITS).to_string(),
        55..=79 => rng.pick(&c.units).clone(),
        80..=84 => rng.pick(&c.base).clone(),
        85..=92 => format!("{}{}", rng.pick(&c.prefixes), rng.pick(COMMON_UNITS)),
        93..=95 => format!("{}s", rng.pick(&c.units)),
        96..=97 => rng.pick(&c.quantities).clone(),
        _ => rng.pick(&c.docs).clone(),
    }
}

fn substance(rng: &mut Rng, c: &Corpus) -> String {
    match rng.below(10) {
        0..=5 => rng.pick(&c.substances).clone(),
        6..=7 => rng.pick(&c.symbols).clone(),
        _ => rng
            .pick(&["H2O", "C6H12O6", "NaCl", "CO2", "CH4", "H2SO4", "Fe2O3", "C2H5OH", "He2", "Xx9", "H0", "H999999999999"])
            .to_string(),
    }
}

fn atom(rng: &mut Rng, c: &Corpus, st: &GenState, p_ans: usize) -> String {
    if rng.chance(p_ans) && st.bits < 20000 {
        return alias(rng).to_string();
    }
    match rng.below(100) {
        0..=29 => num(rng),
        30..=59 => format!("{} {}", num(rng), unit(rng, c)),
        60..=74 => unit(rng, c),
        75..=79 => format!("{}%", num(rng)),
        80..=83 => format!("'{}'", rng.pick(&["widget", "gadget", "ans", "m", "a b", ""])),
        84..=87 => format!("{} {}", num(rng), rng.pick(DEGREES)),
        88..=90 => rng.pick(DATES).to_string(),
        91..=92 => "now".to_owned(),
        93..=95 => substance(rng, c),
        96..=97 => format!("{} of {}", rng.pick(&c.props), substance(rng, c)),
        _ => format!("{} {}^{}", num(rng), unit(rng, c), rng.below(4)),
    }
}

fn expr(rng: &mut Rng, c: &Corpus, st: &GenState, depth: usize, p_ans: usize) -> String {
    if depth == 0 || rng.chance(25) {
        return atom(rng, c, st, p_ans);
    }
    let d = depth - 1;
    match rng.below(100) {
        0..=11 => format!("{} + {}", expr(rng, c, st, d, p_ans), expr(rng, c, st, d, p_ans)),
        12..=21 => format!("{} - {}", expr(rng, c, st, d, p_ans), expr(rng, c, st, d, p_ans)),
        22..=31 => format!("{} * {}", expr(rng, c, st, d, p_ans), expr(rng, c, st, d, p_ans)),
        32..=41 => format!("{} / {}", expr(rng, c, st, d, p_ans), expr(rng, c, st, d, p_ans)),
        42..=49 => format!("{} {}", expr(rng, c, st, d, p_ans), expr(rng, c, st, d, p_ans)),
        50..=55 => format!("({})", expr(rng, c, st, d, p_ans)),
        56..=59 => format!("-{}", expr(rng, c, st, d, p_ans)),
        60..=66 => {
            // exponent: small literal; base never a big ans
            let base = atom(rng, c, st, if st.small { p_ans } else { 0 });
            let e = rng.pick(&["2", "3", "-1", "0", "1", "0.5", "(1/2)", "(1/3)", "-2", "1.5", "10"]);
            format!("{}^{}", base, e)
        }
        67..=76 => format!("{}({})", rng.pick(FUNCS), expr(rng, c, st, d, p_ans)),
        77..=78 => format!("{} {}", rng.pick(FUNCS), atom(rng, c, st, p_ans)),
        79..=81 => format!(
            "{}({}, {})",
            rng.pick(FUNCS2),
            expr(rng, c, st, d, p_ans),
            expr(rng, c, st, d, p_ans)
        ),
        82..=85 => format!("{} mod {}", expr(rng, c, st, d, p_ans), expr(rng, c, st, d, p_ans)),
        86..=89 => format!(
            "{} {} {}",
            expr(rng, c, st, d, p_ans),
            rng.pick(&["and", "or", "xor"]),
            expr(rng, c, st, d, p_ans)
        ),
        90..=92 => format!(
            "{} {} {}",
            expr(rng, c, st, d, p_ans),
            rng.pick(&["<<", ">>"]),
            rng.below(70)
        ),
        93..=95 => format!("{} {}", expr(rng, c, st, d, p_ans), rng.pick(DEGREES)),
        96..=97 => format!("{} = {}", unit(rng, c), expr(rng, c, st, d, p_ans)),
        _ => format!("{} of {}", rng.pick(&c.props), expr(rng, c, st, d, p_ans)),
    }
}

fn conv_target(rng: &mut Rng, c: &Corpus, st: &GenState) -> String {
    let fmt = |rng: &mut Rng| -> String {
        let d = match rng.below(8) {
            0 => "digits".to_owned(),
            1 => format!("digits {}", rng.pick(&[0usize, 1, 2, 5, 10, 50, 100, 1000])),
            2 => rng.pick(&["frac", "fraction", "ratio"]).to_string(),
            3 => rng.pick(&["sci", "scientific"]).to_string(),
            4 => rng.pick(&["eng", "engineering"]).to_string(),
            _ => String::new(),
        };
        let b = match rng.below(8) {
            0 => format!("base {}", rng.pick(&[0usize, 1, 2, 3, 7, 10, 12, 16, 36, 37, 256])),
            1 => rng.pick(&["hex", "hexadecimal", "base16"]).to_string(),
            2 => rng.pick(&["oct", "octal", "base8"]).to_string(),
            3 => rng.pick(&["bin", "binary", "base2"]).to_string(),
            _ => String::new(),
        };
        format!("{} {}", d, b).trim().to_owned()
    };
    match rng.below(100) {
        0..=24 => unit(rng, c),
        25..=34 => expr(rng, c, st, 1, 10),
        35..=49 => fmt(rng),
        50..=59 => format!("{} {}", fmt(rng), unit(rng, c)),
        60..=67 => {
            let n = 2 + rng.below(3);
            let sep = *rng.pick(&[";", ",", "; ", " , "]);
            let lists: &[&[&str]] = &[
                &["hour", "min", "sec"],
                &["year", "week", "day", "hour"],
                &["ft", "inch"],
                &["lb", "oz"],
                &["m", "cm", "mm"],
                &["mile", "yard", "foot"],
                &["kg", "g"],
                &["m", "s"],
                &["ans", "m"],
                &["byte", "bit"],
            ];
            if rng.chance(70) {
                rng.pick(lists).join(sep)
            } else {
                (0..n).map(|_| unit(rng, c)).collect::<Vec<_>>().join(sep)
            }
        }
        68..=75 => rng.pick(DEGREES).to_string(),
        76..=79 => format!("{} {}", fmt(rng), rng.pick(DEGREES)),
        80..=86 => rng.pick(TZS).to_string(),
        87..=90 => rng.pick(OFFSETS).to_string(),
        91..=94 => substance(rng, c),
        95..=96 => String::new(),
        _ => alias(rng).to_string(),
    }
}

fn garbage(rng: &mut Rng) -> String {
    const PIECES: &[&str] = &[
        "(", ")", "+", "-", "*", "/", "^", "|", "->", "=", ",", ";", ":", "%", "'", "\"", "#",
        "\\", "\\u", "\\u41", "\\uzz", "\\u110000", "//", "/*", "*/", "<<", ">>", "<", ">", "**",
        "1", "2", ".", "..", "1.", "1e", "0x", "0o", "0b", "0b2", "0o9", "0xg", "m", "s", "ans",
        "_", "to", "in", "per", "of", "mod", "and", "or", "xor", "units", "for", "factorize",
        "search", "digits", "base", "hex", "now", "int", "UK", " ", "  ", "\t", "\n", "°", "°C",
        "\u{2212}", "\u{2215}", "→", "\u{2009}", "é", "日本", "\u{1F600}", "\u{0}", "\u{7f}",
        "\u{feff}", "$", "@", "!", "?", "&", "~", "`", "[", "]", "{", "}", "sqrt", "log(",
        "hypot(1,", "1_", "_1", "1__2", "1\u{2009}000",
    ];
    let n = 1 + rng.below(7);
    let mut s = String::new();
    for _ in 0..n {
        s.push_str(*rng.pick(PIECES));
        if rng.chance(40) {
            s.push(' ');
        }
    }
    s
}

/// Returns (template id, query).
fn gen_query(rng: &mut Rng, c: &Corpus, st: &GenState) -> (String, String) {
    let roll = rng.below(100);
    match roll {
        0..=27 => {
            // ans in every position
            loop {
                let i = rng.below(USES.len());
                let t = USES[i];
                if t.starts_with("{S}") && !st.small {
                    continue;
                }
                if st.bits > 20000 && (t.matches("{A}").count() > 1 || t.contains('^')) {
                    continue;
                }
                return (format!("use#{}", i), fill(t, rng));
            }
        }
        28..=42 => {
            let i = rng.below(SETTERS.len());
            (format!("set#{}", i), SETTERS[i].to_owned())
        }
        43..=52 => {
            let i = rng.below(c.queries.len());
            let mut q = c.queries[i].clone();
            let mut id = format!("qrs#{}", i);
            if rng.chance(30) && st.bits < 2000 {
                // splice an alias over one numeric literal / identifier
                let toks: Vec<&str> = q.split(' ').collect();
                let k = rng.below(toks.len());
                let mut t2: Vec<String> = toks.iter().map(|s| s.to_string()).collect();
                if !t2[k].contains('^') && !toks.iter().any(|t| t.contains('^') || *t == "<<") {
                    t2[k] = alias(rng).to_string();
                    q = t2.join(" ");
                    id = format!("qrs-spliced#{}", i);
                }
            }
            (id, q)
        }
        53..=64 => {
            let d = 1 + rng.below(3);
            ("expr".to_owned(), expr(rng, c, st, d, 15))
        }
        65..=74 => {
            let arrow = *rng.pick(&["->", "→", "to", "in", " -> ", "->"]);
            let d = rng.below(2);
            (
                "conv".to_owned(),
                format!("{} {} {}", expr(rng, c, st, d, 20), arrow, conv_target(rng, c, st)),
            )
        }
        75..=81 => {
            // bare names: definition lookups and friends
            let q = match rng.below(10) {
                0..=3 => unit(rng, c),
                4 => rng.pick(&c.quantities).clone(),
                5 => substance(rng, c),
                6 => rng.pick(&c.prefixes).clone(),
                7 => rng.pick(&c.props).clone(),
                8 => format!("{}{}", rng.pick(&c.prefixes), rng.pick(&c.units)),
                _ => rng.pick(&c.docs).clone(),
            };
            ("name".to_owned(), q)
        }
        82..=86 => {
            let arg = match rng.below(6) {
                0 => rng.pick(&c.quantities).clone(),
                1 => unit(rng, c),
                2 => alias(rng).to_string(),
                3 => String::new(),
                _ => expr(rng, c, st, 1, 15),
            };
            let q = match rng.below(8) {
                0..=2 => format!("units {} {}", rng.pick(&["for", "of", ""]), arg),
                // factorize is restricted to cheap arguments; everything
                // goes through the pre-flight time-out anyway
                3..=4 => format!("factorize {}", arg),
                _ => format!("search {}", arg),
            };
            ("cmd".to_owned(), q)
        }
        87..=91 => {
            let d = rng.pick(DATES);
            let q = match rng.below(10) {
                0..=2 => d.to_string(),
                3 => format!("{} - {}", d, rng.pick(DATES)),
                4 => format!("now - {}", d),
                5 => format!("{} + {} {}", d, num(rng), rng.pick(&["s", "days", "weeks", "years", "m", ""])),
                6 => format!("{} -> {}", d, rng.pick(TZS)),
                7 => format!("{} -> {}", d, rng.pick(OFFSETS)),
                8 => format!("{} - {}", d, alias(rng)),
                _ => format!("({} - {}) -> {}", d, rng.pick(DATES), rng.pick(&["days", "year;day;hour", "s", "digits"])),
            };
            ("date".to_owned(), q)
        }
        92..=95 => {
            let s = substance(rng, c);
            let q = match rng.below(10) {
                0..=1 => s,
                2 => format!("{} of {}", rng.pick(&c.props), s),
                3 => format!("{} {} {}", num(rng), unit(rng, c), s),
                4 => format!("{} {}", s, num(rng)),
                5 => format!("{} -> {}", s, unit(rng, c)),
                6 => format!("{} {} {} -> {}", num(rng), unit(rng, c), s, rng.pick(&c.props)),
                7 => format!("{} {}", alias(rng), s),
                8 => format!("{} -> {}", s, rng.pick(&c.props)),
                _ => format!("{} of {} {} {}", rng.pick(&c.props), num(rng), unit(rng, c), s),
            };
            ("subst".to_owned(), q)
        }
        _ => ("garbage".to_owned(), garbage(rng)),
    }
}

// --------------------------------------------------------------- pre-flight

/// A scratch context on its own thread: answers "does this query terminate
/// within the time-out when `ans` is X".  Never used as an oracle.
struct Preflight {
    tx: mpsc::Sender<(Option<Number>, String)>,
    rx: mpsc::Receiver<()>,
}

impl Preflight {
    fn new(currency: bool) -> Preflight {
        let (tx, rx_in) = mpsc::channel::<(Option<Number>, String)>();
        let (tx_out, rx) = mpsc::channel::<()>();
        std::thread::Builder::new()
            .stack_size(16 << 20)
            .spawn(move || {
                let mut ctx = fresh_ctx(currency);
                ctx.save_previous_result = false;
                while let Ok((prev, q)) = rx_in.recv() {
                    ctx.previous_result = prev;
                    let _ = catch_unwind(AssertUnwindSafe(|| {
                        let r = rink_core::eval(&mut ctx, &q);
                        let _ = render(&r);
                    }));
                    if tx_out.send(()).is_err() {
                        break;
                    }
                }
            })
            .unwrap();
        Preflight { tx, rx }
    }
    fn ok(&self, prev: Option<Number>, q: &str, limit: Duration) -> bool {
        self.tx.send((prev, q.to_owned())).unwrap();
        self.rx.recv_timeout(limit).is_ok()
    }
}

// ------------------------------------------------------------------ driver

#[derive(Default)]
struct Stats {
    hashes: usize,
    histories: usize,
    queries: usize,
    proc_oracles: usize,
    timeouts: usize,
    live_panics: usize,
    ans_lookups: usize,
    templates: BTreeSet<String>,
    shapes: BTreeSet<String>,
    distinct: BTreeSet<u64>,
    findings: BTreeMap<String, usize>,
    panics: BTreeMap<String, String>,
    timeouts_q: Vec<String>,
}

struct Shared {
    stats: Mutex<Stats>,
    log: Mutex<std::fs::File>,
    next: AtomicUsize,
    pristine: Mutex<BTreeSet<String>>,
}

fn value_kind(fpr: &str) -> &'static str {
    if fpr == "None" {
        "none"
    } else if fpr.starts_with("F7ff0000000000000") {
        "+inf"
    } else if fpr.starts_with("Ffff0000000000000") {
        "-inf"
    } else if fpr.starts_with("F7ff") || fpr.starts_with("Ffff") {
        "nan"
    } else if fpr.starts_with('F') {
        if fpr.ends_with("[]") { "float" } else { "float+unit" }
    } else if fpr.len() > 400 {
        "hugerat"
    } else if fpr.ends_with("[]") {
        "rat"
    } else if fpr.ends_with("[s^1]") {
        "rat-seconds"
    } else {
        "rat+unit"
    }
}

enum Plan {
    Script(Vec<String>),
    Random(usize),
}

fn fnv(s: &str) -> u64 {
    let mut w = HashWriter(0xcbf29ce484222325, 0);
    w.write_str(s).unwrap();
    w.0
}

fn run_history(idx: usize, seed: u64, plan: Plan, oracle_mode: &str, currency: bool, sh: &Shared, corpus: &Corpus) {
    let mut rng = Rng(seed ^ (idx as u64).wrapping_mul(0xA24BAED4963EE407));
    let mut live = fresh_ctx(currency);
    let pristine = ctx_hash(&mut live);
    sh.pristine.lock().unwrap().insert(format!("{} currency={}", pristine, currency));
    live.save_previous_result = true;
    let mut flag = true;
    let mut humanize = true;
    let mut chain: Vec<ChainEntry> = vec![];
    let mut transcript: Vec<String> = vec!["!flag on".to_owned()];
    let mut pre = Preflight::new(currency);
    let mut local = Stats::default();
    local.histories = 1;
    let hash_pct = env_usize("HUNT_HASH_PCT", 3);

    let (len, script) = match plan {
        Plan::Script(s) => (s.len(), Some(s)),
        Plan::Random(n) => (n, None),
    };

    let finding = |local: &mut Stats, class: String, detail: String, transcript: &Vec<String>| {
        let n = local.findings.entry(class.clone()).or_insert(0);
        *n += 1;
        let total_before = sh.stats.lock().unwrap().findings.get(&class).cloned().unwrap_or(0);
        if total_before + *n <= 5 {
            let mut log = sh.log.lock().unwrap();
            writeln!(log, "=== FINDING [{}] history {} seed {} currency {}", class, idx, seed, currency).unwrap();
            writeln!(log, "{}", detail).unwrap();
            writeln!(log, "--- transcript (replayable)").unwrap();
            for l in transcript {
                writeln!(log, "{}", l.replace('\n', "\\n")).unwrap();
            }
            writeln!(log, "=== END").unwrap();
            log.flush().unwrap();
        }
    };

    for step in 0..len {
        // settings toggles (random histories) or script directives
        let (tid, query) = if let Some(s) = &script {
            let line = &s[step];
            if let Some(d) = line.strip_prefix('!') {
                match d {
                    "flag on" => flag = true,
                    "flag off" => flag = false,
                    "hum on" => humanize = true,
                    "hum off" => humanize = false,
                    _ => panic!("bad directive {}", d),
                }
                live.save_previous_result = flag;
                live.use_humanize = humanize;
                transcript.push(line.clone());
                continue;
            }
            ("script".to_owned(), line.clone())
        } else {
            if rng.chance(8) {
                flag = !flag;
                live.save_previous_result = flag;
                transcript.push(format!("!flag {}", if flag { "on" } else { "off" }));
            }
            if rng.chance(3) {
                humanize = !humanize;
                live.use_humanize = humanize;
                transcript.push(format!("!hum {}", if humanize { "on" } else { "off" }));
            }
            let st = GenState {
                small: ans_small(&live.previous_result),
                bits: ans_bits(&live.previous_result),
                currency,
            };
            let _ = st.currency;
            gen_query(&mut rng, corpus, &st)
        };

        // pre-flight: skip queries that do not terminate quickly
        if !pre.ok(live.previous_result.clone(), &query, Duration::from_secs(8)) {
            local.timeouts += 1;
            local.timeouts_q.push(format!("{} [ans {}]", short(&query), value_kind(&fp(&live.previous_result))));
            pre = Preflight::new(currency);
            continue;
        }

        transcript.push(query.clone());
        let prev_before_live = fp(&live.previous_result);

        // ---- the live evaluation, exactly as a frontend does it
        let t0 = Instant::now();
        let live_out = catch_unwind(AssertUnwindSafe(|| {
            let res = rink_core::eval(&mut live, &query);
            let (text, js) = render(&res);
            (text, js, reply_kind(&res).to_owned())
        }));
        let _elapsed = t0.elapsed();
        let (ltext, ljson, lkind) = match live_out {
            Ok(x) => x,
            Err(e) => {
                local.live_panics += 1;
                let m = panic_msg(e);
                local.panics.entry(short(&m)).or_insert_with(|| short(&query));
                (format!("PANIC: {}", m), "PANIC".to_owned(), "Panic".to_owned())
            }
        };
        let prev_after_live = fp(&live.previous_result);
        let now = live.now;

        // ---- the oracle
        let do_hash = step + 1 == len || rng.chance(hash_pct);
        let req = Request {
            hash: do_hash,
            currency,
            flag,
            humanize,
            secs: now.timestamp(),
            nanos: now.timestamp_subsec_nanos(),
            chain: chain.clone(),
            query: query.clone(),
        };
        let use_proc = match oracle_mode {
            "proc" => true,
            "thread" => false,
            _ => rng.chance(6),
        };
        let resp = if use_proc {
            local.proc_oracles += 1;
            oracle_in_process(&req)
        } else {
            oracle_in_thread(&req)
        };

        local.queries += 1;
        local.templates.insert(tid.clone());
        local.shapes.insert(format!(
            "{}/{}/ans={}/flag={}",
            resp.pkind,
            resp.kind,
            value_kind(&prev_before_live),
            flag
        ));
        local.distinct.insert(fnv(&query));
        if query.contains("ans") || query.contains("ANS") || query.contains('_') {
            local.ans_lookups += 1;
        }

        let ctxline = format!(
            "step {} query {:?} (template {}) flag={} humanize={} oracle={}\n  ans before: live {} | model {}\n  live   : {}\n  oracle : {}\n  ans after: live {} | model {}",
            step,
            query,
            tid,
            flag,
            humanize,
            if use_proc { "process" } else { "thread" },
            short(&prev_before_live),
            short(&resp.prev_before),
            short(&ltext),
            short(&resp.text),
            short(&prev_after_live),
            short(&resp.prev_after),
        );

        if !resp.chain_err.is_empty() {
            finding(&mut local, "HARNESS chain".to_owned(), format!("{}\n  {}", ctxline, resp.chain_err), &transcript);
        }
        if resp.prev_before != prev_before_live {
            finding(&mut local, "HARNESS model/live ans out of sync before query".to_owned(), ctxline.clone(), &transcript);
        }
        if resp.text != ltext {
            finding(&mut local, format!("REPLY text differs ({} vs oracle {})", lkind, resp.kind), ctxline.clone(), &transcript);
        }
        if resp.json != ljson {
            finding(
                &mut local,
                format!("REPLY json differs ({} vs oracle {})", lkind, resp.kind),
                format!("{}\n  live json  : {}\n  oracle json: {}", ctxline, short(&ljson), short(&resp.json)),
                &transcript,
            );
        }
        if live.save_previous_result != flag || live.use_humanize != humanize {
            finding(&mut local, "SETTINGS changed by a query".to_owned(), ctxline.clone(), &transcript);
            live.save_previous_result = flag;
            live.use_humanize = humanize;
        }
        let h = if do_hash { local.hashes += 1; ctx_hash(&mut live) } else { pristine.clone() };
        if do_hash && (h != pristine || resp.after_hash != resp.pristine_hash || resp.pristine_hash != pristine) {
            finding(
                &mut local,
                "CONTEXT dump differs from pristine".to_owned(),
                format!("{}\n  live {} pristine {} oracle-pristine {} oracle-after {}", ctxline, h, pristine, resp.pristine_hash, resp.after_hash),
                &transcript,
            );
        }
        if !flag && prev_after_live != prev_before_live {
            finding(&mut local, "ANS set while the feature is off".to_owned(), ctxline.clone(), &transcript);
        }

        // ---- the rule for `ans`
        if prev_after_live != resp.prev_after {
            let live_changed = prev_after_live != prev_before_live;
            let class = format!(
                "ANS rule: parse={} reply={} live {} but the wording says {}",
                resp.pkind,
                resp.kind,
                if live_changed { "SET ans" } else { "left ans unchanged" },
                if resp.sets_worded { "set" } else { "unchanged" },
            );
            finding(&mut local, class, ctxline.clone(), &transcript);
            // re-sync the model onto the live context
            if live_changed {
                chain.push(ChainEntry { query: query.clone(), secs: req.secs, nanos: req.nanos });
            }
        } else if prev_after_live != prev_before_live
            || (flag && resp.sets_worded)
        {
            // model and live agree that ans was (re)set by this query
            let refs_ans = {
                let toks = format!(" {} ", query);
                toks.contains("ans") || toks.contains("ANS") || toks.contains('_') || toks.contains('\\')
            };
            if !refs_ans {
                chain.clear();
            }
            chain.push(ChainEntry { query: query.clone(), secs: req.secs, nanos: req.nanos });
        }
    }

    let mut g = sh.stats.lock().unwrap();
    g.histories += local.histories;
    g.hashes += local.hashes;
    g.queries += local.queries;
    g.proc_oracles += local.proc_oracles;
    g.timeouts += local.timeouts;
    g.live_panics += local.live_panics;
    g.ans_lookups += local.ans_lookups;
    g.templates.extend(local.templates);
    g.shapes.extend(local.shapes);
    g.distinct.extend(local.distinct);
    for (k, v) in local.findings {
        *g.findings.entry(k).or_insert(0) += v;
    }
    for (k, v) in local.panics {
        g.panics.entry(k).or_insert(v);
    }
    if g.timeouts_q.len() < 40 {
        g.timeouts_q.extend(local.timeouts_q);
    }
}

fn env_usize(k: &str, d: usize) -> usize {
    std::env::var(k).ok().and_then(|v| v.parse().ok()).unwrap_or(d)
}

fn systematic_plans() -> Vec<Plan> {
    let mut plans = vec![];
    let mut rng = Rng(12345);
    for (si, s) in SETTERS.iter().enumerate() {
        // each setter gets a handful of histories, each going through a
        // slice of the USES so that every (setter, use) pair is covered
        // over `stride` histories.
        let stride = 12;
        for j in 0..env_usize("HUNT_SYS_SLICES", 4) {
            let k = (si + j) % stride;
            let mut script: Vec<String> = vec!["!flag on".into(), "7 kg".into()];
            for (ui, u) in USES.iter().enumerate() {
                if ui % stride != k {
                    continue;
                }
                if u.starts_with("{S}") {
                    // blow-up prone: only after small setters
                    script.push("3".into());
                    script.push(fill(u, &mut rng));
                    continue;
                }
                // re-establish the situation: known ans, then the setter,
                // then the use, then what `ans` is afterwards.
                script.push(s.to_string());
                script.push(fill(u, &mut rng));
            }
            // the flag: off, setter, ans, on, ans
            script.push("!flag off".into());
            script.push(s.to_string());
            script.push("ans".into());
            script.push("11 m".into());
            script.push("_".into());
            script.push("!flag on".into());
            script.push("ANS".into());
            script.push(s.to_string());
            script.push("ans".into());
            plans.push(Plan::Script(script));
        }
    }
    plans
}

#[test]
fn hunt() {
    if std::env::var("HUNT_RUN").is_err() {
        return;
    }
    std::panic::set_hook(Box::new(|_| {}));
    let n_random = env_usize("HUNT_HISTORIES", 64);
    let len = env_usize("HUNT_LEN", 200);
    let seed = env_usize("HUNT_SEED", 1) as u64;
    let threads = env_usize("HUNT_THREADS", 14);
    let systematic = env_usize("HUNT_SYSTEMATIC", 0) == 1;
    let oracle_mode = std::env::var("HUNT_ORACLE").unwrap_or_else(|_| "mixed".to_owned());
    let out = std::env::var("HUNT_OUT").unwrap_or_else(|_| "/tmp/huntout-c15".to_owned());
    let tag = std::env::var("HUNT_TAG").unwrap_or_else(|_| format!("seed{}", seed));
    let log_path = format!("{}/findings-{}.log", out, tag);

    let mut plans: Vec<Plan> = vec![];
    if systematic {
        plans.extend(systematic_plans());
    }
    for _ in 0..n_random {
        plans.push(Plan::Random(len));
    }
    let total = plans.len();
    let plans: Vec<Mutex<Option<Plan>>> = plans.into_iter().map(|p| Mutex::new(Some(p))).collect();
    let plans = Arc::new(plans);

    let sh = Arc::new(Shared {
        stats: Mutex::new(Stats::default()),
        log: Mutex::new(std::fs::File::create(&log_path).unwrap()),
        next: AtomicUsize::new(0),
        pristine: Mutex::new(BTreeSet::new()),
    });
    let corpus_ctx = fresh_ctx(true);
    let corpus = Arc::new(build_corpus(&corpus_ctx));
    eprintln!(
        "corpus: {} query.rs queries, {} units, {} base, {} prefixes, {} quantities, {} substances, {} symbols, {} props; {} setters, {} uses; {} plans",
        corpus.queries.len(), corpus.units.len(), corpus.base.len(), corpus.prefixes.len(),
        corpus.quantities.len(), corpus.substances.len(), corpus.symbols.len(), corpus.props.len(),
        SETTERS.len(), USES.len(), total
    );

    let t0 = Instant::now();
    let mut handles = vec![];
    for _ in 0..threads {
        let sh = sh.clone();
        let corpus = corpus.clone();
        let plans = plans.clone();
        let oracle_mode = oracle_mode.clone();
        handles.push(
            std::thread::Builder::new()
                .stack_size(32 << 20)
                .spawn(move || loop {
                    let i = sh.next.fetch_add(1, Ordering::SeqCst);
                    if i >= plans.len() {
                        break;
                    }
                    let plan = plans[i].lock().unwrap().take().unwrap();
                    // half of the histories run with currency loaded
                    let currency = i % 2 == 1;
                    run_history(i, seed, plan, &oracle_mode, currency, &sh, &corpus);
                    if i % 16 == 0 {
                        let g = sh.stats.lock().unwrap();
                        eprintln!(
                            "[{:>6.0}s] history {}/{} queries {} findings {:?}",
                            t0.elapsed().as_secs_f64(), i, total, g.queries,
                            g.findings.values().sum::<usize>()
                        );
                    }
                })
                .unwrap(),
        );
    }
    for h in handles {
        h.join().unwrap();
    }

    let g = sh.stats.lock().unwrap();
    let mut rep = String::new();
    writeln!(rep, "==== C15 hunt summary (tag {}, seed {}, oracle {}) in {:.0}s", tag, seed, oracle_mode, t0.elapsed().as_secs_f64()).unwrap();
    writeln!(rep, "histories {} queries {} (oracle in fresh process: {}) distinct query strings {} templates {} shapes(parse/reply/ans-kind/flag) {}",
        g.histories, g.queries, g.proc_oracles, g.distinct.len(), g.templates.len(), g.shapes.len()).unwrap();
    writeln!(rep, "context Debug-dump comparisons {} ; queries mentioning an alias {} ; pre-flight time-outs {} ; live panics {}", g.hashes, g.ans_lookups, g.timeouts, g.live_panics).unwrap();
    writeln!(rep, "pristine context hashes: {:?}", sh.pristine.lock().unwrap()).unwrap();
    writeln!(rep, "findings by class:").unwrap();
    for (k, v) in &g.findings {
        writeln!(rep, "  {:>7}  {}", v, k).unwrap();
    }
    writeln!(rep, "panics (message -> first query):").unwrap();
    for (k, v) in &g.panics {
        writeln!(rep, "  {} <- {:?}", k, v).unwrap();
    }
    writeln!(rep, "time-outs (sample):").unwrap();
    for q in g.timeouts_q.iter().take(40) {
        writeln!(rep, "  {:?}", q).unwrap();
    }
    writeln!(rep, "shapes:").unwrap();
    for s in &g.shapes {
        writeln!(rep, "  {}", s).unwrap();
    }
    println!("{}", rep);
    std::fs::write(format!("{}/summary-{}.txt", out, tag), &rep).unwrap();
    // leaked pre-flight threads may still be spinning
    std::process::exit(0);
}

/// Replays a transcript (one query per line, `!flag on|off`, `!hum on|off`,
/// `\n` for an embedded newline) and prints live vs oracle at every step.
#[test]
fn replay() {
    let path = match std::env::var("HUNT_REPLAY") {
        Ok(p) => p,
        Err(_) => return,
    };
    std::panic::set_hook(Box::new(|_| {}));
    let currency = env_usize("HUNT_CURRENCY", 0) == 1;
    let proc_oracle = std::env::var("HUNT_ORACLE").map(|m| m == "proc").unwrap_or(true);
    let text = std::fs::read_to_string(path).unwrap();
    let mut live = fresh_ctx(currency);
    let (mut flag, mut humanize) = (false, true);
    let mut chain: Vec<ChainEntry> = vec![];
    for line in text.lines() {
        if let Some(d) = line.strip_prefix('!') {
            match d {
                "flag on" => flag = true,
                "flag off" => flag = false,
                "hum on" => humanize = true,
                "hum off" => humanize = false,
                _ => panic!("bad directive"),
            }
            live.save_previous_result = flag;
            live.use_humanize = humanize;
            println!("{}", line);
            continue;
        }
        let query = line.replace("\\n", "\n");
        let before = fp(&live.previous_result);
        let out = catch_unwind(AssertUnwindSafe(|| {
            let res = rink_core::eval(&mut live, &query);
            render(&res)
        }));
        let (ltext, ljson) = out.unwrap_or_else(|e| (format!("PANIC: {}", panic_msg(e)), "PANIC".into()));
        let now = live.now;
        let req = Request {
            hash: false,
            currency,
            flag,
            humanize,
            secs: now.timestamp(),
            nanos: now.timestamp_subsec_nanos(),
            chain: chain.clone(),
            query: query.clone(),
        };
        let resp = if proc_oracle { oracle_in_process(&req) } else { oracle_in_thread(&req) };
        let after = fp(&live.previous_result);
        println!("> {:?}   [flag {}]", query, flag);
        println!("    live   : {}", short(&ltext));
        println!("    oracle : {}", short(&resp.text));
        println!("    ans    : live {} -> {} | model {} -> {}", short(&before), short(&after), short(&resp.prev_before), short(&resp.prev_after));
        let mut verdict = vec![];
        if ltext != resp.text { verdict.push("REPLY TEXT DIFFERS"); }
        if ljson != resp.json { verdict.push("REPLY JSON DIFFERS"); }
        if before != resp.prev_before { verdict.push("(model out of sync before)"); }
        if after != resp.prev_after { verdict.push("ANS DIFFERS FROM THE WORDED MODEL"); }
        if !verdict.is_empty() {
            println!("    ** {}", verdict.join("; "));
        }
        // follow the live context
        if after != before || (after == resp.prev_after && flag && resp.sets_worded) {
            chain.push(ChainEntry { query, secs: req.secs, nanos: req.nanos });
        }
    }
}

#[test]
fn timing() {
    if std::env::var("HUNT_TIMING").is_err() {
        return;
    }
    let t = Instant::now();
    let mut c = fresh_ctx(false);
    println!("fresh_ctx(false) {:?}", t.elapsed());
    let t = Instant::now();
    let mut c2 = fresh_ctx(true);
    println!("fresh_ctx(true) {:?}", t.elapsed());
    let t = Instant::now();
    let h = ctx_hash(&mut c);
    println!("ctx_hash {:?} {}", t.elapsed(), h);
    let t = Instant::now();
    let h = ctx_hash(&mut c2);
    println!("ctx_hash(currency) {:?} {}", t.elapsed(), h);
    let t = Instant::now();
    let r = rink_core::eval(&mut c, "factorize velocity");
    println!("factorize velocity {:?} {}", t.elapsed(), r.is_ok());
}
