// Minimal, harness-free reproduction of the two C15 `ans`-rule deviations.
// Install as core/tests/repro_c15.rs; run with
//   cargo test -p rink-core --features bundle-files --release --offline --test repro_c15 -- --nocapture
fn show(ctx: &mut rink_core::Context, q: &str) -> String {
    let r = rink_core::one_line(ctx, q).unwrap_or_else(|e| format!("ERR {}", e));
    println!("  > {:<12} => {:<40} | stored ans = {:?}", q, r, ctx.previous_result);
    r
}

#[test]
fn duration_result_does_not_become_ans() {
    let mut ctx = rink_core::simple_context().unwrap();
    ctx.save_previous_result = true;
    show(&mut ctx, "7 kg");
    assert_eq!(show(&mut ctx, "2 hours"), "2 hour, 0 second (time)");
    // C15 as worded: ans is the most recent successful numeric result of a
    // plain expression, i.e. 7200 s.  Actual: still 7 kg.
    assert_eq!(show(&mut ctx, "ans * 2"), "14 kilogram (mass)");
    // a fresh context whose previous answer is "2 hours" would say:
    let mut fresh = rink_core::simple_context().unwrap();
    fresh.previous_result = match fresh.eval(&rink_core::ast::Expr::new_mul(vec![
        rink_core::ast::Expr::new_const(rink_core::types::Numeric::from(2)),
        rink_core::ast::Expr::new_unit("hours".to_owned()),
    ])).unwrap() { rink_core::Value::Number(n) => Some(n), _ => unreachable!() };
    assert_eq!(show(&mut fresh, "ans * 2"), "4 hour, 0 second (time)");
}

#[test]
fn empty_conversion_sets_ans() {
    let mut ctx = rink_core::simple_context().unwrap();
    ctx.save_previous_result = true;
    show(&mut ctx, "7 kg");
    show(&mut ctx, "5 ft -> m"); // a real conversion: ans stays 7 kg
    assert_eq!(show(&mut ctx, "ans"), "7 kilogram (mass)");
    show(&mut ctx, "5 ft ->"); // degenerate conversion (also `5 ft to`, `5 ft in`): sets ans
    assert_eq!(show(&mut ctx, "ans"), "1.524 meter (length)");
    show(&mut ctx, "meter"); // definition lookup: ans unchanged
    assert_eq!(show(&mut ctx, "ans"), "1.524 meter (length)");
    show(&mut ctx, "meter ->"); // same lookup spelled as an empty conversion: sets ans
    assert_eq!(show(&mut ctx, "ans"), "1 meter (length)");
}
