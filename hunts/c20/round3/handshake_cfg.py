#!/usr/bin/env python3
"""Valid config values that might not survive the parent->child handshake (bincode + humantime strings)."""
import sys, os
sys.path.insert(0, '/tmp/hunt4out-c20')
from drive import *

variants = [
    dict(timeout='1ns'), dict(timeout='1h 1m 1s 1ms 1us 1ns'), dict(cache_duration='1ns'),
    dict(cache_duration='500000000000years'), dict(cache_duration='1month 1day'), dict(cache_duration='1.5h') ,
    dict(extra_limits='memory = "1GiB"\n'), dict(extra_limits='memory = "20.5MB"\n'), dict(extra_limits='memory = 30000000\n'),
    dict(extra_limits='timeout = "1year"\n'),
    dict(extra='[rink]\nprompt = "\\u0001\\u0000> "\nlong_output = true\n'),
    dict(extra='[colors]\nenabled = true\ntheme = "my"\n[themes.my]\nplain = "red bold"\nerror = "rgb(1,2,3) italic"\nunit = "#ff00ff under"\n'),
]
for v in variants:
    for mode in ('status_500', 'ok'):
        try:
            base, e, prior = setup('hs', cfg(mode, sandbox=True, port=3903, **v), 'stale')
        except Exception as ex:
            print('setup failed', v, ex); continue
        r = run(base, e, how='sandbox', to=30)
        f, eur = summarize(r)
        print('%-70s %-10s rc=%s foot=%s eur=%s cache=%s' % (v, mode, r['rc'], f, eur, classify_cache(base, prior)))
        if not f:
            print('   out', repr(r['out'][-200:]), '\n   err', repr(r['err'][-400:]))
