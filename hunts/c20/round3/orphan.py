#!/usr/bin/env python3
import sys, time, os, subprocess, signal
sys.path.insert(0, '/tmp/hunt4out-c20')
from drive import *

for second in ('stallafter_3000', 'slowok_30'):
    base, e, prior = setup('or', cfg('status_500@%s/o%d' % (second, os.getpid()), sandbox=True, port=3903, timeout='5s'), 'stale')
    p = subprocess.Popen([RINK], stdin=subprocess.PIPE, stdout=subprocess.PIPE, stderr=subprocess.PIPE, env=e, cwd=base + '/cwd')
    time.sleep(1.8)
    kids = subprocess.run(['pgrep', '-P', str(p.pid)], capture_output=True, text=True).stdout.split()
    p.kill(); p.wait()
    t0 = time.time()
    while any(os.path.exists('/proc/' + k) for k in kids) and time.time() - t0 < 15:
        time.sleep(0.1)
    print('child gets', second, 'kids', kids, 'orphan lived %.1f s after kill -9 of the parent' % (time.time() - t0),
          'cache', classify_cache(base, prior), 'left', leftovers(base), 'later', later_start(base, e, {}))
