#!/usr/bin/env python3
import sys, time, os, subprocess, signal
sys.path.insert(0, '/tmp/hunt4out-c20')
from drive import *

for how in ('args', 'sandbox'):
    for t in ('0s', '999us', '1ms'):
        base, e, prior = setup('zt', cfg('stall', sandbox=(how == 'sandbox'), port=3903, timeout=t), 'stale')
        r = run(base, e, how=how, to=12)
        print(how, 'timeout=%s' % t, 'stall ->', 'rc', r['rc'], 'dt %.1f' % r['dt'], summarize(r), classify_cache(base, prior), leftovers(base))

# parent gets a quick failure, the child a stalling server, timeout = 0s: does a query ever get answered; orphan after kill -9 of the parent?
base, e, prior = setup('zt', cfg('status_500@stall/z%d' % os.getpid(), sandbox=True, port=3903, timeout='0s'), 'stale')
p = subprocess.Popen([RINK], stdin=subprocess.PIPE, stdout=subprocess.PIPE, stderr=subprocess.PIPE, env=e, cwd=base + '/cwd')
p.stdin.write(b'3 foot -> meter\n'); p.stdin.flush()
time.sleep(8)
kids = subprocess.run(['pgrep', '-P', str(p.pid)], capture_output=True, text=True).stdout.split()
print('after 8 s: parent alive', p.poll() is None, 'kids', kids)
p.kill(); p.wait()
print('stdout so far:', repr(p.stdout.read()))
time.sleep(5)
alive = [k for k in kids if os.path.exists('/proc/' + k)]
print('5 s after kill -9 of the parent: orphaned children alive:', alive, 'left', leftovers(base))
for k in alive:
    os.kill(int(k), signal.SIGKILL)
