#!/usr/bin/env python3
"""Unusual cache path states, sandboxed mode."""
import sys, json, os, shutil
sys.path.insert(0, '/tmp/hunt4out-c20')
from drive import *


def prep(kind, base):
    d = base + '/cache/rink'
    p = d + '/currency.json'
    if kind == 'dir-is-file':
        shutil.rmtree(d); open(d, 'w').write('x')
    elif kind == 'json-is-dir-stale':
        os.remove(p); os.mkdir(p); os.utime(p, (1, 1))
    elif kind == 'json-is-dir-fresh':
        os.remove(p); os.mkdir(p)
    elif kind == 'symlink-to-old':
        os.remove(p); open(base + '/elsewhere.json', 'wb').write(OLD); os.utime(base + '/elsewhere.json', (1, 1)); os.symlink(base + '/elsewhere.json', p)
    elif kind == 'dangling-symlink':
        os.remove(p); os.symlink(base + '/nowhere.json', p)
    elif kind == 'readonly-file':
        os.chmod(p, 0o444)
    elif kind == 'cachehome-is-file':
        shutil.rmtree(base + '/cache'); open(base + '/cache', 'w').write('x')
    elif kind == 'mtime-epoch0':
        os.utime(p, (0, 0))
    elif kind == 'mtime-far-future':
        os.utime(p, (2**33, 2**33))
    elif kind == 'many-leftovers':
        for i in range(200):
            open(d + '/currency.%06d.json' % i, 'wb').write(OLD[:100])


for kind in ('dir-is-file', 'json-is-dir-stale', 'json-is-dir-fresh', 'symlink-to-old', 'dangling-symlink', 'readonly-file',
             'cachehome-is-file', 'mtime-epoch0', 'mtime-far-future', 'many-leftovers'):
    for mode in ('status_500', 'cutnocl_3000', 'ok'):
        base, e, prior = setup('wc', cfg(mode, sandbox=True, port=3903), 'stale')
        prep(kind, base)
        r = run(base, e, how='sandbox', to=30)
        p = base + '/cache/rink/currency.json'
        state = 'link->' + os.readlink(p) if os.path.islink(p) else ('dir' if os.path.isdir(p) else classify_cache(base, prior))
        extra = ''
        if kind == 'symlink-to-old':
            extra = ' elsewhere=' + ('old' if open(base + '/elsewhere.json', 'rb').read() == OLD else 'CHANGED')
        print('%-20s %-13s rc=%s dt=%.1f %s cache=%s left=%d%s' % (kind, mode, r['rc'], r['dt'], summarize(r), state,
              len(leftovers(base)) if os.path.isdir(base + '/cache/rink') else -1, extra))
        if not summarize(r)[0]:
            print('   out', repr(r['out'][-200:]), 'err', repr(r['err'][-300:]))
