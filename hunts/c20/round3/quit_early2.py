#!/usr/bin/env python3
"""The user types quit while the sandbox child is still refreshing (parent already done)."""
import sys, time, os, subprocess
sys.path.insert(0, '/tmp/hunt4out-c20')
from drive import *

for mode in ('stallafter_3000', 'drip_20'):
    base, e, prior = setup('q2', cfg(mode, sandbox=True, port=3902), 'stale')
    for i in range(3):
        p = subprocess.Popen([RINK], stdin=subprocess.PIPE, stdout=subprocess.PIPE, stderr=subprocess.PIPE, env=e, cwd=base + '/cwd')
        time.sleep(3.6)   # parent: 0.35 s definitions + 2 s refresh timeout; child started at about 2.4 s, downloading from about 2.8 s
        kids = subprocess.run(['pgrep', '-P', str(p.pid)], capture_output=True, text=True).stdout.split()
        p.stdin.write(b'quit\n'); p.stdin.close()
        rc = p.wait(timeout=20)
        time.sleep(0.3)
        print(mode, 'rc', rc, 'kids', kids, 'alive after', [k for k in kids if os.path.exists('/proc/' + k)],
              'cache', classify_cache(base, prior), 'left', leftovers(base))
