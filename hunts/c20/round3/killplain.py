#!/usr/bin/env python3
"""kill -9 of plain-mode rink / rink --fetch-currency at random instants."""
import sys, random, subprocess, time, os
sys.path.insert(0, '/tmp/hunt4out-c20')
from drive import *

N = int(sys.argv[1]); rnd = random.Random(int(sys.argv[2]))
bad = 0; counts = {}
for i in range(N):
    mode = rnd.choice(['drip_5', 'ok', 'oknocl', 'drip_2', 'chunkok', 'cutnocl_3000'])
    cs = rnd.choice(['stale', 'absent', 'garbage', 'future'])
    how = rnd.choice(['args', 'fetch'])
    base, e, prior = setup('kp', cfg(mode, sandbox=False, port=3903), cs)
    argv = [RINK, '--fetch-currency'] if how == 'fetch' else [RINK, '3 foot -> meter', '1 EUR -> USD']
    p = subprocess.Popen(argv, stdout=subprocess.PIPE, stderr=subprocess.PIPE, env=e, cwd=base + '/cwd')
    delay = rnd.uniform(0.0, 0.5) if how == 'fetch' else rnd.uniform(0.3, 1.2)
    time.sleep(delay)
    done = p.poll() is not None
    p.kill(); p.wait()
    cache = classify_cache(base, prior); left = leftovers(base)
    later = later_start(base, e, {})
    problems = []
    if not (cache.startswith('prior') or cache == 'new' or (cache == 'absent' and cs == 'absent')):
        problems.append('CACHE')
    if not later[0]:
        problems.append('LATER-NOFOOT')
    if cache == 'new' and later[1] != 'new':
        problems.append('LATER')
    if cache.startswith('prior(=old)') and later[1] != 'old':
        problems.append('LATER')
    k = (how, 'finished' if done else 'killed', cache.split('(')[0], 'left' if left else 'noleft')
    counts[k] = counts.get(k, 0) + 1
    if problems:
        bad += 1
        print('!!', i, mode, cs, how, delay, cache, left, later, problems, flush=True)
print('done', N, 'flagged', bad)
for k in sorted(counts):
    print(k, counts[k])
