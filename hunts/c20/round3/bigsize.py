#!/usr/bin/env python3
"""How large may a (valid, fresh) currency cache be before the sandbox child (default memory = 20MB) dies at start-up?"""
import sys, json, os
sys.path.insert(0, '/tmp/hunt4out-c20')
from drive import *

old = json.loads(NEW)
for n in (2000, 5000, 10000, 15000, 20000, 30000):
    extra = [{"name": "ZZ%07d" % i, "doc": "pad " * 20, "category": "currencies", "type": "unit", "expr": "(1 / %d.5) EUR" % (i + 1)} for i in range(n)]
    s = json.dumps(old + extra).encode()
    base, e, prior = setup('bs', cfg('ok', sandbox=True, port=3999), 'fresh')
    open(base + '/cache/rink/currency.json', 'wb').write(s)
    r = run(base, e, how='sandbox', to=60)
    print('entries', n, 'bytes', len(s), 'sandbox ->', summarize(r), 'rc', r['rc'], repr(r['out'][:60]))
