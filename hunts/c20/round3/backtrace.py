#!/usr/bin/env python3
"""RUST_BACKTRACE=1 (which rink's own failure report invites the user to set) with a failed refresh."""
import sys, time, os, subprocess, signal
sys.path.insert(0, '/tmp/hunt4out-c20')
from drive import *

rink = sys.argv[1] if len(sys.argv) > 1 else RINK
import drive
drive.RINK = rink
for bt in ('0', '1', 'full'):
    for how, mode, cs in (('sandbox', 'status_500', 'stale'), ('sandbox', 'status_500', 'absent'), ('sandbox', 'ok', 'stale'),
                          ('sandbox', 'ok', 'fresh'), ('args', 'status_500', 'stale')):
        base, e, prior = setup('bt', cfg(mode, sandbox=(how == 'sandbox'), port=3903), cs)
        e['RUST_BACKTRACE'] = bt
        r = run(base, e, how=how, to=60)
        print('RUST_BACKTRACE=%-4s %-7s %-10s cache=%-6s -> rc=%s dt=%.1f %s cache-after=%s' % (
            bt, how, mode, cs, r['rc'], r['dt'], summarize(r), classify_cache(base, prior)))
        if not summarize(r)[0]:
            print('   stdout:', repr(r['out'][-300:]))
            print('   stderr tail:', repr(r['err'][-500:]))
