#!/usr/bin/env python3
"""User override files in the config dir whose parsing prints a warning on stdout."""
import sys, os
sys.path.insert(0, '/tmp/hunt4out-c20')
from drive import *

CUR = open('/tmp/hunt4wt-c20/core/currency.units', 'rb').read()
cases = {
    'definitions.units extra file with a stray directive': {'config/rink/definitions.units': b'myunit 3 meter\n!bogus\n'},
    'definitions.units extra file, clean': {'config/rink/definitions.units': b'myunit 3 meter\n'},
    'datepatterns.txt with a bad line': {'config/rink/datepatterns.txt': b"year-monthnum-fullday\n['bad\n"},
    'currency.units with a stray directive': {'config/rink/currency.units': CUR + b'\n!bogus\n'},
    'currency.units with a stray directive in cwd': {'cwd/currency.units': CUR + b'\n!bogus\n'},
}
for name, files in cases.items():
    for how in ('args', 'sandbox'):
        for mode, cs in (('status_500', 'stale'), ('ok', 'stale')):
            base, e, prior = setup('ov', cfg(mode, sandbox=(how == 'sandbox'), port=3903), cs, extra_files=files)
            r = run(base, e, how=how, to=12)
            print('%-52s %-7s %-10s rc=%-7s %s cache=%s' % (name, how, mode, r['rc'], summarize(r), classify_cache(base, prior)))
            if r['rc'] != 0:
                print('     out=%r' % r['out'][:200])
