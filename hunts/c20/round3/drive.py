#!/usr/bin/env python3
"""Drive the real rink binary over a matrix of config x cache x server cases."""
import os, subprocess, sys, time, shutil, glob, json, itertools

ROOT = '/tmp/hunt4out-c20'
RINK = '/tmp/hunt4wt-c20/target/debug/rink'
PORT = 3901
OLD = open(ROOT + '/old.json', 'rb').read()
NEW = open(ROOT + '/new.json', 'rb').read()


def env_for(tag):
    base = '%s/run/%s' % (ROOT, tag)
    e = dict(os.environ)
    e.update(XDG_CACHE_HOME=base + '/cache', XDG_CONFIG_HOME=base + '/config',
             XDG_DATA_HOME=base + '/data', HOME=base + '/home', NO_COLOR='1',
             RUST_BACKTRACE='0')
    return base, e


def setup(tag, cfg_text, cache_state, extra_files=None):
    base, e = env_for(tag)
    shutil.rmtree(base, ignore_errors=True)
    for d in ('cache/rink', 'config/rink', 'data', 'home', 'cwd'):
        os.makedirs('%s/%s' % (base, d))
    open(base + '/config/rink/config.toml', 'w').write(cfg_text)
    p = base + '/cache/rink/currency.json'
    now = time.time()
    prior = None
    if cache_state == 'absent':
        pass
    elif cache_state == 'fresh':
        prior = OLD
    elif cache_state == 'stale':
        prior = OLD
    elif cache_state == 'future':
        prior = OLD
    elif cache_state == 'garbage':
        prior = b'this is not json {{{'
    elif cache_state == 'garbage_fresh':
        prior = b'this is not json {{{'
    elif cache_state == 'empty':
        prior = b''
    elif cache_state == 'truncated':
        prior = OLD[:3000]
    elif cache_state == 'truncated_fresh':
        prior = OLD[:3000]
    elif cache_state == 'wrongshape':
        prior = b'{"rates": {"USD": 1.5}}'
    elif cache_state == 'nodir':
        shutil.rmtree(base + '/cache/rink')
    elif cache_state == 'nocachehome':
        shutil.rmtree(base + '/cache')
    else:
        raise ValueError(cache_state)
    if prior is not None:
        open(p, 'wb').write(prior)
        if cache_state in ('stale', 'garbage', 'empty', 'truncated', 'wrongshape'):
            os.utime(p, (now - 3 * 3600, now - 3 * 3600))
        elif cache_state == 'future':
            os.utime(p, (now + 3 * 3600, now + 3 * 3600))
    for name, content in (extra_files or {}).items():
        fp = base + '/' + name
        os.makedirs(os.path.dirname(fp), exist_ok=True)
        open(fp, 'wb').write(content)
    return base, e, prior


def cfg(mode, sandbox=True, fetch=True, cache_duration='1h', enabled=True, timeout='2s',
        port=PORT, extra_limits='', extra=''):
    s = ''
    if sandbox:
        s += '[limits]\nenabled = true\n' + extra_limits
    s += '[currency]\nendpoint = "http://127.0.0.1:%d/%s/currency.json"\ntimeout = "%s"\n' % (port, mode, timeout)
    s += 'fetch_on_startup = %s\ncache_duration = "%s"\nenabled = %s\n' % (
        'true' if fetch else 'false', cache_duration, 'true' if enabled else 'false')
    return s + extra


def classify_cache(base, prior):
    p = base + '/cache/rink/currency.json'
    try:
        b = open(p, 'rb').read()
    except (FileNotFoundError, NotADirectoryError):
        return 'absent'
    if prior is not None and b == prior:
        return 'prior' + ('(=old)' if b == OLD else '')
    if b == NEW:
        return 'new'
    if b == OLD:
        return 'old'
    try:
        json.loads(b)
        return 'OTHER-valid-json(%d)' % len(b)
    except Exception:
        return 'OTHER-INVALID(%d)' % len(b)


def leftovers(base):
    d = base + '/cache/rink'
    if not os.path.isdir(d):
        return []
    return sorted(x for x in os.listdir(d) if x != 'currency.json')


def rink_procs(base):
    out = subprocess.run(['pgrep', '-af', 'hunt4wt-c20/target/debug/rink'], capture_output=True, text=True).stdout
    return [l for l in out.splitlines() if l.strip()]


def run(base, e, how='sandbox', stdin_text='3 foot -> meter\n1 EUR -> USD\nquit\n', to=25, args=None):
    if how in ('sandbox', 'stdin'):
        argv = [RINK]
    elif how == 'args':
        argv = [RINK, '3 foot -> meter', '1 EUR -> USD']
        stdin_text = ''
    elif how == 'fetch':
        argv = [RINK, '--fetch-currency']
        stdin_text = ''
    elif how == 'file':
        argv = [RINK, '-f', '-']
    if args:
        argv = [RINK] + args
    t0 = time.time()
    try:
        r = subprocess.run(argv, input=stdin_text.encode(), capture_output=True, env=e,
                           cwd=base + '/cwd', timeout=to)
        rc, out, err = r.returncode, r.stdout.decode('utf8', 'replace'), r.stderr.decode('utf8', 'replace')
    except subprocess.TimeoutExpired as ex:
        rc, out, err = 'TIMEOUT', (ex.stdout or b'').decode('utf8', 'replace'), (ex.stderr or b'').decode('utf8', 'replace')
    return dict(rc=rc, out=out, err=err, dt=time.time() - t0)


def summarize(res):
    out = res['out']
    foot = '0.9144 meter' in out
    if '1.0852 USD' in out:
        eur = 'old'
    elif '1.2345 USD' in out:
        eur = 'new'
    elif 'No such unit EUR' in out or 'No such unit USD' in out:
        eur = 'nounit'
    else:
        eur = '?'
    return foot, eur


def later_start(base, e, mode_cfg_kwargs):
    """a later, plain start with fetch_on_startup=false: what does it see?"""
    open(base + '/config/rink/config.toml', 'w').write(cfg('ok', sandbox=False, fetch=False, port=3999))
    r = run(base, e, how='args')
    return summarize(r)


def case(tag, mode, cache_state, how='sandbox', **kw):
    sandbox = how == 'sandbox'
    extra_files = kw.pop('extra_files', None)
    stdin_text = kw.pop('stdin_text', '3 foot -> meter\n1 EUR -> USD\nquit\n')
    to = kw.pop('to', 25)
    base, e, prior = setup(tag, cfg(mode, sandbox=sandbox, **kw), cache_state, extra_files)
    rlog = ROOT + ('/requests2.log' if kw.get('port') == 3902 else '/requests.log')
    nreq0 = sum(1 for _ in open(rlog)) if os.path.exists(rlog) else 0
    res = run(base, e, how=how, stdin_text=stdin_text, to=to)
    time.sleep(0.05)
    nreq = sum(1 for _ in open(rlog)) - nreq0
    foot, eur = summarize(res)
    cache = classify_cache(base, prior)
    left = leftovers(base)
    later = later_start(base, e, kw)
    return dict(tag=tag, mode=mode, cache_state=cache_state, how=how, kw=kw, rc=res['rc'], dt=round(res['dt'], 2),
                foot=foot, eur=eur, cache=cache, left=left, later=later, nreq=nreq,
                out=res['out'], err=res['err'])


def short(r):
    return '%-34s %-14s %-8s rc=%-7s dt=%-5s foot=%-5s eur=%-6s cache=%-18s nreq=%d later=%s left=%s' % (
        r['mode'] + ' ' + ','.join('%s=%s' % kv for kv in r['kw'].items()), r['cache_state'], r['how'], r['rc'], r['dt'], r['foot'], r['eur'],
        r['cache'], r['nreq'], r['later'], r['left'])


if __name__ == '__main__':
    pass
