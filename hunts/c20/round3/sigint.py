#!/usr/bin/env python3
"""Ctrl-C (SIGINT to the whole foreground process group, as a terminal does) while the
sandbox child is still busy with its (failing) refresh."""
import sys, time, os, subprocess, signal
sys.path.insert(0, '/tmp/hunt4out-c20')
from drive import *

for mode, when in (('stall', 3.2), ('stall', 6.0), ('status_500', 3.2)):
    base, e, prior = setup('si', cfg(mode, sandbox=True, port=3902), 'stale')
    p = subprocess.Popen([RINK], stdin=subprocess.PIPE, stdout=subprocess.PIPE, stderr=subprocess.PIPE, env=e,
                         cwd=base + '/cwd', start_new_session=True)
    p.stdin.write(b'3 foot -> meter\n'); p.stdin.flush()
    time.sleep(when)
    kids = subprocess.run(['pgrep', '-P', str(p.pid)], capture_output=True, text=True).stdout.split()
    os.killpg(p.pid, signal.SIGINT)
    time.sleep(0.5)
    try:
        p.stdin.write(b'2 foot -> meter\n1 EUR -> USD\nquit\n'); p.stdin.close()
    except BrokenPipeError:
        print('parent gone')
    try:
        rc = p.wait(timeout=25)
    except subprocess.TimeoutExpired:
        rc = 'HANG'; p.kill()
    out = p.stdout.read().decode(); err = p.stderr.read().decode()
    print('== mode', mode, 'SIGINT at', when, 'kids', kids, 'rc', rc, 'cache', classify_cache(base, prior), 'left', leftovers(base))
    print('stdout:', repr(out))
    print('stderr tail:', repr(err[-400:]))
