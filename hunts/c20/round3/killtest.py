#!/usr/bin/env python3
"""kill -9 the parent or the sandbox child at random instants during start-up."""
import sys, random, signal, subprocess, time, os, json
sys.path.insert(0, '/tmp/hunt4out-c20')
import drive
from drive import *

drive.ROOT_LOG = None
N = int(sys.argv[1]) if len(sys.argv) > 1 else 60
seed = int(sys.argv[2]) if len(sys.argv) > 2 else 1
rnd = random.Random(seed)
MODES = ['drip_5', 'drip_5', 'oknocl', 'ok', 'cutnocl_3000', 'stallafter_3000', 'drip_20']
CACHES = ['stale', 'stale', 'absent', 'garbage', 'future']
stats = {}
bad = 0
for i in range(N):
    mode = rnd.choice(MODES)
    cs = rnd.choice(CACHES)
    victim = rnd.choice(['parent', 'child', 'child', 'both'])
    cd = rnd.choice(['1h', '0s'])
    delay = rnd.uniform(0.2, 2.6)
    base, e, prior = setup('k%d' % seed, cfg(mode, sandbox=True, port=3902, cache_duration=cd), cs)
    p = subprocess.Popen([RINK], stdin=subprocess.PIPE, stdout=subprocess.PIPE, stderr=subprocess.PIPE,
                         env=e, cwd=base + '/cwd')
    p.stdin.write(b'3 foot -> meter\n1 EUR -> USD\n')
    p.stdin.flush()
    time.sleep(delay)
    kids = subprocess.run(['pgrep', '-P', str(p.pid)], capture_output=True, text=True).stdout.split()
    killed = []
    if victim in ('child', 'both'):
        for k in kids:
            try:
                os.kill(int(k), signal.SIGKILL)
                killed.append('child')
            except ProcessLookupError:
                pass
    if victim in ('parent', 'both'):
        p.kill()
        killed.append('parent')
    out = err = b''
    hang = False
    if victim == 'child':
        try:
            p.stdin.write(b'quit\n')
            p.stdin.close()
        except BrokenPipeError:
            pass
        try:
            p.wait(timeout=20)
        except subprocess.TimeoutExpired:
            hang = True
            p.kill()
        out = p.stdout.read()
        err = p.stderr.read()
    else:
        p.wait()
        out = p.stdout.read()
        err = p.stderr.read()
    # orphans: children of the dead parent still alive after the currency timeout (2s) + margin
    time.sleep(0.2)
    alive = []
    for k in kids:
        if os.path.exists('/proc/%s' % k):
            alive.append(k)
    t_orphan = 0
    while alive and t_orphan < 6:
        time.sleep(0.5)
        t_orphan += 0.5
        alive = [k for k in alive if os.path.exists('/proc/%s' % k) and open('/proc/%s/stat' % k).read().split()[2] != 'Z']
    cache = classify_cache(base, prior)
    left = leftovers(base)
    problems = []
    if not (cache.startswith('prior') or cache == 'new' or (cache == 'absent' and cs == 'absent')):
        problems.append('CACHE')
    if hang:
        problems.append('HANG')
    if alive:
        problems.append('ORPHAN-ALIVE>6s')
    o = out.decode('utf8', 'replace')
    if victim == 'child' and not hang and '0.9144 meter' not in o:
        problems.append('NOFOOT')
    later = later_start(base, e, {})
    if not later[0]:
        problems.append('LATER-NOFOOT')
    if cache == 'new' and later[1] != 'new':
        problems.append('LATER')
    if cache.startswith('prior(=old)') and later[1] != 'old':
        problems.append('LATER')
    key = (victim, 'left' if left else 'noleft')
    stats[key] = stats.get(key, 0) + 1
    if problems:
        bad += 1
    print('%s %3d mode=%-16s cs=%-8s cd=%-3s victim=%-6s delay=%.2f kids=%d cache=%-12s left=%d orphan_s=%.1f later=%s rc=%s %s' % (
        '!!' if problems else 'ok', i, mode, cs, cd, victim, delay, len(kids), cache, len(left), t_orphan, later, p.returncode,
        ','.join(problems)), flush=True)
    if problems:
        print('   out=%r\n   err=%r' % (o[-300:], err.decode('utf8', 'replace')[-600:]), flush=True)
print('done', N, 'flagged', bad, stats)
