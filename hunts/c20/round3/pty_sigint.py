#!/usr/bin/env python3
"""Real terminal: the refresh is stalling, the user has typed a query, nothing comes back, the user presses Ctrl-C."""
import sys, time, os, pty, select, signal
sys.path.insert(0, '/tmp/hunt4out-c20')
from drive import *

mode = sys.argv[1] if len(sys.argv) > 1 else 'stall'
press = float(sys.argv[2]) if len(sys.argv) > 2 else 0.8
base, e, prior = setup('pty', cfg(mode, sandbox=True, port=3903), 'stale')
pid, fd = pty.fork()
if pid == 0:
    os.chdir(base + '/cwd')
    os.execve(RINK, [RINK], e)

buf = b''


def pump(t):
    global buf
    end = time.time() + t
    while time.time() < end:
        r, _, _ = select.select([fd], [], [], 0.1)
        if r:
            try:
                d = os.read(fd, 65536)
            except OSError:
                return False
            if not d:
                return False
            buf += d
    return True


t0 = time.time()
# wait for the prompt (parent finished its own load, about 2.4 s with a stalling server)
while b'> ' not in buf and time.time() - t0 < 15:
    pump(0.1)
print('prompt after %.1f s' % (time.time() - t0))
os.write(fd, b'3 foot -> meter\r')
pump(press)
print('pressing ctrl-c %.1f s after the query' % press)
os.write(fd, b'\x03')
pump(3.0)
os.write(fd, b'2 foot -> meter\r')
pump(1.5)
os.write(fd, b'1 EUR -> USD\r')
pump(1.5)
os.write(fd, b'quit\r')
pump(1.5)
try:
    os.kill(pid, signal.SIGKILL)
except ProcessLookupError:
    pass
os.waitpid(pid, 0)
import re
text = re.sub(rb'\x1b\[[0-9;?]*[A-Za-z]', b'', buf).decode('utf8', 'replace')
print('---- terminal transcript ----')
print(text.replace('\r', ''))
print('---- cache', classify_cache(base, prior), 'left', leftovers(base))
