#!/usr/bin/env python3
"""Sandboxed mode, config variations. Uses server2 (port 3902)."""
import sys, json, itertools
sys.path.insert(0, '/tmp/hunt4out-c20')
from drive import *

nonce = itertools.count()
out = open('/tmp/hunt4out-c20/matrix2.jsonl', 'w')
n = bad = 0


def go(mode, cs, expect, **kw):
    """expect: dict(cache=..., eur=..., nreq=..., later=...) each a set/list of allowed values or None"""
    global n, bad
    m = mode
    if '@' in mode:
        m = '%s/n%d' % (mode, next(nonce))
    r = case('m2', m, cs, how='sandbox', port=3902, **kw)
    r['mode'] = mode
    n += 1
    problems = []
    if r['rc'] == 'TIMEOUT':
        problems.append('HANG')
    if not r['foot']:
        problems.append('NOFOOT')
    if r['rc'] != 0:
        problems.append('RC')
    for k, allowed in expect.items():
        v = r[k]
        if k == 'later':
            v = v[1]
        if k == 'cache' and isinstance(v, str) and v.startswith('prior'):
            v = 'prior'
        if v not in allowed:
            problems.append('%s=%s!in%s' % (k, v, allowed))
    if r['left']:
        problems.append('LEFTOVER')
    r['problems'] = problems
    if problems:
        bad += 1
    print(('!! ' + ','.join(problems) + ' ' if problems else 'ok ') + short(r), flush=True)
    if problems:
        print('    out=%r\n    err=%r' % (r['out'][-300:], r['err'][-500:]), flush=True)
    out.write(json.dumps(r) + '\n')
    out.flush()


FAILM = ['status_500', 'stall', 'cutnocl_3000', 'rstcl_3000']
# 1. fetch_on_startup = false
for mode in FAILM:
    go(mode, 'stale', dict(cache=['prior'], eur=['old'], nreq=[0], later=['old']), fetch=False)
    go(mode, 'fresh', dict(cache=['prior'], eur=['old'], nreq=[0], later=['old']), fetch=False)
    go(mode, 'absent', dict(cache=['absent'], eur=['nounit'], later=['nounit']), fetch=False)
    go(mode, 'future', dict(cache=['prior'], eur=['old'], later=['old']), fetch=False)
    go(mode, 'garbage', dict(cache=['prior'], eur=['nounit'], later=['nounit']), fetch=False)
go('ok', 'stale', dict(cache=['prior'], eur=['old'], nreq=[0], later=['old']), fetch=False)
go('ok', 'absent', dict(cache=['new'], eur=['new'], later=['new']), fetch=False)
go('ok', 'future', dict(cache=['prior', 'new'], eur=['old', 'new']), fetch=False)

# 2. cache_duration = 0s: parent and child both refresh
for cs in ('fresh', 'stale', 'absent', 'garbage'):
    valid = cs in ('fresh', 'stale')
    go('ok', cs, dict(cache=['new'], eur=['new'], nreq=[2], later=['new']), cache_duration='0s')
    for fm in FAILM:
        go(fm, cs, dict(cache=['prior'] if cs != 'absent' else ['absent'], eur=['old'] if valid else ['nounit'], nreq=[2],
                        later=['old'] if valid else ['nounit']), cache_duration='0s')
        # parent succeeds, child fails: child must fall back to what the parent stored
        go('ok@' + fm, cs, dict(cache=['new'], eur=['new'], nreq=[2], later=['new']), cache_duration='0s')
        # parent fails, child succeeds
        go(fm + '@ok', cs, dict(cache=['new'], eur=['new'], nreq=[2], later=['new']), cache_duration='0s')

# 3. currency disabled: no request, cache untouched
for mode in ('ok', 'stall'):
    for cs in ('stale', 'absent', 'garbage'):
        go(mode, cs, dict(cache=['prior'] if cs != 'absent' else ['absent'], eur=['nounit'], nreq=[0]), enabled=False)

# 4. small memory limit for the child
for mem in ('4MB', '5MB'):
    for mode in ('status_500', 'cutnocl_3000', 'stall'):
        go(mode, 'stale', dict(cache=['prior'], eur=['old'], later=['old']), extra_limits='memory = "%s"\n' % mem)
        go(mode, 'absent', dict(cache=['absent'], eur=['nounit']), extra_limits='memory = "%s"\n' % mem)
    go('ok', 'stale', dict(cache=['new'], eur=['new'], later=['new']), extra_limits='memory = "%s"\n' % mem)

# 5. query timeout shorter than the currency timeout
for mode in ('stall', 'drip_100', 'status_500'):
    go(mode, 'stale', dict(cache=['prior'], eur=['old'], later=['old']), extra_limits='timeout = "1s"\n', timeout='3s')
    go(mode, 'absent', dict(cache=['absent'], eur=['nounit']), extra_limits='timeout = "1s"\n', timeout='3s')
    go(mode, 'stale', dict(cache=['prior'], eur=['old'], later=['old']), extra_limits='timeout = "100ms"\nshow_metrics = true\n', timeout='3s')

# 6. tiny / zero currency timeout
for t in ('1ms', '1us', '0s'):
    for mode in ('ok', 'status_500', 'slowok_10'):
        go(mode, 'stale', dict(cache=['prior', 'new'], eur=['old', 'new']), timeout=t)
print('cases', n, 'flagged', bad)
