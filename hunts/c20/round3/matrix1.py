#!/usr/bin/env python3
import sys, json
sys.path.insert(0, '/tmp/hunt4out-c20')
from drive import *

how = sys.argv[1] if len(sys.argv) > 1 else 'sandbox'
FAIL = ['status_500', 'status_404', 'status_301', 'status_204', 'stall', 'cutcl_3000', 'cutnocl_3000', 'cutnocl_1',
        'rstcl_3000', 'rstnocl_3000', 'rst0', 'hdrcut', 'garbage', 'html', 'empty', 'emptynocl',
        'stallafter_3000', 'drip_100', 'chunkcut_3000', 'REFUSED', 'trailing', 'bom', 'badutf8']
SHAPE = ['wrongshape', 'emptyarr']
OK = ['ok', 'oknocl', 'chunkok', 'slowok_10', 'drip_5']
CACHES = ['absent', 'fresh', 'stale', 'future', 'garbage', 'empty', 'truncated', 'wrongshape', 'nodir', 'nocachehome',
          'garbage_fresh', 'truncated_fresh']
out = open('/tmp/hunt4out-c20/matrix1-%s.jsonl' % how, 'w')
n = bad = 0
for mode in FAIL + SHAPE + OK:
    for cs in CACHES:
        kw = {}
        m = mode
        if mode == 'REFUSED':
            m = 'ok'
            kw['port'] = 3999
        r = case('m1', m, cs, how=how, **kw)
        r['mode'] = mode
        n += 1
        problems = []
        if r['rc'] == 'TIMEOUT':
            problems.append('HANG')
        if how != 'fetch':
            if not r['foot']:
                problems.append('NOFOOT')
            if r['rc'] != 0:
                problems.append('RC')
        validprior = cs in ('fresh', 'stale', 'future')
        fetched = not (cs in ('fresh', 'garbage_fresh', 'truncated_fresh')) or how == 'fetch'
        if mode in FAIL:
            if not r['cache'].startswith('prior') and not (r['cache'] == 'absent' and cs in ('absent', 'nodir', 'nocachehome')):
                problems.append('CACHE')
            if validprior and how != 'fetch' and r['eur'] != 'old':
                problems.append('NOSTALE')
            if validprior and r['later'] != (True, 'old'):
                problems.append('LATER')
        if mode in OK:
            if fetched:
                if r['cache'] != 'new':
                    problems.append('CACHE')
                if how != 'fetch' and r['eur'] != 'new':
                    problems.append('EURNOTNEW')
                if r['later'] != (True, 'new'):
                    problems.append('LATER')
            else:
                if not r['cache'].startswith('prior'):
                    problems.append('CACHE')
        if 'OTHER' in r['cache'] and mode not in SHAPE:
            problems.append('CACHE-OTHER')
        if r['left']:
            problems.append('LEFTOVER')
        r['problems'] = problems
        if problems:
            bad += 1
        print(('!! ' + ','.join(problems) + ' ' if problems else 'ok ') + short(r), flush=True)
        out.write(json.dumps(r) + '\n')
        out.flush()
print('cases', n, 'flagged', bad)
