#!/usr/bin/env python3
"""A failed refresh while stderr cannot be written (log file on a full disk: /dev/full; or a pipe whose reader is gone)."""
import sys, os, subprocess
sys.path.insert(0, '/tmp/hunt4out-c20')
from drive import *

for how in ('args', 'sandbox'):
    for mode, cs in (('ok', 'stale'), ('ok', 'fresh'), ('status_500', 'stale'), ('stall', 'stale'), ('cutnocl_3000', 'stale'), ('status_500', 'absent'), ('REFUSED', 'stale')):
        for sink in ('/dev/full', 'closed-pipe', 'closed-fd'):
            kw = dict(port=3903)
            m = mode
            if mode == 'REFUSED':
                m = 'ok'; kw['port'] = 3999
            base, e, prior = setup('sf', cfg(m, sandbox=(how == 'sandbox'), **kw), cs)
            argv = [RINK] if how == 'sandbox' else [RINK, '3 foot -> meter', '1 EUR -> USD']
            if sink == '/dev/full':
                errf = open('/dev/full', 'w')
            elif sink == 'closed-pipe':
                rfd, wfd = os.pipe(); os.close(rfd); errf = os.fdopen(wfd, 'w')
            else:
                errf = None
            if errf is None:
                p = subprocess.Popen(argv, stdin=subprocess.PIPE, stdout=subprocess.PIPE, env=e, cwd=base + '/cwd',
                                     preexec_fn=lambda: os.close(2))
            else:
                p = subprocess.Popen(argv, stdin=subprocess.PIPE, stdout=subprocess.PIPE, stderr=errf, env=e, cwd=base + '/cwd')
            try:
                out, _ = p.communicate(b'3 foot -> meter\n1 EUR -> USD\nquit\n' if how == 'sandbox' else b'', timeout=30)
                rc = p.returncode
            except subprocess.TimeoutExpired:
                p.kill(); out, _ = p.communicate(); rc = 'HANG'
            out = out.decode()
            res = dict(out=out)
            print('%-7s %-12s cache=%-6s stderr=%-11s rc=%-4s foot=%-5s eur=%-6s cache-after=%s' % (
                how, mode, cs, sink, rc, '0.9144 meter' in out, summarize(res)[1], classify_cache(base, prior)))
