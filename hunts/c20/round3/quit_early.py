#!/usr/bin/env python3
"""The user quits (or stdin ends) while the sandbox child is still refreshing."""
import sys, time, os, subprocess
sys.path.insert(0, '/tmp/hunt4out-c20')
from drive import *

for mode, stdin_text in (('stallafter_3000', 'quit\n'), ('stallafter_3000', ''), ('drip_20', 'quit\n'), ('stall', 'quit\n')):
    base, e, prior = setup('q', cfg(mode, sandbox=True, port=3902), 'stale')
    for i in range(3):
        r = run(base, e, how='sandbox', stdin_text=stdin_text)
        print(mode, repr(stdin_text), 'rc', r['rc'], 'dt %.2f' % r['dt'], 'cache', classify_cache(base, prior), 'left', leftovers(base))
    time.sleep(3)
    print('  service processes still alive:', subprocess.run(['pgrep', '-f', 'rink --service'], capture_output=True, text=True).stdout.split())
