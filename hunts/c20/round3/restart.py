#!/usr/bin/env python3
"""A query hits the limits (time / memory) -> the child is restarted -> the new child refreshes again (and fails)."""
import sys, os
sys.path.insert(0, '/tmp/hunt4out-c20')
from drive import *

queries = '3 foot -> meter\n9^9^9^9\n2 foot -> meter\n1 EUR -> USD\n10^10^10\n4 foot -> meter\n1 EUR -> USD\nquit\n'
for mode in ('stall', 'status_500', 'cutnocl_3000', 'ok'):
    for lim in ('timeout = "300ms"\n', 'memory = "6MB"\n'):
        logf = ROOT + '/requests3.log'
        n0 = sum(1 for _ in open(logf))
        base, e, prior = setup('rs', cfg(mode, sandbox=True, port=3903, extra_limits=lim), 'stale')
        r = run(base, e, how='sandbox', stdin_text=queries, to=90)
        n1 = sum(1 for _ in open(logf))
        print('== %s %r rc=%s dt=%.1f requests=%d cache=%s left=%s' % (mode, lim, r['rc'], r['dt'], n1 - n0, classify_cache(base, prior), leftovers(base)))
        print('   ' + r['out'].replace('\n', ' | ')[:600])
