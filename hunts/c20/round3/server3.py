#!/usr/bin/env python3
"""Fault-injecting HTTP server. Behaviour is chosen by the first path segment:
   http://127.0.0.1:PORT/<mode>/currency.json
Every request is appended to requests3.log (one line: time, mode)."""
import socket, struct, sys, threading, time, os

PORT = int(sys.argv[1])
NEW = open('/tmp/hunt4out-c20/new.json', 'rb').read()
BIG = None
LOG = '/tmp/hunt4out-c20/requests3.log'
lock = threading.Lock()
counters = {}


def log(mode):
    with lock:
        with open(LOG, 'a') as f:
            f.write('%.3f %s\n' % (time.time(), mode))


def hdr(status, reason, length=None, extra=''):
    h = 'HTTP/1.1 %d %s\r\nContent-Type: application/json\r\n' % (status, reason)
    if length is not None:
        h += 'Content-Length: %d\r\n' % length
    h += 'Connection: close\r\n' + extra + '\r\n'
    return h.encode()


def rst(c):
    c.setsockopt(socket.SOL_SOCKET, socket.SO_LINGER, struct.pack('ii', 1, 0))
    c.close()


def handle(c):
    try:
        c.settimeout(5)
        req = b''
        while b'\r\n\r\n' not in req:
            d = c.recv(4096)
            if not d:
                return
            req += d
        path = req.split(b' ')[1].decode()
        parts = path.strip('/').split('/')
        mode = parts[0]
        log(mode)
        c.settimeout(None)
        body = NEW
        if '@' in mode:
            # a@b : first request of this key behaves as a, later ones as b
            with lock:
                n = counters.get(path, 0)
                counters[path] = n + 1
            a, b = mode.split('@', 1)
            mode = a if n == 0 else b
        m = mode.split('_')
        k = int(m[-1]) if m[-1].isdigit() else None
        if mode == 'ok':
            c.sendall(hdr(200, 'OK', len(body)) + body)
        elif mode == 'oknocl':
            c.sendall(hdr(200, 'OK') + body)
        elif m[0] == 'cutcl':
            c.sendall(hdr(200, 'OK', len(body)) + body[:k])
        elif m[0] == 'cutnocl':
            c.sendall(hdr(200, 'OK') + body[:k])
        elif m[0] == 'rstcl':
            c.sendall(hdr(200, 'OK', len(body)) + body[:k])
            time.sleep(0.05)
            rst(c)
            return
        elif m[0] == 'rstnocl':
            c.sendall(hdr(200, 'OK') + body[:k])
            time.sleep(0.05)
            rst(c)
            return
        elif mode == 'rst0':
            rst(c)
            return
        elif mode == 'stall':
            time.sleep(60)
        elif m[0] == 'stallafter':
            c.sendall(hdr(200, 'OK', len(body)) + body[:k])
            time.sleep(60)
        elif m[0] == 'slowok':
            # complete answer but after k tenths of a second
            time.sleep(k / 10.0)
            c.sendall(hdr(200, 'OK', len(body)) + body)
        elif m[0] == 'status':
            extra = ''
            if k in (301, 302, 303, 307, 308):
                extra = 'Location: http://127.0.0.1:%d/ok/currency.json\r\n' % PORT
            c.sendall(hdr(k, 'X', len(body), extra) + body)
        elif mode == 'wrongshape':
            b = b'{"rates": {"USD": 1.5}}'
            c.sendall(hdr(200, 'OK', len(b)) + b)
        elif mode == 'emptyarr':
            b = b'[]'
            c.sendall(hdr(200, 'OK', len(b)) + b)
        elif mode == 'empty':
            c.sendall(hdr(200, 'OK', 0))
        elif mode == 'emptynocl':
            c.sendall(hdr(200, 'OK'))
        elif mode == 'hdrcut':
            c.sendall(b'HTTP/1.1 200 OK\r\nContent-Ty')
        elif mode == 'garbage':
            c.sendall(b'\x00\x01\x02garbage\r\n\r\n')
        elif mode == 'html':
            b = b'<html><body>captive portal</body></html>'
            c.sendall(hdr(200, 'OK', len(b)) + b)
        elif m[0] == 'drip':
            # k ms between bytes, 64-byte pieces
            c.sendall(hdr(200, 'OK', len(body)))
            for i in range(0, len(body), 64):
                c.sendall(body[i:i + 64])
                time.sleep(k / 1000.0)
        elif m[0] == 'chunkcut':
            c.sendall(b'HTTP/1.1 200 OK\r\nTransfer-Encoding: chunked\r\nConnection: close\r\n\r\n')
            c.sendall(b'%x\r\n' % k + body[:k] + b'\r\n')
            # no terminating chunk
        elif mode == 'chunkok':
            c.sendall(b'HTTP/1.1 200 OK\r\nTransfer-Encoding: chunked\r\nConnection: close\r\n\r\n')
            c.sendall(b'%x\r\n' % len(body) + body + b'\r\n0\r\n\r\n')
        elif mode == 'big':
            global BIG
            if BIG is None:
                BIG = open('/tmp/hunt4out-c20/big.json', 'rb').read()
            c.sendall(hdr(200, 'OK', len(BIG)) + BIG)
        elif m[0] == 'bigcut':
            # k megabytes of a valid prefix (JSON array of strings), no content-length, then close
            c.sendall(hdr(200, 'OK'))
            piece = b'["' + b'x' * 65530 + b'",\n'
            c.sendall(b'[')
            for i in range(k * 16):
                c.sendall(piece[1:] if False else piece)
        elif m[0] == 'bightml':
            b = b'<html>' + b'y' * (k * 1024 * 1024) + b'</html>'
            c.sendall(hdr(200, 'OK', len(b)) + b)
        elif mode == 'trailing':
            b = body + b'\n[]garbage'
            c.sendall(hdr(200, 'OK', len(b)) + b)
        elif mode == 'bom':
            b = b'\xef\xbb\xbf' + body
            c.sendall(hdr(200, 'OK', len(b)) + b)
        elif mode == 'badutf8':
            b = body.replace(b'European', b'Europ\xff\xfean')
            c.sendall(hdr(200, 'OK', len(b)) + b)
        else:
            c.sendall(hdr(404, 'Not Found', 2) + b'{}')
        try:
            c.shutdown(socket.SHUT_WR)
        except OSError:
            pass
        c.close()
    except Exception as e:
        try:
            c.close()
        except Exception:
            pass


def main():
    s = socket.socket()
    s.setsockopt(socket.SOL_SOCKET, socket.SO_REUSEADDR, 1)
    s.bind(('127.0.0.1', PORT))
    s.listen(64)
    while True:
        c, _ = s.accept()
        threading.Thread(target=handle, args=(c,), daemon=True).start()


main()
