#!/usr/bin/env python3
"""Reproduction-rate measurement for the findings. Own server on 3540."""
import json, os, subprocess, sys, time
import concurrent.futures as cf
sys.path.insert(0, os.path.dirname(__file__))
import huntlib as H
PORT = 3540
REPS = int(sys.argv[1]) if len(sys.argv) > 1 else 40
srv = subprocess.Popen([sys.executable, H.OUT + "/faultserver.py", str(PORT), H.NEWDOC])
time.sleep(0.6)
os.makedirs(H.RUNS, exist_ok=True)
scens = ["close/0", "close/1", "close/3000", "close/6701", "close10/3000", "closenohdr/3000", "dieclose/3000",
         "hdrcut/17", "hdrcut/30", "hdrcut/60", "hdrcut/91", "diehdr/30",
         "clsmall/100", "twocl",
         "diecl/3000", "cl/3000", "hdrcut/92", "hdrcut/15"]   # last four are controls (must keep the cache)
jobs = []
i = 0
for scen in scens:
    for prior, entry in (("stale", "expr"), ("stale", "fetch"), ("absent", "expr"), ("fresh", "fetch")):
        for rep in range(REPS):
            jobs.append((i, scen, prior, entry)); i += 1
def one(i, scen, prior, entry):
    d, pb = H.setup("r%05d" % i, prior, "http://127.0.0.1:%d/s/%s" % (PORT, scen), timeout="2s")
    r = H.run_rink(d, entry)
    c = H.classify(d, pb)
    H.write_cfg(d, "http://127.0.0.1:%d/down" % H.DEAD_PORT, name="cfg2")
    r2 = H.run_rink(d, "expr", cfgname="cfg2")
    H.force_rmtree(d)
    exp = "ABSENT" if prior == "absent" else "OLD"
    return scen, prior, entry, c["state"] not in (exp, "NEW"), c["state"], H.rate_used(r2["out"]), r["rc"]
tab = {}
with cf.ThreadPoolExecutor(6) as ex:
    for scen, prior, entry, bad, state, rate2, rc in ex.map(lambda j: one(*j), jobs):
        k = "%s | %s/%s" % (scen, prior, entry)
        t = tab.setdefault(k, {"runs": 0, "violations": 0, "states": {}, "next_start_rate": {}, "rc": {}})
        t["runs"] += 1; t["violations"] += bad
        t["states"][state] = t["states"].get(state, 0) + 1
        t["next_start_rate"][rate2] = t["next_start_rate"].get(rate2, 0) + 1
        t["rc"][str(rc)] = t["rc"].get(str(rc), 0) + 1
srv.terminate()
json.dump(tab, open(H.OUT + "/results_repeat.json", "w"), indent=1)
for k, t in tab.items():
    print("%-34s %d/%d  %s next-start:%s rc:%s" % (k, t["violations"], t["runs"], t["states"], t["next_start_rate"], t["rc"]))
