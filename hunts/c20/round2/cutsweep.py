#!/usr/bin/env python3
"""Every-byte cut sweep: body file B served close-delimited (or other framing) and cut after n bytes for EVERY n in 0..len(B).
Oracle: cache afterwards == OLD, or == B (complete). Anything else is flagged. Also records which cuts got persisted.
usage: cutsweep.py <bodyname> <framing> [step]
"""
import concurrent.futures as cf, json, os, subprocess, sys, time
sys.path.insert(0, os.path.dirname(__file__))
import huntlib as H
PORT = 3560
BD = H.OUT + "/bodies"
name, framing = sys.argv[1], sys.argv[2]
step = int(sys.argv[3]) if len(sys.argv) > 3 else 1
entry = sys.argv[4] if len(sys.argv) > 4 else "fetch"
B = open(BD + "/" + name, "rb").read()

def one(n):
    url = "http://127.0.0.1:%d/s/body/%s/%s/%d" % (PORT, name, framing, n)
    d, pb = H.setup("c%s%s%05d" % (name, framing, n), "stale", url, timeout="2s")
    r = H.run_rink(d, entry)
    data = open(d + "/cache/rink/currency.json", "rb").read()
    left = [x for x in os.listdir(d + "/cache/rink") if x != "currency.json"]
    H.force_rmtree(d)
    st = "OLD" if data == H.OLD else "FULL" if data == B else "PREFIX(%d)" % len(data) if B.startswith(data) else "OTHER(%d)" % len(data)
    return n, st, r["rc"], left

os.makedirs(H.RUNS, exist_ok=True)
srv = subprocess.Popen([sys.executable, H.OUT + "/faultserver2.py", str(PORT), H.NEWDOC], env=dict(os.environ, BODYDIR=BD))
time.sleep(0.6)
cnt = {}
odd = []
cuts = sorted(set(list(range(0, len(B) + 1, step)) + list(range(max(0, len(B) - 40), len(B) + 1))))
t0 = time.time()
with cf.ThreadPoolExecutor(12) as ex:
    for n, st, rc, left in ex.map(one, cuts):
        k = "OLD" if st == "OLD" else "FULL" if st == "FULL" else "BAD"
        cnt[k] = cnt.get(k, 0) + 1
        if st not in ("OLD",) or left or (st == "OLD" and rc == 0 and entry == "fetch"):
            odd.append((n, st, rc, left))
srv.terminate()
print("%s/%s: %d cuts (len=%d) in %.0fs -> %s" % (name, framing, len(cuts), len(B), time.time() - t0, cnt))
for o in odd:
    print("   cut=%d state=%s rc=%s leftovers=%s" % o)
