#!/usr/bin/env python3
"""Raw-response oddities + all status codes 100..599 x (cl|close|chunked). Oracle: cache == OLD (prior) or == NEW exactly."""
import concurrent.futures as cf, json, os, subprocess, sys, time
sys.path.insert(0, os.path.dirname(__file__))
import huntlib as H
PORT = 3580
BD = H.OUT + "/bodies"
which = sys.argv[1] if len(sys.argv) > 1 else "raw"
names = open(H.OUT + "/raw_names.txt").read().split()
jobs = []
if which == "raw":
    for n in names:
        for tail in ("fin", "hold", "rst"):
            for prior, entry in (("stale", "expr"), ("stale", "fetch"), ("absent", "expr")):
                jobs.append(("raw/%s/%s" % (n, tail), prior, entry))
else:
    for code in range(100, 600):
        for v in ("body", "close", "chunked"):
            jobs.append(("statusraw/%d/%s" % (code, v), "stale", "expr" if code % 2 else "fetch"))


def one(i, scen, prior, entry):
    d, pb = H.setup("w%05d" % i, prior, "http://127.0.0.1:%d/s/%s" % (PORT, scen), timeout="1s")
    r = H.run_rink(d, entry, wall=40)
    c = H.classify(d, pb)
    H.write_cfg(d, "http://127.0.0.1:%d/down" % H.DEAD_PORT, name="cfg2")
    r2 = H.run_rink(d, "expr", cfgname="cfg2")
    c2 = H.classify(d, pb)
    H.force_rmtree(d)
    exp = "ABSENT" if prior == "absent" else "OLD"
    flags = []
    if c["state"] not in (exp, "NEW"): flags.append("BADCACHE:" + c["state"])
    if c["leftovers"]: flags.append("LEFTOVER")
    if r["hung"]: flags.append("HUNG")
    if entry == "expr" and (r["rc"] != 0 or not H.answers_noncurrency(r["out"])): flags.append("START_FAILED")
    if entry == "expr" and c["state"] == "OLD" and H.rate_used(r["out"]) != "OLD": flags.append("NO_FALLBACK")
    if entry == "expr" and c["state"] == "NEW" and H.rate_used(r["out"]) != "NEW": flags.append("NEW_NOT_USED")
    if r2["rc"] != 0 or not H.answers_noncurrency(r2["out"]) or c2["state"] != c["state"]: flags.append("NEXT_START")
    if c["state"] == "NEW" and H.rate_used(r2["out"]) != "NEW": flags.append("NEW_NOT_VISIBLE_NEXT")
    if entry == "fetch" and ((c["state"] == "NEW") != (r["rc"] == 0)) and prior != "fresh": flags.append("FETCH_RC_MISMATCH rc=%s" % r["rc"])
    return {"scen": scen, "prior": prior, "entry": entry, "state": c["state"], "rc": r["rc"], "secs": r["secs"],
            "curl": H.curl_code(r["out"] + r["err"]), "flags": flags}


os.makedirs(H.RUNS, exist_ok=True)
srv = subprocess.Popen([sys.executable, H.OUT + "/faultserver2.py", str(PORT), H.NEWDOC], env=dict(os.environ, BODYDIR=BD))
time.sleep(0.6)
res = []
with cf.ThreadPoolExecutor(8) as ex:
    for rec in ex.map(lambda j: one(*j), [(i,) + j for i, j in enumerate(jobs)]):
        res.append(rec)
srv.terminate()
with open(H.OUT + "/results_%s.jsonl" % which, "w") as f:
    for r in res: f.write(json.dumps(r) + "\n")
print("%d runs, %d flagged" % (len(res), sum(bool(r["flags"]) for r in res)))
import collections
if which == "raw":
    t = collections.OrderedDict()
    for r in res:
        k = r["scen"].split("/")[1]
        t.setdefault(k, collections.Counter())[r["state"] + ("!" + ",".join(r["flags"]) if r["flags"] else "")] += 1
    for k, v in t.items(): print("%-28s %s" % (k, dict(v)))
else:
    c = collections.Counter((r["scen"].split("/")[2], r["state"]) for r in res)
    print(dict(c))
    print("NEW for codes:", sorted(set(r["scen"].split("/")[1] for r in res if r["state"] == "NEW")))
for r in res:
    if r["flags"]: print("FLAG", r)
