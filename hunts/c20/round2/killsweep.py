#!/usr/bin/env python3
"""Phase 2: kill -9 of the rink client at many moments.

usage:
  killsweep.py time    [--step-ms 4] [--span-ms 1100]   # wall-clock sweep over a slow transfer
  killsweep.py syscall                                 # strace inject=...:signal=KILL:when=N sweep
Needs faultserver.py running on port 3510 (started here if not).
"""
import argparse
import concurrent.futures as cf
import json
import os
import re
import signal
import socket
import subprocess
import sys
import time

sys.path.insert(0, os.path.dirname(__file__))
import huntlib as H

ap = argparse.ArgumentParser()
ap.add_argument("mode", choices=["time", "syscall"])
ap.add_argument("--step-ms", type=float, default=4)
ap.add_argument("--span-ms", type=float, default=1100)
ap.add_argument("--jobs", type=int, default=6)
ap.add_argument("--out", default=None)
args = ap.parse_args()
PORT = 3510
OUTF = args.out or H.OUT + "/results_kill_%s.jsonl" % args.mode


def ensure_server():
    s = socket.socket()
    try:
        s.connect(("127.0.0.1", PORT))
        s.close()
        return None
    except Exception:
        p = subprocess.Popen([sys.executable, H.OUT + "/faultserver.py", str(PORT), H.NEWDOC, H.OUT + "/server_%d.log" % PORT])
        time.sleep(0.6)
        return p


def expected(prior):
    return {"absent": "ABSENT", "nodir": "ABSENT", "stale": "OLD", "stale_invalid": "PRIOR", "empty": "PRIOR",
            "future": "OLD", "fresh": "OLD", "dangling": "SYMLINK:dangling", "symlink_ok": "SYMLINK:OLD"}[prior]


def finish(rec, d, prior, prior_bytes):
    after = H.classify(d, prior_bytes)
    rec["after"] = after["state"]
    rec["leftovers"] = after["leftovers"]
    # sizes of leftovers
    lo = []
    for n in after["leftovers"] or []:
        try:
            data = open(d + "/cache/rink/" + n, "rb").read()
            lo.append((n, len(data), H.NEW.startswith(data)))
        except Exception as e:
            lo.append((n, repr(e)))
    rec["leftover_detail"] = lo
    H.write_cfg(d, "http://127.0.0.1:%d/down" % H.DEAD_PORT, name="cfg2")
    r2 = H.run_rink(d, "expr", cfgname="cfg2")
    after2 = H.classify(d, prior_bytes)
    rec["rate2"] = H.rate_used(r2["out"])
    rec["rc2"] = r2["rc"]
    rec["noncur2"] = H.answers_noncurrency(r2["out"])
    rec["after2"] = after2["state"]
    flags = []
    if after["state"] not in (expected(prior), "NEW"):
        flags.append("CACHE_NOT_OLD_OR_NEW:" + after["state"])
    if after2["state"] != after["state"]:
        flags.append("FOLLOWUP_CHANGED")
    if r2["rc"] != 0 or not rec["noncur2"]:
        flags.append("FOLLOWUP_START_FAILED")
    if after["state"] == "NEW" and rec["rate2"] != "NEW":
        flags.append("NEW_NOT_VISIBLE")
    if after["state"] in ("OLD", "SYMLINK:OLD") and rec["rate2"] != "OLD":
        flags.append("OLD_NOT_USED")
    rec["flags"] = flags
    H.force_rmtree(d)
    return rec


def time_one(idx, prior, scen, entry, delay):
    run_id = "k%05d" % idx
    url = "http://127.0.0.1:%d/s/%s" % (PORT, scen)
    d, pb = H.setup(run_id, prior, url, timeout="5s")
    env = H.env_for(d)
    p = subprocess.Popen([H.RINK] + H.ENTRY[entry], env=env, cwd=d, stdout=subprocess.PIPE, stderr=subprocess.PIPE,
                         stdin=subprocess.DEVNULL)
    time.sleep(delay)
    killed = p.poll() is None
    try:
        p.send_signal(signal.SIGKILL)
    except Exception:
        pass
    out, err = p.communicate()
    rec = {"id": run_id, "prior": prior, "scen": scen, "entry": entry, "delay_ms": round(delay * 1000, 1),
           "killed": killed, "rc": p.returncode, "outlen": len(out)}
    return finish(rec, d, prior, pb)


def syscall_one(idx, prior, scen, entry, inject):
    run_id = "y%05d" % idx
    url = "http://127.0.0.1:%d/s/%s" % (PORT, scen)
    d, pb = H.setup(run_id, prior, url, timeout="5s")
    env = H.env_for(d)
    slog = d + "/strace.txt"
    cmd = ["strace", "-f", "-o", slog, "-e", "inject=" + inject, H.RINK] + H.ENTRY[entry]
    p = subprocess.Popen(cmd, env=env, cwd=d, stdout=subprocess.PIPE, stderr=subprocess.PIPE, stdin=subprocess.DEVNULL)
    try:
        out, err = p.communicate(timeout=30)
    except subprocess.TimeoutExpired:
        p.kill()
        out, err = p.communicate()
    lines = open(slog, errors="replace").read().splitlines()
    killed = any("+++ killed by SIGKILL +++" in l for l in lines)
    # last syscalls of the main thread before the kill
    main_pid = lines[0].split()[0] if lines else ""
    mains = [l for l in lines if l.startswith(main_pid + " ") and "+++" not in l]
    last = [re.sub(r"^\d+ ", "", l)[:110] for l in mains[-2:]]
    saw_tmp = any("O_EXCL" in l and "currency." in l for l in lines)
    saw_rename = any("renameat(" in l and "currency.json\") = 0" in l for l in lines)
    nwrites = sum(1 for l in mains if re.search(r"write\(7, ", l) and "= -1" not in l)
    rec = {"id": run_id, "prior": prior, "scen": scen, "entry": entry, "inject": inject, "killed": killed,
           "rc": p.returncode, "last": last, "saw_tmp": saw_tmp, "saw_rename": saw_rename, "nwrites": nwrites}
    return finish(rec, d, prior, pb)



def reference_plan(scen, entry):
    """Run once un-killed under strace; return {syscall name: [ordinals]} for the main thread's syscalls
    issued from 10 syscalls before the temp file is created until process exit."""
    url = "http://127.0.0.1:%d/s/%s" % (PORT, scen)
    d, pb = H.setup("ref_" + entry, "stale", url, timeout="5s")
    slog = d + "/strace.txt"
    subprocess.run(["strace", "-f", "-o", slog, H.RINK] + H.ENTRY[entry], env=H.env_for(d), cwd=d,
                   stdout=subprocess.DEVNULL, stderr=subprocess.DEVNULL)
    lines = open(slog, errors="replace").read().splitlines()
    main_pid = lines[0].split()[0]
    counts = {}
    seq = []
    for l in lines:
        if not l.startswith(main_pid + " "):
            continue
        m = re.match(r"\d+\s+([a-z_0-9]+)\(", l)
        if not m:
            continue
        name = m.group(1)
        counts[name] = counts.get(name, 0) + 1
        seq.append((name, counts[name], l))
    start = next(i for i, (n, o, l) in enumerate(seq) if "O_EXCL" in l and "currency." in l)
    plan = {}
    for name, o, l in seq[max(0, start - 10):]:
        plan.setdefault(name, []).append(o)
    import shutil
    shutil.copy(slog, H.OUT + "/strace_ref_%s.txt" % entry)
    H.force_rmtree(d)
    return plan

def main():
    os.makedirs(H.RUNS, exist_ok=True)
    srv = ensure_server()
    jobs = []
    idx = 0
    if args.mode == "time":
        # 6.7 kB at 100 B / 10 ms ~ 0.7 s transfer; rink needs ~0.05-0.3 s before it connects
        scens = ["trickle/100/10", "tricklechunked/100/10", "trickleclose/100/10"]
        priors = ["stale", "absent", "stale_invalid"]
        n = int(args.span_ms / args.step_ms)
        for scen in scens:
            for prior in priors:
                for entry in ("fetch", "expr"):
                    if prior != "stale" and scen != "trickle/100/10":
                        continue
                    for k in range(n + 1):
                        jobs.append((time_one, (idx, prior, scen, entry, k * args.step_ms / 1000.0)))
                        idx += 1
    else:
        scen = "trickle/1000/3"
        plans = {}
        for entry in ("fetch", "expr"):
            plans[entry] = reference_plan(scen, entry)
            print(entry, "plan:", {k: (v[0], v[-1]) for k, v in plans[entry].items()}, flush=True)
        for prior in ("stale", "absent", "stale_invalid", "symlink_ok", "dangling", "future"):
            for entry in ("fetch", "expr"):
                for name, ords in sorted(plans[entry].items()):
                    lo, hi = ords[0], ords[-1] + 3
                    if prior not in ("stale", "absent") and name in ("poll", "recvfrom", "futex", "rt_sigaction", "mmap", "munmap", "brk", "mprotect", "madvise"):
                        continue
                    for n in range(lo, hi + 1):
                        jobs.append((syscall_one, (idx, prior, scen, entry, "%s:signal=KILL:when=%d" % (name, n))))
                        idx += 1
    print("%d kill runs" % len(jobs), flush=True)
    n = nflag = 0
    t0 = time.time()
    with open(OUTF, "w") as fo, cf.ThreadPoolExecutor(args.jobs) as ex:
        for rec in ex.map(lambda j: j[0](*j[1]), jobs):
            fo.write(json.dumps(rec) + "\n")
            n += 1
            nflag += bool(rec["flags"])
            if n % 200 == 0:
                print("%d/%d, %d flagged, %.0fs" % (n, len(jobs), nflag, time.time() - t0), flush=True)
    print("done %d runs, %d flagged" % (n, nflag))
    if srv:
        srv.terminate()


main()
