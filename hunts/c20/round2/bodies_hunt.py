#!/usr/bin/env python3
"""Phase A: odd bodies under several framings. For each (body, framing, prior, entry):
   1. run rink against the fault server
   2. classify cache: OLD / PRIOR / SENT (== exactly the bytes the server sent as the full body) / ABSENT / OTHER
   3. start with server down (fallback / still starts / non-currency answered)
   4. recovery: make cache stale, point at a good server (cl/-1), start; expect NEW rate and cache == NEW
usage: bodies_hunt.py [--jobs N] [--only substr]
"""
import argparse, concurrent.futures as cf, json, os, subprocess, sys, time
sys.path.insert(0, os.path.dirname(__file__))
import huntlib as H

ap = argparse.ArgumentParser()
ap.add_argument("--jobs", type=int, default=8)
ap.add_argument("--only", default=None)
ap.add_argument("--big", action="store_true")
ap.add_argument("--out", default=H.OUT + "/results_bodies.jsonl")
args = ap.parse_args()
PORT = 3550
BD = H.OUT + "/bodies"
os.makedirs(BD, exist_ok=True)
NEW = H.NEW
NEWS = NEW.rstrip()

def deep(n, close=True):
    return b"[" * n + (b"]" * n if close else b"")

BODIES = {
    # valid JSON, not the document
    "arr_empty": b"[]", "null": b"null", "zero": b"0", "str": b'"x"', "true": b"true", "obj": b"{}",
    "obj_err": b'{"error":"rate limited","retry_after":60}\n', "arr_nums": b"[1,2,3]",
    "arr_badshape": b'[{"name":"EUR"}]', "arr_null": b"[null]", "num_huge": b"1e999999",
    "arr_one_ok": b'[{"name":"EUR","doc":"d","category":"currencies","type":"unit","expr":"2 USD"}]',
    # whitespace / empty / BOM
    "empty": b"", "ws": b" \n\t \r\n", "nl": b"\n", "bom_only": b"\xef\xbb\xbf", "bom_new": b"\xef\xbb\xbf" + NEW,
    "ws_new_ws": b"\n\n  " + NEW + b"\n \n\t\n",
    # trailing stuff
    "new_garbage": NEW + b"xyz", "new_new": NEW + NEW, "new_arr": NEW + b"[]", "new_nul": NEW + b"\x00",
    "new_comma": NEWS + b",", "new_html": NEW + b"<html>", "new_close": NEWS + b"]",
    # NUL / control / encoding
    "nul_only": b"\x00", "nuls": b"\x00" * 4096, "nul_in_string": NEW.replace(b"marker at", b"marker\x00at"),
    "bad_utf8": NEW.replace(b"marker at", b"marker\xff\xfeat"), "bad_utf8_only": b"\xff\xfe\xfd",
    "latin1": NEW.replace(b"marker at", "marqué à".encode("latin1")),
    "utf16": NEW.decode().encode("utf-16"), "utf16le_nobom": NEW.decode().encode("utf-16-le"),
    "overlong_utf8": NEW.replace(b"marker at", b"marker\xc0\xafat"),
    "trunc_utf8_tail": b'["\xe2\x82',  # cut in the middle of a multibyte char
    "surrogate_lone": NEW.replace(b"marker at", b"marker\\ud800at"),
    # nesting
    "deep127": deep(127), "deep128": deep(128), "deep129": deep(129), "deep1e5": deep(100000),
    "deep1e6_open": deep(1000000, False), "deepobj1e5": b'{"a":' * 100000 + b"1" + b"}" * 100000,
    "deep5e6": deep(5000000),
    # other junk
    "html": b"<html><body>captive portal</body></html>\n", "single_quote": b"['a']", "nan": b"NaN",
    "comment": b"// c\n" + NEW, "trailing_comma_arr": NEWS[:-1].rstrip() + b",]",
    "json_lines": b'{"a":1}\n{"a":2}\n',
    "old_again": H.OLD,
    "new": NEW,
}
if args.big:
    unit = b'\t{"name":"q%07d","doc":"' + b"x" * 900 + b'","category":"currencies","type":"unit","expr":"7 USD"},\n'
    n = 50 * 1024 * 1024 // len(unit % 0)
    big = b"[\n" + b"".join(unit % i for i in range(n)) + NEWS.lstrip()[1:]  # big units then the NEW entries
    json.loads(big)
    BODIES = {"big50": big, "big50_cut": big[: len(big) - 1], "big50_garbage": big + b"x",
              "big50_badutf8_end": big[:-2] + b"\xff]",
              "bigstr": b'["' + b"y" * (200 * 1024 * 1024) + b'"]'}

for k, v in BODIES.items():
    with open(os.path.join(BD, k), "wb") as f:
        f.write(v)

FRAMINGS = ["cl", "close", "chunked", "close10"]
PRIORS = [("stale", "expr"), ("stale", "fetch"), ("absent", "expr"), ("stale_invalid", "expr"), ("fresh", "fetch")]
if args.big:
    FRAMINGS = ["cl", "close"]
    PRIORS = [("stale", "expr"), ("stale", "fetch")]


def cls(d, prior_bytes, sent):
    c = H.classify(d, prior_bytes)
    s = c["state"]
    if s.startswith("OTHER"):
        data = open(d + "/cache/rink/currency.json", "rb").read()
        if data == sent:
            c["state"] = "SENT"
    if s == "NEW" and sent == NEW:
        c["state"] = "SENT"
    if s == "OLD" and sent == H.OLD:
        c["state"] = "OLD(=SENT)"
    return c


def one(idx, body, framing, prior, entry):
    sent = BODIES[body]
    url = "http://127.0.0.1:%d/s/body/%s/%s" % (PORT, body, framing)
    d, pb = H.setup("b%05d" % idx, prior, url, timeout="20s" if args.big else "2s")
    r = H.run_rink(d, entry, wall=120)
    after = cls(d, pb, sent)
    H.write_cfg(d, "http://127.0.0.1:%d/down" % H.DEAD_PORT, name="cfg2")
    r2 = H.run_rink(d, "expr", cfgname="cfg2", wall=120)
    after2 = cls(d, pb, sent)
    # recovery
    cfile = d + "/cache/rink/currency.json"
    if os.path.exists(cfile):
        t = time.time() - 2 * 86400
        os.utime(cfile, (t, t))
    H.write_cfg(d, "http://127.0.0.1:%d/s/cl/-1" % PORT, name="cfg3", timeout="5s")
    r3 = H.run_rink(d, "expr", cfgname="cfg3", wall=60)
    after3 = H.classify(d, pb)
    exp = {"stale": "OLD", "fresh": "OLD", "absent": "ABSENT", "stale_invalid": "PRIOR"}[prior]
    rec = {"id": idx, "body": body, "len": len(sent), "framing": framing, "prior": prior, "entry": entry,
           "after": after["state"], "leftovers": after["leftovers"], "rc": r["rc"], "secs": r["secs"], "hung": r["hung"],
           "rate": H.rate_used(r["out"]), "noncur": H.answers_noncurrency(r["out"]),
           "after2": after2["state"], "rc2": r2["rc"], "rate2": H.rate_used(r2["out"]), "noncur2": H.answers_noncurrency(r2["out"]),
           "after3": after3["state"], "rc3": r3["rc"], "rate3": H.rate_used(r3["out"]),
           "msg": (r["out"] + r["err"])[:600] if True else ""}
    flags = []
    st = after["state"]
    if st not in (exp, "SENT", "OLD(=SENT)"):
        flags.append("CACHE_NEITHER_OLD_NOR_SENT:" + st)
    if st == "SENT" and body not in ("new",):
        flags.append("PERSISTED_ODD_BODY")
    if after["leftovers"]:
        flags.append("LEFTOVER")
    if r["hung"]:
        flags.append("HUNG")
    if entry == "expr":
        if r["rc"] != 0 or not rec["noncur"]:
            flags.append("START_FAILED rc=%s" % r["rc"])
        if st == "OLD" and rec["rate"] != "OLD":
            flags.append("NO_FALLBACK:" + rec["rate"])
        if st == "SENT" and body == "new" and rec["rate"] != "NEW":
            flags.append("NEW_NOT_USED_NOW")
    else:
        rec["fetch_rc"] = r["rc"]
    if r2["rc"] != 0 or not rec["noncur2"]:
        flags.append("NEXT_START_FAILED")
    if after2["state"] != st:
        flags.append("NEXT_START_CHANGED_CACHE:" + after2["state"])
    if st == "OLD" and rec["rate2"] != "OLD":
        flags.append("NEXT_START_NOT_OLD:" + rec["rate2"])
    if after3["state"] != "NEW" or rec["rate3"] != "NEW" or r3["rc"] != 0:
        flags.append("NO_RECOVERY:%s/%s" % (after3["state"], rec["rate3"]))
    rec["flags"] = flags
    H.force_rmtree(d)
    return rec


def main():
    os.makedirs(H.RUNS, exist_ok=True)
    env = dict(os.environ, BODYDIR=BD)
    srv = subprocess.Popen([sys.executable, H.OUT + "/faultserver2.py", str(PORT), H.NEWDOC, H.OUT + "/server_%d.log" % PORT], env=env)
    time.sleep(0.7)
    jobs = []
    i = 0
    for b in BODIES:
        if args.only and args.only not in b:
            continue
        for f in FRAMINGS:
            for prior, entry in PRIORS:
                jobs.append((i, b, f, prior, entry)); i += 1
    print("%d runs (%d bodies)" % (len(jobs), len(BODIES)), flush=True)
    n = nf = 0
    with open(args.out, "w") as fo, cf.ThreadPoolExecutor(args.jobs) as ex:
        for rec in ex.map(lambda j: one(*j), jobs):
            fo.write(json.dumps(rec) + "\n"); n += 1; nf += bool(rec["flags"])
    srv.terminate()
    print("done %d, flagged %d" % (n, nf))


main()
