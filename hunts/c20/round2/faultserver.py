#!/usr/bin/env python3
"""Fault-injecting HTTP server for C20 hunting.

usage: faultserver.py PORT NEWDOC [LOGFILE]

The scenario is encoded in the request path:  /s/<mode>/<a>/<b>...
Every connection is handled in its own thread; raw sockets, no http.server.

modes (a,b are ints unless noted; cut=-1 means "send everything"):
  cl/<cut>            200 + Content-Length:len(NEW); send body[:cut]; FIN
  clrst/<cut>         same, then RST (SO_LINGER 0)
  cl10/<cut>          HTTP/1.0 200 + Content-Length, FIN
  chunked/<cut>/<sz>  200 chunked (chunk size sz); encoded stream cut at <cut>; FIN
  chunkedrst/<cut>/<sz>
  close/<cut>         HTTP/1.1 200, Connection: close, no length; body[:cut]; FIN
  close10/<cut>       HTTP/1.0 200 no length; body[:cut]; FIN
  closenohdr/<cut>    HTTP/1.1 200, no length, no Connection header; FIN
  closerst/<cut>      like close, RST
  hdrcut/<n>          send only first n bytes of the (status line + headers) of a full CL reply; FIN
  hdrcutrst/<n>
  stall/pre           read request, send nothing, sleep <STALL>s
  stall/hdr           send half of headers, sleep
  stall/body/<cut>    CL reply, body[:cut], sleep
  stallclose/body/<cut>  close-delimited reply, body[:cut], sleep
  stallchunked/body/<cut>/<sz>
  noread              do not even read the request; sleep
  trickle/<n>/<ms>    CL reply, n bytes every ms milliseconds (whole body)
  trickleclose/<n>/<ms>  close-delimited, n bytes every ms
  tricklehdr/<ms>     one header byte every ms
  status/<code>/<variant>   variant: body | loc | noloc | empty | chunked | close
  gzip                200, Content-Encoding: gzip, CL, gzip(NEW)
  gzipchunked
  html                200 text/html body
  empty200            200 Content-Length: 0
  redir/<code>/<port>/<rest...>  Location: http://127.0.0.1:<port>/s/<rest>
  clsmall/<n>         Content-Length = len-n, full body sent, FIN
  cllarge/<n>/<fin|hold>  Content-Length = len+n, full body, then FIN or hold open
  cont100/<cut>       100 Continue then cl/<cut>
  garbage             non-HTTP bytes
  http09              raw body without status line
  twocl               two differing Content-Length headers
  clte                Content-Length and Transfer-Encoding: chunked together
  dieclose/<cut> diecl/<cut> diehdr/<n>   a forked worker sends part of the reply and is then SIGKILLed
"""
import gzip as gz
import socket
import struct
import sys
import threading
import time

PORT = int(sys.argv[1])
NEW = open(sys.argv[2], "rb").read()
LOG = open(sys.argv[3], "a") if len(sys.argv) > 3 else None
STALL = 30.0
loglock = threading.Lock()


def log(*a):
    if LOG:
        with loglock:
            LOG.write("%.4f %s\n" % (time.time(), " ".join(str(x) for x in a)))
            LOG.flush()


def fin(c):
    try:
        c.shutdown(socket.SHUT_WR)
        # drain so that close() does not turn into RST
        c.settimeout(0.5)
        try:
            while c.recv(4096):
                pass
        except Exception:
            pass
    except Exception:
        pass
    c.close()


def rst(c):
    try:
        c.setsockopt(socket.SOL_SOCKET, socket.SO_LINGER, struct.pack("ii", 1, 0))
    except Exception:
        pass
    c.close()


def send(c, data):
    try:
        c.sendall(data)
        return True
    except Exception as e:
        log("send failed", e)
        return False


def sleep_until_peer_closes(c, secs):
    c.settimeout(secs)
    try:
        while True:
            d = c.recv(4096)
            if not d:
                break
    except Exception:
        pass


def chunk_encode(body, sz):
    out = b""
    for i in range(0, len(body), sz):
        part = body[i:i + sz]
        out += b"%x\r\n" % len(part) + part + b"\r\n"
    out += b"0\r\n\r\n"
    return out


def hdr(status="200 OK", ver="HTTP/1.1", extra=(), ctype="application/json"):
    h = ("%s %s\r\nServer: faultserver\r\nContent-Type: %s\r\n" % (ver, status, ctype)).encode()
    for e in extra:
        h += e.encode() + b"\r\n"
    return h + b"\r\n"


def cutof(s, n):
    n = int(n)
    return s if n < 0 else s[:n]


REASON = {204: "No Content", 301: "Moved Permanently", 302: "Found", 304: "Not Modified",
          404: "Not Found", 410: "Gone", 500: "Internal Server Error", 503: "Service Unavailable",
          206: "Partial Content", 201: "Created", 100: "Continue", 429: "Too Many Requests",
          307: "Temporary Redirect", 308: "Permanent Redirect", 401: "Unauthorized", 407: "Proxy Authentication Required",
          416: "Range Not Satisfiable", 203: "Non-Authoritative Information"}


def handle(c, addr):
    try:
        c.setsockopt(socket.IPPROTO_TCP, socket.TCP_NODELAY, 1)
        # peek the request
        c.settimeout(10)
        req = b""
        first = c.recv(65536, socket.MSG_PEEK)
        line = first.split(b"\r\n", 1)[0].decode("latin1")
        parts = line.split(" ")
        path = parts[1] if len(parts) > 1 else "/"
        seg = path.strip("/").split("/")
        if seg and seg[0] == "s":
            seg = seg[1:]
        mode = seg[0] if seg else "cl"
        a = seg[1:]
        log("REQ", path)
        if mode == "noread":
            time.sleep(STALL)
            c.close()
            return
        while b"\r\n\r\n" not in req:
            d = c.recv(65536)
            if not d:
                break
            req += d
        L = len(NEW)

        if mode in ("cl", "clrst", "cl10"):
            ver = "HTTP/1.0" if mode == "cl10" else "HTTP/1.1"
            send(c, hdr(ver=ver, extra=["Content-Length: %d" % L]) + cutof(NEW, a[0] if a else -1))
            (rst if mode == "clrst" else fin)(c)
        elif mode in ("chunked", "chunkedrst"):
            sz = int(a[1]) if len(a) > 1 else 1000
            enc = chunk_encode(NEW, sz)
            send(c, hdr(extra=["Transfer-Encoding: chunked"]) + cutof(enc, a[0] if a else -1))
            (rst if mode == "chunkedrst" else fin)(c)
        elif mode in ("close", "closerst", "close10", "closenohdr"):
            ver = "HTTP/1.0" if mode == "close10" else "HTTP/1.1"
            extra = [] if mode in ("close10", "closenohdr") else ["Connection: close"]
            send(c, hdr(ver=ver, extra=extra) + cutof(NEW, a[0] if a else -1))
            (rst if mode == "closerst" else fin)(c)
        elif mode in ("hdrcut", "hdrcutrst"):
            h = hdr(extra=["Content-Length: %d" % L])
            send(c, h[:int(a[0])])
            (rst if mode == "hdrcutrst" else fin)(c)
        elif mode == "stall":
            if a[0] == "pre":
                pass
            elif a[0] == "hdr":
                h = hdr(extra=["Content-Length: %d" % L])
                send(c, h[:len(h) // 2])
            elif a[0] == "body":
                send(c, hdr(extra=["Content-Length: %d" % L]) + cutof(NEW, a[1]))
            sleep_until_peer_closes(c, STALL)
            c.close()
        elif mode == "stallclose":
            send(c, hdr(extra=["Connection: close"]) + cutof(NEW, a[1]))
            sleep_until_peer_closes(c, STALL)
            c.close()
        elif mode == "stallchunked":
            sz = int(a[2]) if len(a) > 2 else 1000
            send(c, hdr(extra=["Transfer-Encoding: chunked"]) + cutof(chunk_encode(NEW, sz), a[1]))
            sleep_until_peer_closes(c, STALL)
            c.close()
        elif mode in ("trickle", "trickleclose", "tricklechunked"):
            n, ms = int(a[0]), int(a[1])
            if mode == "trickle":
                h, body = hdr(extra=["Content-Length: %d" % L]), NEW
            elif mode == "trickleclose":
                h, body = hdr(extra=["Connection: close"]), NEW
            else:
                h, body = hdr(extra=["Transfer-Encoding: chunked"]), chunk_encode(NEW, 500)
            ok = send(c, h)
            i = 0
            while ok and i < len(body):
                ok = send(c, body[i:i + n])
                i += n
                log("TRICKLE", i)
                time.sleep(ms / 1000.0)
            fin(c)
        elif mode == "tricklehdr":
            ms = int(a[0])
            h = hdr(extra=["Content-Length: %d" % L])
            ok = True
            for i in range(len(h)):
                if not ok:
                    break
                ok = send(c, h[i:i + 1])
                time.sleep(ms / 1000.0)
            if ok:
                send(c, NEW)
            fin(c)
        elif mode == "status":
            code = int(a[0])
            variant = a[1] if len(a) > 1 else "body"
            st = "%d %s" % (code, REASON.get(code, "Whatever"))
            # body is the NEW document on purpose: if it leaks into the cache we see it
            body = NEW
            if variant == "body":
                send(c, hdr(status=st, extra=["Content-Length: %d" % len(body)]) + body)
            elif variant == "loc":
                send(c, hdr(status=st, extra=["Location: http://127.0.0.1:%d/s/cl/-1" % PORT,
                                               "Content-Length: %d" % len(body)]) + body)
            elif variant == "noloc":
                send(c, hdr(status=st, extra=["Content-Length: %d" % len(body)]) + body)
            elif variant == "empty":
                send(c, hdr(status=st, extra=["Content-Length: 0"]))
            elif variant == "chunked":
                send(c, hdr(status=st, extra=["Transfer-Encoding: chunked"]) + chunk_encode(body, 700))
            elif variant == "close":
                send(c, hdr(status=st, extra=["Connection: close"]) + body)
            elif variant == "cutbody":
                send(c, hdr(status=st, extra=["Content-Length: %d" % len(body)]) + body[:100])
            fin(c)
        elif mode == "gzip":
            z = gz.compress(NEW)
            send(c, hdr(extra=["Content-Encoding: gzip", "Content-Length: %d" % len(z)]) + z)
            fin(c)
        elif mode == "gzipchunked":
            z = gz.compress(NEW)
            send(c, hdr(extra=["Content-Encoding: gzip", "Transfer-Encoding: chunked"]) + chunk_encode(z, 300))
            fin(c)
        elif mode == "html":
            b = b"<html><head><title>Login</title></head><body>captive portal</body></html>\n"
            send(c, hdr(ctype="text/html", extra=["Content-Length: %d" % len(b)]) + b)
            fin(c)
        elif mode == "empty200":
            send(c, hdr(extra=["Content-Length: 0"]))
            fin(c)
        elif mode == "redir":
            code, port = int(a[0]), int(a[1])
            rest = "/".join(a[2:])
            st = "%d %s" % (code, REASON.get(code, "Redirect"))
            b = b"moved\n"
            send(c, hdr(status=st, extra=["Location: http://127.0.0.1:%d/s/%s" % (port, rest),
                                           "Content-Length: %d" % len(b)]) + b)
            fin(c)
        elif mode == "clsmall":
            n = int(a[0])
            send(c, hdr(extra=["Content-Length: %d" % (L - n)]) + NEW)
            fin(c)
        elif mode == "cllarge":
            n = int(a[0])
            send(c, hdr(extra=["Content-Length: %d" % (L + n)]) + NEW)
            if len(a) > 1 and a[1] == "hold":
                sleep_until_peer_closes(c, STALL)
                c.close()
            else:
                fin(c)
        elif mode == "cont100":
            send(c, b"HTTP/1.1 100 Continue\r\n\r\n")
            send(c, hdr(extra=["Content-Length: %d" % L]) + cutof(NEW, a[0] if a else -1))
            fin(c)
        elif mode == "garbage":
            send(c, b"\x00\x01\x02garbage garbage\r\n\r\n" + NEW)
            fin(c)
        elif mode == "http09":
            send(c, NEW)
            fin(c)
        elif mode == "twocl":
            send(c, hdr(extra=["Content-Length: %d" % L, "Content-Length: %d" % (L - 100)]) + NEW)
            fin(c)
        elif mode == "clte":
            send(c, hdr(extra=["Content-Length: %d" % 50, "Transfer-Encoding: chunked"]) + chunk_encode(NEW, 900))
            fin(c)
        elif mode in ("dieclose", "diecl", "diehdr"):
            # the connection is handled by a forked child that dies abruptly (os._exit) mid-response,
            # like a crashing / OOM-killed server worker: the kernel then closes the socket (FIN, request was read)
            import os
            pid = os.fork()
            if pid == 0:
                try:
                    if mode == "dieclose":
                        c.sendall(hdr(extra=["Connection: close"]) + cutof(NEW, a[0]))
                    elif mode == "diecl":
                        c.sendall(hdr(extra=["Content-Length: %d" % L]) + cutof(NEW, a[0]))
                    else:
                        c.sendall(hdr(extra=["Content-Length: %d" % L])[:int(a[0])])
                finally:
                    os.kill(os.getpid(), 9)
            c.close()
            os.waitpid(pid, 0)
        else:
            send(c, hdr(status="400 Bad scenario", extra=["Content-Length: 0"]))
            fin(c)
    except Exception as e:
        log("EXC", repr(e))
        try:
            c.close()
        except Exception:
            pass


def main():
    s = socket.socket(socket.AF_INET, socket.SOCK_STREAM)
    s.setsockopt(socket.SOL_SOCKET, socket.SO_REUSEADDR, 1)
    s.bind(("127.0.0.1", PORT))
    s.listen(512)
    log("LISTEN", PORT)
    while True:
        c, addr = s.accept()
        threading.Thread(target=handle, args=(c, addr), daemon=True).start()


main()
