#!/usr/bin/env python3
"""Phase 1: prior-cache x server-fault x entry matrix (no kills).

usage: matrix.py [--quick] [--jobs N] [--out results_matrix.jsonl]
Starts faultserver.py on 3500 and 3501 itself.
"""
import argparse
import concurrent.futures as cf
import json
import os
import subprocess
import sys
import time

sys.path.insert(0, os.path.dirname(__file__))
import huntlib as H

ap = argparse.ArgumentParser()
ap.add_argument("--quick", action="store_true")
ap.add_argument("--jobs", type=int, default=10)
ap.add_argument("--out", default=H.OUT + "/results_matrix.jsonl")
ap.add_argument("--only", default=None, help="substring filter on scenario path")
ap.add_argument("--priors", default=None)
args = ap.parse_args()

PORT, PORT2 = 3500, 3501
L = len(H.NEW)


def chunk_encode(body, sz):
    out = b""
    for i in range(0, len(body), sz):
        part = body[i:i + sz]
        out += b"%x\r\n" % len(part) + part + b"\r\n"
    return out + b"0\r\n\r\n"


def scenarios():
    S = []
    cuts = [0, 1, 2, 7, 100, 1000, 1023, 1024, 4096, L // 2, L - 100, L - 2, L - 1, -1]
    if args.quick:
        cuts = [0, 1, L // 2, L - 1, -1]
    for c in cuts:
        S += ["cl/%d" % c, "clrst/%d" % c, "close/%d" % c, "close10/%d" % c, "closerst/%d" % c, "closenohdr/%d" % c]
    S += ["cl10/%d" % c for c in (0, L // 2, L - 1, -1)]
    for sz in (1000, L):
        enc = chunk_encode(H.NEW, sz)
        E = len(enc)
        first_hdr = len(b"%x\r\n" % min(sz, L))
        ccuts = [0, 1, first_hdr - 1, first_hdr, first_hdr + 1, first_hdr + min(sz, L) - 1, first_hdr + min(sz, L),
                 first_hdr + min(sz, L) + 1, first_hdr + min(sz, L) + 2, first_hdr + min(sz, L) + 3,
                 E // 2, E - 8, E - 7, E - 6, E - 5, E - 4, E - 3, E - 2, E - 1, -1]
        if args.quick:
            ccuts = [0, E // 2, E - 5, E - 2, E - 1, -1]
        for c in sorted(set(ccuts), key=lambda x: (x < 0, x)):
            S += ["chunked/%d/%d" % (c, sz), "chunkedrst/%d/%d" % (c, sz)]
    hl = 17 + 20 + 32 + 22 + 2  # approx header length; exact cuts do not matter
    for n in (0, 1, 8, 9, 12, 15, 17, 30, 60, hl - 3, hl - 2, hl - 1):
        S += ["hdrcut/%d" % n, "hdrcutrst/%d" % n]
    S += ["stall/pre", "stall/hdr", "stall/body/0", "stall/body/1", "stall/body/%d" % (L // 2), "stall/body/%d" % (L - 1),
          "stallclose/body/0", "stallclose/body/%d" % (L // 2), "stallclose/body/%d" % (L - 1), "stallclose/body/-1",
          "stallchunked/body/%d/1000" % (L // 2), "stallchunked/body/%d/1000" % (len(chunk_encode(H.NEW, 1000)) - 2),
          "noread"]
    # slowloris: timeout is 400ms; 100 bytes / 50ms => 6.7 kB needs 3.3 s
    S += ["trickle/100/50", "trickleclose/100/50", "tricklechunked/100/50", "tricklehdr/50", "trickle/1/5"]
    for code in (204, 301, 302, 304, 404, 410, 500, 503, 206, 201, 203, 307, 308, 401, 407, 416, 429):
        S += ["status/%d/body" % code]
        if code in (301, 302, 307, 308):
            S += ["status/%d/loc" % code, "status/%d/noloc" % code]
        if code in (204, 304, 404, 500):
            S += ["status/%d/empty" % code, "status/%d/chunked" % code, "status/%d/close" % code,
                  "status/%d/cutbody" % code]
    S += ["gzip", "gzipchunked", "html", "empty200",
          "redir/301/%d/cl/-1" % PORT2, "redir/302/%d/cl/-1" % PORT2, "redir/307/%d/cl/-1" % PORT2,
          "redir/302/%d/x" % H.DEAD_PORT,
          "clsmall/1", "clsmall/100", "clsmall/%d" % (L - 1), "clsmall/%d" % L,
          "cllarge/1/fin", "cllarge/1/hold", "cllarge/1000/fin", "cllarge/1000/hold",
          "cont100/-1", "cont100/100", "garbage", "http09", "twocl", "clte", "REFUSED"]
    if args.only:
        S = [s for s in S if args.only in s]
    return S


def expected_prior_state(prior):
    return {"nodir": "ABSENT", "absent": "ABSENT", "fresh": "OLD", "stale": "OLD", "stale_invalid": "PRIOR",
            "empty": "PRIOR", "future": "OLD", "ro_file": "OLD", "ro_dir": "OLD", "isdir": "DIR",
            "dangling": "SYMLINK:dangling", "symlink_ok": "SYMLINK:OLD"}[prior]


def one(idx, prior, scen, entry):
    run_id = "m%05d" % idx
    nonroot = prior in ("ro_file", "ro_dir")
    url = "http://127.0.0.1:%d/s/%s" % (PORT, scen)
    if scen == "REFUSED":
        url = "http://127.0.0.1:%d/s/cl/-1" % H.DEAD_PORT
    d, prior_bytes = H.setup(run_id, prior, url, nonroot=nonroot)
    before = H.classify(d, prior_bytes)
    r = H.run_rink(d, entry, nonroot=nonroot)
    after = H.classify(d, prior_bytes)
    # follow-up start with server down
    H.write_cfg(d, "http://127.0.0.1:%d/down" % H.DEAD_PORT, name="cfg2")
    if nonroot:
        for root, dirs, files in os.walk(d + "/cfg2"):
            os.chown(root, H.NOBODY, H.NOBODY)
    r2 = H.run_rink(d, "expr", nonroot=nonroot, cfgname="cfg2")
    after2 = H.classify(d, prior_bytes)
    rec = {"id": run_id, "prior": prior, "scen": scen, "entry": entry, "before": before["state"],
           "after": after["state"], "leftovers": after["leftovers"], "rc": r["rc"], "secs": r["secs"], "hung": r["hung"],
           "rate": H.rate_used(r["out"]), "noncur": H.answers_noncurrency(r["out"]),
           "curl": H.curl_code(r["out"] + r["err"]),
           "after2": after2["state"], "rate2": H.rate_used(r2["out"]), "noncur2": H.answers_noncurrency(r2["out"]),
           "rc2": r2["rc"], "mode": after.get("mode")}
    flags = []
    exp = expected_prior_state(prior)
    assert before["state"] == exp, (before, exp)
    if after["state"] not in (exp, "NEW"):
        flags.append("CACHE_NOT_OLD_OR_NEW:" + after["state"])
    if after2["state"] != after["state"]:
        flags.append("FOLLOWUP_CHANGED_CACHE:" + after2["state"])
    if r["hung"]:
        flags.append("HUNG")
    if entry == "expr":
        if r["rc"] != 0:
            flags.append("RC=%s" % r["rc"])
        if not rec["noncur"]:
            flags.append("NO_NONCURRENCY_ANSWER")
        if after["state"] in ("OLD", "SYMLINK:OLD") and rec["rate"] != "OLD":
            flags.append("NO_FALLBACK_TO_STALE:rate=" + rec["rate"])
        if after["state"] == "NEW" and rec["rate"] != "NEW":
            flags.append("NEW_NOT_USED_NOW:rate=" + rec["rate"])
    if r2["rc"] != 0 or not rec["noncur2"]:
        flags.append("FOLLOWUP_START_FAILED")
    if after["state"] == "NEW" and rec["rate2"] != "NEW":
        flags.append("NEW_NOT_VISIBLE_NEXT_START:" + rec["rate2"])
    if after["state"] in ("OLD", "SYMLINK:OLD") and rec["rate2"] != "OLD":
        flags.append("FOLLOWUP_NOT_OLD:" + rec["rate2"])
    if after["leftovers"]:
        flags.append("LEFTOVER:" + ",".join(after["leftovers"]) if isinstance(after["leftovers"], list) else "LEFTOVER?")
    rec["flags"] = flags
    if flags:
        rec["out"] = r["out"][-1500:]
        rec["err"] = r["err"][-800:]
        rec["out2"] = r2["out"][-600:]
    H.force_rmtree(d)
    return rec


def main():
    os.makedirs(H.RUNS, exist_ok=True)
    servers = []
    for p in (PORT, PORT2):
        servers.append(subprocess.Popen([sys.executable, H.OUT + "/faultserver.py", str(p), H.NEWDOC,
                                         H.OUT + "/server_%d.log" % p]))
    time.sleep(0.7)
    priors = H.PRIORS if not args.priors else args.priors.split(",")
    S = scenarios()
    jobs = []
    idx = 0
    for prior in priors:
        for scen in S:
            for entry in ("expr", "fetch"):
                jobs.append((idx, prior, scen, entry))
                idx += 1
    print("scenarios: %d server x %d prior x 2 entry = %d runs" % (len(S), len(priors), len(jobs)), flush=True)
    n = 0
    nflag = 0
    t0 = time.time()
    with open(args.out, "w") as fo, cf.ThreadPoolExecutor(args.jobs) as ex:
        for rec in ex.map(lambda j: one(*j), jobs):
            fo.write(json.dumps(rec) + "\n")
            n += 1
            if rec["flags"]:
                nflag += 1
            if n % 200 == 0:
                print("%d/%d done, %d flagged, %.0fs" % (n, len(jobs), nflag, time.time() - t0), flush=True)
    for s in servers:
        s.terminate()
    print("done: %d runs, %d flagged" % (n, nflag))


main()
