#!/bin/bash
cd /tmp/hunt2out-c20
python3 faultserver2.py 3572 new.json & SRV=$!
sleep 0.5
sed -i 's/3570/3572/' man/run.sh
for t in 0s 500us 1ms; do echo "## timeout=$t stall/pre"; s=$(date +%s.%N); TMO=$t timeout 12 man/run.sh stall/pre expr 2>&1 | grep -E "rc=|USD|Timeout|meter|CACHE" ; echo "exit=$? elapsed=$(echo "$(date +%s.%N) - $s" | bc)"; done
sed -i 's/3572/3570/' man/run.sh
kill $SRV
