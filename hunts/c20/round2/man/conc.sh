#!/bin/bash
cd /tmp/hunt2out-c20
RINK=/tmp/hunt2wt-c20/target/debug/rink; bad=0
BODYDIR=/tmp/hunt2out-c20/bodies python3 faultserver2.py 3571 new.json & SRV=$!
sleep 0.5
for round in $(seq 1 40); do
  D=/tmp/hunt2out-c20/man/conc; rm -rf $D; mkdir -p $D/cache/rink; cp old.json $D/cache/rink/currency.json; touch -d '2 days ago' $D/cache/rink/currency.json
  i=0; pids=()
  for s in cl/-1 close/3000 body/html/cl trickleclose/500/5 cl/-1 hdrcut/30 chunked/4000/1000 body/bad_utf8/close trickle/700/3 close/-1 status/500/body clrst/6000; do
    i=$((i+1)); mkdir -p $D/cfg$i/rink; printf '[currency]\nendpoint = "http://127.0.0.1:3571/s/%s"\ntimeout = "2s"\n' $s > $D/cfg$i/rink/config.toml
    if [ $((i%2)) = 0 ]; then args="--fetch-currency"; else args="1 EUR to USD"; fi
    HOME=$D XDG_CACHE_HOME=$D/cache XDG_CONFIG_HOME=$D/cfg$i RUST_BACKTRACE=0 NO_COLOR=1 $RINK $args >/dev/null 2>&1 &
    pids+=($!)
  done
  if [ $((round%3)) = 0 ]; then sleep 0.0$((round%9+1)); kill -9 ${pids[3]} ${pids[8]} ${pids[0]} 2>/dev/null; fi
  wait "${pids[@]}" 2>/dev/null
  if cmp -s $D/cache/rink/currency.json new.json; then st=NEW; elif cmp -s $D/cache/rink/currency.json old.json; then st=OLD; else st=BAD; bad=$((bad+1)); fi
  echo -n "$st($(ls $D/cache/rink | grep -vc '^currency.json$')) "
done; echo; echo "bad=$bad"
kill $SRV
