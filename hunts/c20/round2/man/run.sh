#!/bin/bash
# usage: run.sh <scenario-path> <entry: expr|fetch> [prior: stale|absent|invalid]   (server on 3570 must be running)
OUT=/tmp/hunt2out-c20; RINK=/tmp/hunt2wt-c20/target/debug/rink
D=$OUT/man/d; rm -rf $D; mkdir -p $D/cache/rink $D/cfg/rink
case "${3:-stale}" in
 stale) cp $OUT/old.json $D/cache/rink/currency.json; touch -d '2 days ago' $D/cache/rink/currency.json;;
 invalid) head -c 3000 $OUT/old.json > $D/cache/rink/currency.json; touch -d '2 days ago' $D/cache/rink/currency.json;;
 absent) ;;
esac
printf '[currency]\nendpoint = "http://127.0.0.1:3570/s/%s"\ntimeout = "%s"\n' "$1" "${TMO:-2s}" > $D/cfg/rink/config.toml
export HOME=$D XDG_CACHE_HOME=$D/cache XDG_CONFIG_HOME=$D/cfg RUST_BACKTRACE=0 NO_COLOR=1
if [ "$2" = fetch ]; then $PRE $RINK --fetch-currency; else $PRE $RINK "1 EUR to USD" "3 foot to m"; fi
echo "rc=$?"; ls -la $D/cache/rink; cmp $D/cache/rink/currency.json $OUT/old.json && echo CACHE==OLD
