#!/bin/bash
# Reproduce a C20 finding with the real rink binary and the fault server.
# usage: repro.sh <server-scenario> [expr|fetch]
#   V1  close-delimited body cut by FIN      : repro.sh close/3000      (also close10/N, closenohdr/N, dieclose/N)
#   V2  FIN in the middle of the headers     : repro.sh hdrcut/30       (any 17..91; also diehdr/30)
#   B1  Content-Length smaller than the body : repro.sh clsmall/100     (borderline, server lies)
#   controls that keep the old cache         : repro.sh cl/3000 ; repro.sh chunked/3000/1000 ; repro.sh hdrcut/92
set -u
OUT=/tmp/hunt2out-c20
RINK=/tmp/hunt2wt-c20/target/debug/rink
SCEN=${1:-close/3000}
ENTRY=${2:-expr}
D=$OUT/repro_tmp
PORT=3530
rm -rf "$D"; mkdir -p "$D/cache/rink" "$D/cfg/rink" "$D/cfg2/rink"
python3 -c "import sys; sys.path.insert(0,'$OUT'); import huntlib"   # (re)creates old.json / new.json
python3 $OUT/faultserver.py $PORT $OUT/new.json & SRV=$!
sleep 0.5
cp $OUT/old.json "$D/cache/rink/currency.json"
touch -d '2 days ago' "$D/cache/rink/currency.json"            # stale but valid previous cache
printf '[currency]\nendpoint = "http://127.0.0.1:%s/s/%s"\ntimeout = "2s"\ncache_duration = "1h"\nfetch_on_startup = true\n' $PORT "$SCEN" > "$D/cfg/rink/config.toml"
printf '[currency]\nendpoint = "http://127.0.0.1:3599/down"\ntimeout = "2s"\ncache_duration = "1h"\nfetch_on_startup = true\n' > "$D/cfg2/rink/config.toml"
export HOME=$D XDG_CACHE_HOME=$D/cache RUST_BACKTRACE=0 NO_COLOR=1
C=$D/cache/rink/currency.json
echo "== before : $(cmp -s $C $OUT/old.json && echo "cache == old.json ($(stat -c %s $C) bytes, 1 EUR = 1.0852 USD)")"
echo "== refresh: server scenario '$SCEN' (new.json is $(stat -c %s $OUT/new.json) bytes, 1 EUR = 1.23456 USD)"
if [ "$ENTRY" = fetch ]; then XDG_CONFIG_HOME=$D/cfg $RINK --fetch-currency; else XDG_CONFIG_HOME=$D/cfg $RINK "1 EUR to USD" "3 foot to m"; fi
echo "rc=$?"
kill $SRV
N=$(stat -c %s $C)
echo "== after  : cache is $N bytes"
if cmp -s $C $OUT/old.json; then echo "   == old.json   (OK: complete previous contents)";
elif cmp -s $C $OUT/new.json; then echo "   == new.json   (OK: complete new contents)";
elif [ "$N" = 0 ] || cmp -s -n $N $C $OUT/new.json; then echo "   == first $N bytes of new.json   <-- PARTIAL FILE, neither old nor new: violates C20";
else echo "   == something else"; fi
echo "   other files in cache dir: $(ls $D/cache/rink | grep -v '^currency.json$' | tr '\n' ' ')"
echo "== next start with the server down:"
XDG_CONFIG_HOME=$D/cfg2 $RINK "1 EUR to USD" "3 foot to m"
rm -rf "$D"
