#!/usr/bin/env python3
"""Shared helpers for the C20 hunt: documents, prior cache states, running rink, classifying the cache."""
import json
import os
import shutil
import signal
import stat
import subprocess
import time

OUT = "/tmp/hunt2out-c20"
RINK = "/tmp/hunt2wt-c20/target/debug/rink"
SNAP = "/tmp/hunt2wt-c20/core/tests/currency.snapshot.json"
RUNS = OUT + "/runs"
NOBODY = 65534
DEAD_PORT = 3599  # nothing listens here

OLD = open(SNAP, "rb").read()
# NEW differs from OLD at the very start, in the middle (USD rate) and at the very end, and in length.
_new = OLD.replace(b"1.0852", b"1.23456")
assert _new != OLD
_new = _new.replace(b'"name": "BTC"', b'"name":  "BTC"', 1)
_new = _new.rstrip()
assert _new.endswith(b"]")
_new = _new[:-1] + b',\n\t{"name":"zzznew","doc":"marker at the end","category":"currencies","type":"unit","expr":"7 USD"}\n]\n'
NEW = _new
json.loads(NEW)
json.loads(OLD)
INVALID = OLD[: len(OLD) // 2]  # stale, invalid JSON (truncated document)
NEWDOC = OUT + "/new.json"
OLDDOC = OUT + "/old.json"
if not os.path.exists(NEWDOC) or open(NEWDOC, "rb").read() != NEW:
    open(NEWDOC, "wb").write(NEW)
    open(OLDDOC, "wb").write(OLD)

# rates as rink prints them
OLD_RATE = "1.0852"
NEW_RATE = "1.23456"

PRIORS = ["nodir", "absent", "fresh", "stale", "stale_invalid", "empty", "future",
          "ro_file", "ro_dir", "isdir", "dangling", "symlink_ok"]


def setup(run_id, prior, url, timeout="400ms", cache_duration="1h", fetch_on_startup=True, nonroot=False):
    d = os.path.join(RUNS, run_id)
    if os.path.exists(d):
        force_rmtree(d)
    os.makedirs(d + "/cfg/rink")
    os.makedirs(d + "/cache")
    write_cfg(d, url, timeout, cache_duration, fetch_on_startup)
    cdir = d + "/cache/rink"
    cfile = cdir + "/currency.json"
    prior_bytes = None
    if prior != "nodir":
        os.makedirs(cdir)
    now = time.time()
    old_t = now - 2 * 86400

    def put(data, t, mode=0o644):
        with open(cfile, "wb") as f:
            f.write(data)
        os.utime(cfile, (t, t))
        os.chmod(cfile, mode)

    if prior in ("nodir", "absent"):
        pass
    elif prior == "fresh":
        put(OLD, now - 5); prior_bytes = OLD
    elif prior == "stale":
        put(OLD, old_t); prior_bytes = OLD
    elif prior == "stale_invalid":
        put(INVALID, old_t); prior_bytes = INVALID
    elif prior == "empty":
        put(b"", old_t); prior_bytes = b""
    elif prior == "future":
        put(OLD, now + 86400); prior_bytes = OLD
    elif prior == "ro_file":
        put(OLD, old_t, 0o444); prior_bytes = OLD
    elif prior == "ro_dir":
        put(OLD, old_t); prior_bytes = OLD
    elif prior == "isdir":
        os.makedirs(cfile + "/sub")
        os.utime(cfile, (old_t, old_t))
    elif prior == "dangling":
        os.symlink(d + "/nonexistent-target.json", cfile)
    elif prior == "symlink_ok":
        with open(d + "/linktarget.json", "wb") as f:
            f.write(OLD)
        os.utime(d + "/linktarget.json", (old_t, old_t))
        os.symlink(d + "/linktarget.json", cfile)
        prior_bytes = OLD
    else:
        raise ValueError(prior)
    if nonroot:
        for root, dirs, files in os.walk(d):
            os.lchown(root, NOBODY, NOBODY)
            for n in dirs + files:
                os.lchown(os.path.join(root, n), NOBODY, NOBODY)
    if prior == "ro_dir":
        os.chmod(cdir, 0o555)
    return d, prior_bytes


def write_cfg(d, url, timeout="400ms", cache_duration="1h", fetch_on_startup=True, name="cfg"):
    os.makedirs(d + "/" + name + "/rink", exist_ok=True)
    with open(d + "/" + name + "/rink/config.toml", "w") as f:
        f.write('[currency]\nendpoint = "%s"\ntimeout = "%s"\ncache_duration = "%s"\nfetch_on_startup = %s\n'
                % (url, timeout, cache_duration, "true" if fetch_on_startup else "false"))


def force_rmtree(d):
    for root, dirs, files in os.walk(d):
        try:
            os.chmod(root, 0o755)
        except Exception:
            pass
    shutil.rmtree(d, ignore_errors=True)


def env_for(d, cfgname="cfg"):
    return {"HOME": d, "XDG_CACHE_HOME": d + "/cache", "XDG_CONFIG_HOME": d + "/" + cfgname,
            "RUST_BACKTRACE": "0", "NO_COLOR": "1", "PATH": "/usr/bin:/bin", "TZ": "UTC"}


ENTRY = {"expr": ["1 EUR to USD", "3 foot to m"], "fetch": ["--fetch-currency"]}


def run_rink(d, entry, nonroot=False, cfgname="cfg", wall=20, prefix=None, preexec=None, env_extra=None):
    cmd = [RINK] + ENTRY[entry]
    if nonroot:
        cmd = ["setpriv", "--reuid", str(NOBODY), "--regid", str(NOBODY), "--clear-groups"] + cmd
    if prefix:
        cmd = prefix + cmd
    env = env_for(d, cfgname)
    if env_extra:
        for k, v in env_extra.items():
            if v is None:
                env.pop(k, None)
            else:
                env[k] = v
    t0 = time.time()
    p = subprocess.Popen(cmd, env=env, stdout=subprocess.PIPE, stderr=subprocess.PIPE, stdin=subprocess.DEVNULL,
                         cwd=d, preexec_fn=preexec)
    try:
        out, err = p.communicate(timeout=wall)
        hung = False
    except subprocess.TimeoutExpired:
        p.kill()
        out, err = p.communicate()
        hung = True
    return {"rc": p.returncode, "out": out.decode("utf8", "replace"), "err": err.decode("utf8", "replace"),
            "secs": round(time.time() - t0, 3), "hung": hung}


def classify(d, prior_bytes):
    cdir = d + "/cache/rink"
    cfile = cdir + "/currency.json"
    res = {}
    try:
        st = os.lstat(cfile)
    except FileNotFoundError:
        res["state"] = "ABSENT"
        st = None
    except NotADirectoryError:
        res["state"] = "ABSENT"
        st = None
    if st is not None:
        if stat.S_ISLNK(st.st_mode):
            tgt = os.readlink(cfile)
            if os.path.exists(cfile):
                data = open(cfile, "rb").read()
                res["state"] = "SYMLINK:" + content_class(data, prior_bytes)
            else:
                res["state"] = "SYMLINK:dangling"
        elif stat.S_ISDIR(st.st_mode):
            res["state"] = "DIR"
        else:
            try:
                data = open(cfile, "rb").read()
                res["state"] = content_class(data, prior_bytes)
                res["mode"] = oct(st.st_mode & 0o777)
            except Exception as e:
                res["state"] = "UNREADABLE:" + repr(e)
    try:
        res["leftovers"] = sorted(n for n in os.listdir(cdir) if n != "currency.json")
    except FileNotFoundError:
        res["leftovers"] = None
    except PermissionError:
        res["leftovers"] = "EPERM"
    return res


def content_class(data, prior_bytes):
    if data == NEW:
        return "NEW"
    if prior_bytes is not None and data == prior_bytes:
        if data == OLD:
            return "OLD"
        return "PRIOR"
    if data == OLD:
        return "OLD"
    # something else: describe
    desc = "OTHER(len=%d" % len(data)
    if NEW.startswith(data):
        desc += ",prefix-of-NEW"
    elif OLD.startswith(data):
        desc += ",prefix-of-OLD"
    else:
        # longest common prefix with NEW / OLD
        def lcp(a, b):
            n = 0
            for x, y in zip(a, b):
                if x != y:
                    break
                n += 1
            return n
        desc += ",lcpNEW=%d,lcpOLD=%d" % (lcp(data, NEW), lcp(data, OLD))
    return desc + ")"


def rate_used(out):
    """Which rate did '1 EUR to USD' print?"""
    if "1 EUR to USD" not in out:
        return "n/a"
    if NEW_RATE in out:
        return "NEW"
    if OLD_RATE in out:
        return "OLD"
    if "No such unit EUR" in out:
        return "NOCUR"
    return "?"


def answers_noncurrency(out):
    return "0.9144 meter" in out


def curl_code(text):
    import re
    m = re.search(r"\[(\d+)\] ([^\n(]*)(\([^\n]*\))?", text)
    if m:
        return "[%s] %s %s" % (m.group(1), m.group(2).strip(), (m.group(3) or "").strip())
    m = re.search(r"Received status (\d+)", text)
    if m:
        return "status %s" % m.group(1)
    return ""
