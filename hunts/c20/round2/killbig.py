#!/usr/bin/env python3
"""kill -9 sweep while a 50 MB valid body is downloaded, validated (read back + JSON parse) and renamed.
Oracle: cache == OLD or cache == big50 (complete). usage: killbig.py [step_ms] [span_ms]"""
import concurrent.futures as cf, hashlib, json, os, signal, subprocess, sys, time
sys.path.insert(0, os.path.dirname(__file__))
import huntlib as H
PORT = 3590
BD = H.OUT + "/bodies"
step = float(sys.argv[1]) if len(sys.argv) > 1 else 3
span = float(sys.argv[2]) if len(sys.argv) > 2 else 900
BIG = open(BD + "/big50", "rb").read()
BIGH = hashlib.sha256(BIG).hexdigest()


def one(i, framing, entry, delay, sig):
    d, pb = H.setup("g%05d" % i, "stale", "http://127.0.0.1:%d/s/body/big50/%s" % (PORT, framing), timeout="20s")
    p = subprocess.Popen([H.RINK] + H.ENTRY[entry], env=H.env_for(d), cwd=d, stdout=subprocess.PIPE, stderr=subprocess.PIPE, stdin=subprocess.DEVNULL)
    time.sleep(delay)
    alive = p.poll() is None
    try: p.send_signal(sig)
    except Exception: pass
    out, err = p.communicate()
    cfile = d + "/cache/rink/currency.json"
    data = open(cfile, "rb").read()
    st = "OLD" if data == H.OLD else "BIG" if hashlib.sha256(data).hexdigest() == BIGH else "BAD(len=%d)" % len(data)
    left = [(x, os.path.getsize(d + "/cache/rink/" + x)) for x in os.listdir(d + "/cache/rink") if x != "currency.json"]
    # phase guess from leftover size
    H.write_cfg(d, "http://127.0.0.1:%d/down" % H.DEAD_PORT, name="cfg2")
    r2 = H.run_rink(d, "expr", cfgname="cfg2", wall=60)
    ok2 = r2["rc"] == 0 and H.answers_noncurrency(r2["out"])
    rate2 = H.rate_used(r2["out"])
    H.force_rmtree(d)
    return {"framing": framing, "entry": entry, "delay": round(delay * 1000, 1), "sig": int(sig), "alive": alive, "rc": p.returncode, "state": st, "left": left,
            "ok2": ok2, "rate2": rate2}


os.makedirs(H.RUNS, exist_ok=True)
srv = subprocess.Popen([sys.executable, H.OUT + "/faultserver2.py", str(PORT), H.NEWDOC], env=dict(os.environ, BODYDIR=BD))
time.sleep(0.6)
jobs = []
i = 0
for framing in ("cl", "close"):
    for entry in ("fetch", "expr"):
        for k in range(int(span / step) + 1):
            sig = signal.SIGKILL if k % 4 else signal.SIGTERM
            jobs.append((i, framing, entry, k * step / 1000.0, sig)); i += 1
res = []
with cf.ThreadPoolExecutor(4) as ex:
    for r in ex.map(lambda j: one(*j), jobs):
        res.append(r)
srv.terminate()
json.dump(res, open(H.OUT + "/results_killbig.json", "w"))
import collections
print(len(res), "runs; killed while alive:", sum(r["alive"] for r in res))
print(collections.Counter((r["state"], "full-temp" if r["left"] and r["left"][0][1] == len(BIG) else "part-temp" if r["left"] else "no-temp") for r in res if r["alive"]))
bad = [r for r in res if r["state"].startswith("BAD") or not r["ok2"] or (r["state"] == "OLD" and r["rate2"] != "OLD") or (r["state"] == "BIG" and r["rate2"] != "NEW")]
print("violations:", len(bad))
for r in bad[:20]: print(r)
