#!/usr/bin/env python3
"""Determinism self-test (DESIGN.md 2.8): for each engine, run the same seeds
in different processes and at different worker counts, and diff the per-run
digests. Each `digests` line also carries the digest of the run replayed from
its own recorded choices; both must agree.

usage: ./check selftest-determinism [C15 C18 C19 C20] [--runs N]
exit 0 = identical everywhere; 2 = divergence (a harness problem, never a verdict)."""
import os, subprocess, sys, concurrent.futures as cf

ROOT = os.path.dirname(os.path.dirname(os.path.abspath(__file__)))
PKG = {"C18": "h-sandbox", "C19": "h-sandbox", "C20": "h-cache", "C15": "h-history"}
DEFAULT_RUNS = {"C18": 2400, "C19": 4000, "C20": 2400, "C15": 480}

def digests(pid, runs, workers, seed):
    exe = os.path.join(ROOT, "target", "release", PKG[pid])
    env = dict(os.environ, RUST_BACKTRACE="0", TZ="UTC", VERIF_ROOT=ROOT)
    def one(w):
        out = subprocess.run([exe, pid, "digests", "--seed", str(seed), "--from", str(w), "--stride", str(workers), "--runs", str(runs)],
                             capture_output=True, text=True, env=env)
        if out.returncode != 0:
            raise SystemExit(f"HARNESS-ERROR digests worker failed for {pid}: {out.stderr[-400:]}")
        return out.stdout
    res = {}
    with cf.ThreadPoolExecutor(max_workers=workers) as ex:
        for text in ex.map(one, range(workers)):
            for line in text.splitlines():
                parts = line.split()
                if len(parts) == 4 and parts[0].isdigit():
                    res[int(parts[0])] = (parts[1], parts[2], parts[3])
    return res

def main():
    args = sys.argv[1:]
    runs_override = None
    if "--runs" in args:
        i = args.index("--runs"); runs_override = int(args[i + 1]); del args[i:i + 2]
    pids = args or ["C18", "C19", "C20", "C15"]
    bad = 0
    for pid in pids:
        runs = runs_override or DEFAULT_RUNS[pid]
        seed = 777
        a = digests(pid, runs, 16, seed)
        b = digests(pid, runs, 4, seed)
        c = digests(pid, runs, 1 if runs <= 600 else 3, seed)
        diverged = [i for i in a if a[i][0] != b.get(i, ("?",))[0] or a[i][0] != c.get(i, ("?",))[0]]
        selfreplay = [i for i in a if a[i][0] != a[i][1]]
        viol = [i for i in a if a[i][2] != "-"]
        print(f"{pid}: {len(a)} runs x 3 process layouts (16/4/{1 if runs <= 600 else 3} workers): "
              f"{len(diverged)} diverged across processes, {len(selfreplay)} differ when replayed from their own record, {len(viol)} violations")
        for i in (diverged + selfreplay)[:5]:
            print("   run", i, a.get(i), b.get(i), c.get(i))
        bad += len(diverged) + len(selfreplay)
    if bad:
        print("HARNESS-ERROR nondeterminism detected")
        return 2
    print("deterministic")
    return 0

if __name__ == "__main__":
    sys.exit(main())
