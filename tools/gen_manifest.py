#!/usr/bin/env python3
"""Writes /verif/MANIFEST.json. Edit the tables here, not the JSON."""
import json, os, subprocess
ROOT = os.path.dirname(os.path.dirname(os.path.abspath(__file__)))

NA = {
 "C01": "Exact arithmetic is a pure function of the query text (BigRat arithmetic, no environment): no schedule, clock, fault or interleaving for a simulator to own; input generation would be a different technique.",
 "C02": "Dimensional soundness is a pure function of (expression, database): exponent-vector algebra over ordered maps; nothing to schedule or fail.",
 "C03": "Conversion exactness is a pure function of (value, target unit, database).",
 "C04": "Totality quantifies over input strings of a pure evaluator; its only history aspect (a query leaves the context unchanged) is covered by C15; CPU time of a pure evaluation is not a simulated timer.",
 "C05": "Printed numerals are a pure function of (rational, base, digits mode).",
 "C06": "Displayed value x unit is a pure function of (number, database).",
 "C07": "Name resolution order is a pure look-up over ordered maps; there is no nondeterminism source (no hash iteration, clock or threads in registry.rs) to put behind a seam.",
 "C08": "Database fixed point is a pure function of the definition text; 'two loads agree' has no environment input to vary.",
 "C09": "Unit lists / duration breakdown are pure mixed-radix arithmetic.",
 "C10": "Temperature scales are pure affine maps over database constants.",
 "C11": "Print/re-parse round trip is a pure function of the expression tree.",
 "C12": "Definition order independence quantifies over permutations of an input list; the loader has no schedule of its own (everything is keyed into BTreeMaps).",
 "C13": "Loader robustness quantifies over arbitrary input text/JSON; the thin slice caused by storage faults (a damaged cache file reaching load_currency at start-up) is exercised incidentally by C20's 'still starts' oracle and is not claimed.",
 "C14": "Date arithmetic is a pure function of (instant, duration, ctx.now, TZ); the clock is an explicit argument, not a race.",
 "C16": "Substance properties are a pure function of (substance, amount).",
 "C17": "units-for / factorize are pure functions of (dimensionality, database).",
}

CHECKS = {
 "C18": dict(
   engine="simkit+h-sandbox",
   category="exploration",
   text="Seeded deterministic simulation of the real parent.rs + child.rs + frame.rs (client task, run_task, one controlled thread per child process, virtual timers, bounded POSIX-like pipes (atomic up to PIPE_BUF, partial non-blocking writes beyond it), kill/exit/abort) over seeded request sequences from the property's alphabet (the first 9330 runs of a batch enumerate every sequence of kinds of length 1..5, every fault kind in every position; the rest are random); per-request reference oracle (own reply, in order, recovery, bounded liveness, no deadlock). Sampling, not enumeration: a clean batch is evidence. Violations are minimised and replay bit-for-bit.",
   design_ref="DESIGN.md 5.1",
   note="Trusted: simkit's POSIX-like pipe/process/timer model (EPIPE, EOF, kill closes ends at once), one child = one controlled thread, interleavings at seam granularity; the child's memory limit is a private real Alloc charged by the test service and, through two hook lines in frame.rs, by the frame buffer and the serialised reply (exhaustion = abort).",
   technique="deterministic simulation with fault injection: seeded schedules x fault sequences, per-step reference oracle, minimised replay"),
 "C19": dict(
   engine="simkit+h-sandbox",
   category="exploration",
   text="Seeded deterministic simulation of the real alloc.rs: operation histories (alloc, alloc_zeroed, realloc up/down, dealloc; boundary sizes around the limit and close to isize::MAX; four ordinary limits, plus limits beyond any machine: usize::MAX, isize::MAX, about 2^63 and 2^62) against a reference ledger, sequentially with checks after every operation (the first runs of a batch enumerate all histories up to length 4 over 22 operations; the rest are random) and concurrently from 2..16 controlled threads where every atomic operation is a scheduling point under seeded policies; the parent allocator is made to refuse with a seeded probability. Invariants: conservation of tracked usage, limit never exceeded by a success, refusal is a no-op on usage and block contents, peak never below the high-water mark, zeroing and prefix preservation, no block released while its owner holds it (the parent stand-in keeps a registry and a quarantine). One known finding is listed in known_findings.txt (peak under-reported when requests that fit a limit of 2^60 or more wrap the counter) and printed as KNOWN-FINDING. Sampling, not enumeration.",
   design_ref="DESIGN.md 5.2",
   note="Trusted: sequentially consistent interleavings only (one thread runs at a time); reset_max/get_max only at quiescent points; conservative refusals are allowed by the one-directional 'only if'.",
   technique="deterministic simulation with fault injection: controlled-thread scheduler over atomic operations + failing parent allocator, reference ledger oracle, minimised replay"),
 "C20": dict(
   engine="simkit+h-cache",
   category="fault_enumeration",
   text="The real cli/src/config.rs runs over an in-memory POSIX-like file system, a virtual clock and a scripted HTTP transfer. Seeded histories of process runs (start-up, full load(), --fetch-currency) from every prior cache state, every server behaviour (complete, cut after k bytes by close or reset, stall, 3xx/4xx/5xx, refused, DNS), file-system errors at chosen calls and clock jumps; for most histories the kill point is swept over every file-system/transfer step of one run (and inside each write). After every run the cache bytes must be the previous bytes or the complete body of a 200 response that completed; failed refreshes must fall back to the stale cache and still start; completed refreshes must be visible to this and the next start; every run terminates within the transfer timeout. Every state the cache path goes through during a run is held to the same previous-or-complete-new rule (what a reader or a kill at that instant finds). One history in six adds a second rink process on the same cache directory, both running the real code on their own threads one at a time with a seeded switch decision before every file-system/transfer step (advisory file locks included). One full-load run in three is a start-up with sandboxing enabled: the real parent.rs/child.rs/frame.rs between rink and a child that runs the real config::load again before its handshake, the child's stdout being the frame pipe.",
   design_ref="DESIGN.md 5.3",
   note="Trusted: the stand-ins for std::fs/curl/tempfile/dirs (behaviours listed in DESIGN.md 2.4/2.8); crash = process kill (completed operations persist, rename atomic), not power loss; one file-system or transfer step is atomic with respect to a second process.",
   technique="deterministic simulation with fault injection: crash-point sweep over FS/transfer steps of seeded histories, scripted server faults, FS error injection, seeded interleaving of two processes on one disk, history and every-instant oracle on the cache bytes"),
 "C15": dict(
   engine="simkit+h-history",
   category="exploration",
   text="Seeded histories of queries on one Context driven only through rink_core::eval under a virtual wall clock (advances and backward jumps) with the save_previous_result flag toggled. Three readings of 'a fresh context' are compared with it: a model of ans/clock/settings after every query; an in-process reference context driven through the same entry point with ans, flag and clock preset from the model before every query; and, for a seeded subset of each history, a brand-new OS process (fresh context, statics and thread-locals). A context whose Debug dump differs from a pristine one is questioned with a battery of queries against a fresh process. Replays run in a fresh process; a violation that needs earlier histories of the worker is re-expressed as one combined history. Modest claim: no concurrency or I/O exists here; the simulator contributes the clock seam, the history driver, the reference model and replay/minimisation.",
   design_ref="DESIGN.md 5.4",
   note="Trusted: the model of ans (replies in seconds may or may not update ans: both accepted); state leaking outside the context is only visible to the fresh-process subset (sampled).",
   technique="deterministic simulation: seeded query histories under a simulated clock against a per-step reference model and a fresh-process oracle, minimised replay"),
}

def build():
    checks = []
    for pid, c in sorted(CHECKS.items()):
        checks.append({
            "property_id": pid,
            "quick_cmd": f"./check {pid} --tier quick",
            "thorough_cmd": f"./check {pid} --tier thorough",
            "evidence_file": f"evidence/{pid}.json",
            "replay_cmd_template": f"./check {pid} --replay {{path}}",
            "engine": c["engine"],
            "level_claimed": {"category": c["category"], "text": c["text"], "design_ref": c["design_ref"]},
            "level_note": c["note"],
            "technique": c["technique"],
        })
    na = [{"property_id": k, "reason": v} for k, v in sorted(NA.items()) if k not in CHECKS]
    hooks = subprocess.run(["git", "-C", "/repo", "log", "--format=%H %s", "--grep=^verif hooks"], capture_output=True, text=True).stdout.split("\n")
    hook_commits = [l.split()[0] for l in hooks if l.strip()]
    m = {
        "version": 1,
        "setup_cmd": "./check setup",
        "hooks": {
            "guard": "rink_verif_sim",
            "enable": "rustc cfg: RUSTFLAGS=--cfg rink_verif_sim, set for /verif's own cargo workspace in /verif/.cargo/config.toml; rink-sandbox is compiled as a generated shadow crate (a manifest with one extra path dependency on simkit plus copies of /repo's sandbox/src/*.rs, made from the working tree by every check, in which full-path uses of std/async-std facilities are re-routed to the simulator)",
            "baseline_off_cmd": "cd /repo && (cargo nextest run --workspace --no-fail-fast --test-threads 8 --offline || cargo test --workspace --no-fail-fast --offline)",
            "source_commits": hook_commits,
            "add_only": True,
        },
        "engines": [
            {"name": "simkit", "path": "simkit", "serves_properties": sorted(CHECKS), "kind_free_text": "hand-written deterministic simulator: virtual clock and timers, seeded scheduler over async tasks and baton-controlled OS threads, simulated pipes/process table/FS/HTTP transfer, Chooser-recorded decisions, generic minimiser, replay files, master/worker runner"},
            {"name": "h-sandbox", "path": "harness/sandbox", "serves_properties": ["C18", "C19"], "kind_free_text": "scenario generators, test service and oracles for the sandbox crate (compiled against the generated shadow crate of rink-sandbox)"},
            {"name": "h-cache", "path": "harness/cache", "serves_properties": ["C20"], "kind_free_text": "cli/src/config.rs compiled against stand-in crates named curl, tempfile, dirs (standins/), history generator, crash sweep and oracle"},
            {"name": "h-history", "path": "harness/history", "serves_properties": ["C15"], "kind_free_text": "query-history generator and reference model over rink_core::eval"},
        ],
        "checks": checks,
        "not_applicable": na,
        "notes": "Exit codes of every check: 0 held, 1 violation (VIOLATION line + replay file), 2 harness error (never a verdict). VERIF_SEED selects the batch; default is a fixed constant. known_findings.txt lists fixed:/known: entries.",
    }
    json.dump(m, open(os.path.join(ROOT, "MANIFEST.json"), "w"), indent=1)
    print("MANIFEST.json written:", [c["property_id"] for c in checks])

if __name__ == "__main__":
    build()
