#!/usr/bin/env bash
# Silence soak (DESIGN.md 2.8): the unchanged tree must be silent for any batch
# seed. usage: tools/soak.sh [first_seed] [count]   (evidence is redirected)
ROOT="$(cd "$(dirname "$(readlink -f "$0")")/.." && pwd)"
first="${1:-100}"; count="${2:-5}"; bad=0
export VERIF_EVIDENCE_DIR="$(mktemp -d)"
for ((s=first; s<first+count; s++)); do
  for id in C15 C18 C19 C20; do
    out="$(VERIF_SEED=$s "$ROOT/check" $id --tier quick 2>&1)"; rc=$?
    echo "seed=$s $id rc=$rc $(echo "$out" | grep -E '^RUNS' | cut -c1-80)"
    if [ $rc -ne 0 ]; then bad=1; echo "$out" | tail -5; fi
  done
done
rm -rf "$VERIF_EVIDENCE_DIR"
exit $bad
