#!/usr/bin/env python3
"""Sensitivity mutants (DESIGN.md 2.8): small, compiling changes to /repo that
each break one claimed property. This script regenerates /verif/mutants/*.patch
from the table below by editing a scratch worktree (never /repo itself).

usage: tools/make_mutants.py            # rewrite all patches
"""
import os, subprocess, sys, shutil

ROOT = os.path.dirname(os.path.dirname(os.path.abspath(__file__)))
WT = "/tmp/verif-mutwt-gen"

M = []
def mut(id, prop, file, old, new, note, expect="violation"):
    M.append(dict(id=id, prop=prop, file=file, old=old, new=new, note=note, expect=expect))

# ---------------- C18 ----------------
mut("c18-revert-fix", "C18", "sandbox/src/parent.rs",
    "                        break_out = true;\n                        Err(err.into())\n",
    "                        Err(err.into())\n",
    "revert the fix: a panic reply leaves the exiting child in place")
mut("c18-revert-fix-2", "C18", "sandbox/src/parent.rs",
    None, None,
    "revert the second fix: a failed write of the request ends run_task (needs a payload larger than the child's free memory)")
mut("c18-timeout-no-restart", "C18", "sandbox/src/parent.rs",
    "                    Err(_timeout) => {\n                        break_out = true;\n",
    "                    Err(_timeout) => {\n",
    "no kill/restart after a timeout: the late reply of the abandoned request reaches the next one")
mut("c18-eof-no-restart", "C18", "sandbox/src/parent.rs",
    "                    Ok(Err(Error::ReadFailed(err))) if err.kind() == ErrorKind::UnexpectedEof => {\n                        break_out = true;\n",
    "                    Ok(Err(Error::ReadFailed(err))) if err.kind() == ErrorKind::UnexpectedEof => {\n",
    "no restart after the child died: the next write hits EPIPE and the sandbox is dead")
mut("c18-kill-without-restart", "C18", "sandbox/src/parent.rs",
    "                        Err(err) => return Err(err.into()),\n                    };\n                    break;\n",
    "                        Err(err) => return Err(err.into()),\n                    };\n",
    "kill the child but stay in the inner loop (no respawn)")
mut("c18-child-no-flush", "C18", "sandbox/src/frame.rs",
    "        writer.write_all(&bytes).map_err(Error::WriteFailed)?;\n        writer.flush().map_err(Error::WriteFailed)?;\n",
    "        writer.write_all(&bytes).map_err(Error::WriteFailed)?;\n",
    "child replies are not flushed: short replies sit in the LineWriter until a newline byte happens to pass")
mut("c18-u16-length-prefix", "C18", "sandbox/src/frame.rs",
    None, None,
    "length prefix narrowed to what fits 16 bits: payloads over 64 KiB are framed wrongly", )
mut("c18-interrupt-no-restart", "C18", "sandbox/src/parent.rs",
    "                    Ok(Err(Error::Interrupted)) => {\n                        break_out = true;\n",
    "                    Ok(Err(Error::Interrupted)) => {\n",
    "no restart after ctrl-c: the interrupted request's reply is delivered to the next request (needs the ctrl-c extra fault)")
mut("c18-resumable-frame-read", "C18", "sandbox/src/frame.rs",
    None, None,
    "read_async remembers a header whose body it has not finished reading and resumes there next time: after a time-out in the middle of a reply frame the next child's reply is misread (needs the slow-pipe extra fault)")
mut("c18-child-exit-before-reply", "C18", "sandbox/src/child.rs",
    "        let should_exit = result.is_err();\n",
    "        let should_exit = result.is_err();\n        if should_exit && memory_used > 1_000_000_000 {\n            exit(1);\n        }\n",
    "EQUIVALENT on every explored input (condition never true): the check must stay silent", expect="silent")
mut("c18-no-exit-after-panic", "C18", "sandbox/src/child.rs",
    "        if should_exit {\n            exit(1);\n        }\n",
    "        let _ = should_exit;\n",
    "child keeps serving after a panic: the property still holds (parent restarts it anyway); the check must stay silent", expect="silent")

# ---------------- C19 ----------------
mut("c19-revert-fix", "C19", "sandbox/src/alloc.rs",
    "        if new_used <= limit {\n            self.max.fetch_max(new_used, Ordering::Relaxed);\n",
    "        if new_used <= limit {\n",
    "revert the fix: realloc never raises the peak")
mut("c19-overlimit-no-rollback", "C19", "sandbox/src/alloc.rs",
    "            result\n        } else {\n            self.used.fetch_sub(size, Ordering::Release);\n            ptr::null_mut()\n        }\n    }\n\n    unsafe fn dealloc",
    "            result\n        } else {\n            ptr::null_mut()\n        }\n    }\n\n    unsafe fn dealloc",
    "alloc: a request refused for the limit stays charged")
mut("c19-parent-null-no-rollback", "C19", "sandbox/src/alloc.rs",
    "            let result = self.parent.alloc_zeroed(layout);\n            if result.is_null() {\n                self.used.fetch_sub(size, Ordering::Release);\n            }\n",
    "            let result = self.parent.alloc_zeroed(layout);\n",
    "alloc_zeroed: a parent failure stays charged (needs the failing-parent fault)")
mut("c19-realloc-releases-new", "C19", "sandbox/src/alloc.rs",
    "            } else {\n                self.used.fetch_sub(old_size, Ordering::Release);\n            }\n",
    "            } else {\n                self.used.fetch_sub(new_size, Ordering::Release);\n            }\n",
    "successful realloc releases the new size instead of the old one")
mut("c19-lost-update", "C19", "sandbox/src/alloc.rs",
    "    unsafe fn dealloc(&self, ptr: *mut u8, layout: Layout) {\n        let size = layout.size();\n        self.parent.dealloc(ptr, layout);\n        self.used.fetch_sub(size, Ordering::Release);\n",
    "    unsafe fn dealloc(&self, ptr: *mut u8, layout: Layout) {\n        let size = layout.size();\n        self.parent.dealloc(ptr, layout);\n        let used = self.used.load(Ordering::Acquire);\n        self.used.store(used - size, Ordering::Release);\n",
    "dealloc decrements with load+store: a lost update under a specific interleaving of two threads")
mut("c19-check-then-add", "C19", "sandbox/src/alloc.rs",
    "        let new_size = self.used.fetch_add(size, Ordering::Acquire).wrapping_add(size);\n        if new_size <= limit {\n            self.max.fetch_max(new_size, Ordering::Relaxed);\n            let result = self.parent.alloc(layout);\n            if result.is_null() {\n                self.used.fetch_sub(size, Ordering::Release);\n            }\n            result\n        } else {\n            self.used.fetch_sub(size, Ordering::Release);\n            ptr::null_mut()\n        }\n",
    "        if self.used.load(Ordering::Acquire).saturating_add(size) <= limit {\n            let new_size = self.used.fetch_add(size, Ordering::Acquire).wrapping_add(size);\n            self.max.fetch_max(new_size, Ordering::Relaxed);\n            let result = self.parent.alloc(layout);\n            if result.is_null() {\n                self.used.fetch_sub(size, Ordering::Release);\n            }\n            result\n        } else {\n            ptr::null_mut()\n        }\n",
    "alloc checks the limit before charging: two threads can both pass the check (needs a schedule)")
mut("c19-revert-fix-2", "C19", "sandbox/src/alloc.rs",
    None, None,
    "revert the second fix: requests that can never fit are charged before they are refused, two of them in flight wrap the counter (needs three threads and a schedule)")
mut("c19-zeroed-no-peak", "C19", "sandbox/src/alloc.rs",
    "            self.max.fetch_max(new_size, Ordering::Relaxed);\n            let result = self.parent.alloc_zeroed(layout);\n",
    "            let result = self.parent.alloc_zeroed(layout);\n",
    "alloc_zeroed does not raise the peak")
mut("c19-realloc-charges-delta-only", "C19", "sandbox/src/alloc.rs",
    None, None,
    "EQUIVALENT-ish refactor: realloc charges only the growth instead of old+new; still correct: the check must stay silent", expect="silent")

mut("c19-child-peak-read-early", "C19", "sandbox/src/child.rs",
    None, None,
    "child reads get_max() before handling the request: memory_used under-reports (seen through the sandbox)")
mut("c19-child-reset-after-handle", "C19", "sandbox/src/child.rs",
    None, None,
    "child resets the peak after handling instead of before: memory_used under-reports (seen through the sandbox)")

# ---------------- C20 ----------------
mut("c20-write-in-place", "C20", "cli/src/config.rs",
    None, None,
    "download straight into the cache path (File::create) instead of temp file + rename")
mut("c20-persist-before-status", "C20", "cli/src/config.rs",
    None, None,
    "persist before looking at the status: an error page replaces the cache")
mut("c20-revert-fix", "C20", "cli/src/config.rs",
    None, None,
    "revert the fix: the downloaded body is not validated, so a 200 response without Content-Length that is closed early is persisted")
mut("c20-no-stale-fallback", "C20", "cli/src/config.rs",
    "    if let Ok(file) = File::open(&path) {\n        // Indicate error even though we're returning success.\n",
    "    if let (true, Ok(file)) = (expiration.is_none(), File::open(&path)) {\n        // Indicate error even though we're returning success.\n",
    "stale fallback only when fetch_on_startup is off")
mut("c20-currency-error-fatal", "C20", "cli/src/config.rs",
    "                let _ = writeln!(\n                    std::io::stderr(),\n                    \"{:?}\",\n                    err.wrap_err(\"Failed to load currency data\")\n                );\n",
    "                return Err(err.wrap_err(\"Failed to load currency data\"));\n",
    "a currency failure makes load() fail: rink does not start")
mut("c20-revert-fix-2", "C20", "cli/src/config.rs",
    "                let _ = writeln!(\n                    std::io::stderr(),\n                    \"{:?}\",\n                    err.wrap_err(\"Failed to load currency data\")\n                );\n",
    "                println!(\"{:?}\", err.wrap_err(\"Failed to load currency data\"));\n",
    "revert (half of) the second C20 fix: a currency failure is reported on stdout again, which in the sandbox child is the frame pipe (needs a start-up with sandboxing enabled)")
mut("c20-stale-warning-on-stdout", "C20", "cli/src/config.rs",
    "        // Indicate error even though we're returning success.\n        let _ = writeln!(\n            std::io::stderr(),\n",
    "        // Indicate error even though we're returning success.\n        println!(\n",
    "revert (the other half of) the second C20 fix: the stale-fallback warning goes to stdout (needs a start-up with sandboxing enabled, a stale readable cache and a failing refresh)")
mut("c20-revert-fix-3", "C20", "cli/src/config.rs",
    "        // Indicate error even though we're returning success.\n        let _ = writeln!(\n            std::io::stderr(),\n",
    "        // Indicate error even though we're returning success.\n        eprintln!(\n",
    "revert the third C20 fix: the stale-fallback warning is written with eprintln! again, which panics when stderr cannot be written (needs the unwritable-stderr fault and a failing refresh)")
mut("c20-no-timeout", "C20", "cli/src/config.rs",
    "    easy.timeout(timeout)?;\n",
    "    let _ = timeout;\n",
    "no transfer timeout: a stalled server hangs start-up")
mut("c20-no-seek", "C20", "cli/src/config.rs",
    "    temp_file.as_file_mut().seek(SeekFrom::Start(0))?;\n\n    temp_file\n        .persist(path)",
    "    temp_file\n        .persist(path)",
    "returned handle is left at end of file: the fresh download reads as empty in the same run")
mut("c20-status-lt-400-ok", "C20", "cli/src/config.rs",
    "    if status != 200 {\n",
    "    if status >= 400 {\n",
    "3xx (and other non-200 < 400) responses are stored as currency data")
mut("c20-tempdir-copy", "C20", "cli/src/config.rs",
    None, None,
    "temp file in the default temp dir, copy into place when rename crosses file systems")
mut("c20-fixed-temp-name", "C20", "cli/src/config.rs",
    None, None,
    "download into a fixed name (currency.json.part, create+truncate) and rename it: correct for one process at a time even when killed anywhere; two processes refreshing at once write into the same file and a mixed or short file is renamed into place (needs the second process)")
mut("c20-ignore-callback-error", "C20", "cli/src/config.rs",
    "            .map_err(|_| curl::easy::WriteError::Pause)\n",
    "            .or(Ok(data.len()))\n",
    "a failed write of the body is swallowed: a document with a hole is persisted (needs an FS write fault)")

# ---------------- C15 ----------------
mut("c15-error-clears-ans", "C15", "core/src/helpers.rs",
    "    let res = ctx.eval_query(&expr)?;\n",
    "    let res = match ctx.eval_query(&expr) {\n        Ok(res) => res,\n        Err(err) => {\n            ctx.previous_result = None;\n            return Err(err);\n        }\n    };\n",
    "an error clears ans")
mut("c15-conversion-sets-ans", "C15", "core/src/helpers.rs",
    "        if let QueryReply::Number(ref number_parts) = res {\n            if let Some(ref raw) = number_parts.raw_value {\n                ctx.previous_result = Some(raw.clone());\n            }\n        }\n",
    "        if let QueryReply::Number(ref number_parts) = res {\n            if let Some(ref raw) = number_parts.raw_value {\n                ctx.previous_result = Some(raw.clone());\n            }\n        }\n        if let QueryReply::Conversion(ref conv) = res {\n            if let Some(ref raw) = conv.value.raw_value {\n                ctx.previous_result = Some(raw.clone());\n            }\n        }\n",
    "a conversion stores ans")
mut("c15-ignore-flag", "C15", "core/src/helpers.rs",
    "    if ctx.save_previous_result {\n",
    "    {\n",
    "ans stored although the feature is off")
mut("c15-no-update-time", "C15", "core/src/helpers.rs",
    "    ctx.update_time();\n",
    "",
    "clock not refreshed per query: `now` is stale")
mut("c15-update-time-once", "C15", "core/src/helpers.rs",
    "    ctx.update_time();\n",
    "    if ctx.previous_result.is_none() {\n        ctx.update_time();\n    }\n",
    "clock refreshed only while ans is unset: stale `now` after the first numeric result")
mut("c15-humanize-off-after-date", "C15", "core/src/helpers.rs",
    "    Ok(res)\n}\n\n/// A version of eval()",
    "    if let QueryReply::Date(_) = res {\n        ctx.use_humanize = false;\n    }\n    Ok(res)\n}\n\n/// A version of eval()",
    "a date reply switches a display setting off for every later query")


def sh(*a, **k):
    return subprocess.run(*a, shell=True, capture_output=True, text=True, **k)

SPECIAL = {}

def special(id):
    def deco(f):
        SPECIAL[id] = f
        return f
    return deco

@special("c18-u16-length-prefix")
def _(src):
    # both writers truncate the length to 16 bits "to save bytes on small frames"
    s = src("sandbox/src/frame.rs")
    s = s.replace("let len = u32::to_ne_bytes(bytes.len() as u32);", "let len = u32::to_ne_bytes(bytes.len() as u16 as u32);")
    return {"sandbox/src/frame.rs": s}

@special("c18-revert-fix-2")
def _(src):
    s = src("sandbox/src/parent.rs")
    a = s.index("                if let Err(err) = frame\n                    .write_async::<MessageRequest<S>, _>(Pin::new(&mut stdin), &request)")
    b = s.index("                let interrupt = async {")
    s = s[:a] + "                frame\n                    .write_async::<MessageRequest<S>, _>(Pin::new(&mut stdin), &request)\n                    .await?;\n\n" + s[b:]
    return {"sandbox/src/parent.rs": s}

@special("c20-revert-fix")
def _(src):
    s = src("cli/src/config.rs")
    a = s.index("    // A response without a Content-Length that the server (or a proxy) closes")
    b = s.index("    temp_file\n        .persist(path)")
    s = s[:a] + s[b:]
    return {"cli/src/config.rs": s}

@special("c18-resumable-frame-read")
def _(src):
    s = src("sandbox/src/frame.rs")
    s = s.replace("pub(crate) struct Frame {\n    buf: Vec<u8>,\n}", "pub(crate) struct Frame {\n    buf: Vec<u8>,\n    pending: Option<u32>,\n}")
    s = s.replace("        Frame { buf: vec![] }", "        Frame {\n            buf: vec![],\n            pending: None,\n        }")
    old = """        let mut len = [0, 0, 0, 0];
        reader
            .read_exact(&mut len)
            .await
            .map_err(Error::ReadFailed)?;
        let len = u32::from_ne_bytes(len);

        self.buf.resize(len as usize, 0);
        reader
            .read_exact(&mut self.buf)
            .await
            .map_err(Error::ReadFailed)?;
"""
    new = """        let len = match self.pending {
            Some(len) => len,
            None => {
                let mut len = [0, 0, 0, 0];
                reader
                    .read_exact(&mut len)
                    .await
                    .map_err(Error::ReadFailed)?;
                u32::from_ne_bytes(len)
            }
        };
        self.pending = Some(len);

        self.buf.resize(len as usize, 0);
        reader
            .read_exact(&mut self.buf)
            .await
            .map_err(Error::ReadFailed)?;
        self.pending = None;
"""
    assert old in s
    s = s.replace(old, new)
    return {"sandbox/src/frame.rs": s}

@special("c19-child-peak-read-early")
def _(src):
    s = src("sandbox/src/child.rs")
    s = s.replace("        let start = Arc::new(Mutex::new(Instant::now()));\n        let result = panic::catch_unwind", "        let start = Arc::new(Mutex::new(Instant::now()));\n        let memory_used = alloc.get_max();\n        let result = panic::catch_unwind")
    s = s.replace("        .map_err(|_| ErrorResponse::Panic(panic_message.lock().unwrap().clone()));\n\n        let memory_used = alloc.get_max();\n", "        .map_err(|_| ErrorResponse::Panic(panic_message.lock().unwrap().clone()));\n\n")
    return {"sandbox/src/child.rs": s}

@special("c19-child-reset-after-handle")
def _(src):
    s = src("sandbox/src/child.rs")
    s = s.replace("    loop {\n        alloc.reset_max();\n\n        let start", "    loop {\n        let start")
    s = s.replace("        .map_err(|_| ErrorResponse::Panic(panic_message.lock().unwrap().clone()));\n\n        let memory_used = alloc.get_max();\n", "        .map_err(|_| ErrorResponse::Panic(panic_message.lock().unwrap().clone()));\n\n        alloc.reset_max();\n        let memory_used = alloc.get_max();\n")
    return {"sandbox/src/child.rs": s}

@special("c19-revert-fix-2")
def _(src):
    s = src("sandbox/src/alloc.rs")
    import re
    s, n = re.subn(r"        // A request that can never fit is refused before it is charged: two\n        // such requests in flight at once would wrap the counter around and\n        // let a third one through\.\n        if (?:new_)?size > limit \{\n            return ptr::null_mut\(\);\n        \}\n", "", s)
    assert n == 3, n
    return {"sandbox/src/alloc.rs": s}

@special("c19-realloc-charges-delta-only")
def _(src):
    s = src("sandbox/src/alloc.rs")
    a = s.index("    unsafe fn realloc(")
    old = s[s.index("        let limit = self.limit.load(Ordering::Acquire);\n", a):s.index("        } else {\n            self.used.fetch_sub(new_size, Ordering::Release);\n            ptr::null_mut()\n        }\n    }\n}")]
    new = '''        let limit = self.limit.load(Ordering::Acquire);
        if new_size > limit {
            return ptr::null_mut();
        }
        if new_size <= old_size {
            let result = self.parent.realloc(ptr, old_layout, realloc_size);
            if !result.is_null() {
                self.used.fetch_sub(old_size - new_size, Ordering::Release);
            }
            return result;
        }
        let grow = new_size - old_size;
        let new_used = self.used.fetch_add(grow, Ordering::Acquire).wrapping_add(grow);
        if new_used <= limit {
            self.max.fetch_max(new_used, Ordering::Relaxed);
            let result = self.parent.realloc(ptr, old_layout, realloc_size);
            if result.is_null() {
                self.used.fetch_sub(grow, Ordering::Release);
            }
            result
'''
    s = s.replace(old, new)
    s = s.replace("        } else {\n            self.used.fetch_sub(new_size, Ordering::Release);\n            ptr::null_mut()\n        }\n    }\n}", "        } else {\n            self.used.fetch_sub(grow, Ordering::Release);\n            ptr::null_mut()\n        }\n    }\n}")
    return {"sandbox/src/alloc.rs": s}

@special("c20-write-in-place")
def _(src):
    s = src("cli/src/config.rs")
    a = s.index("    // Given a filename like `foo.json`")
    b = s.index("    let mut easy = Easy::new();")
    s = s[:a] + "    let mut file = File::options()\n        .read(true)\n        .write(true)\n        .create(true)\n        .truncate(true)\n        .open(path)?;\n\n" + s[b:]
    s = s.replace("    let mut write_handle = temp_file.as_file_mut().try_clone()?;", "    let mut write_handle = file.try_clone()?;")
    a = s.index("    temp_file.as_file_mut().sync_all()?;")
    b = s.index("fn cached(")
    s = s[:a] + "    file.sync_all()?;\n    file.seek(SeekFrom::Start(0))?;\n\n    Ok(file)\n}\n\n" + s[b:]
    return {"cli/src/config.rs": s}

@special("c20-fixed-temp-name")
def _(src):
    s = src("cli/src/config.rs")
    a = s.index("    // Given a filename like `foo.json`, names the temp file something")
    b = s.index("    let mut easy = Easy::new();")
    s = s[:a] + """    // Download next to the final file, so that the rename below stays on
    // one filesystem.
    let temp_path = path.with_extension("json.part");
    let mut temp_file = std::fs::OpenOptions::new()
        .read(true)
        .write(true)
        .create(true)
        .truncate(true)
        .open(&temp_path)?;

""" + s[b:]
    s = s.replace("let mut write_handle = temp_file.as_file_mut().try_clone()?;", "let mut write_handle = temp_file.try_clone()?;")
    s = s.replace("temp_file.as_file_mut().", "temp_file.")
    s = s.replace("use std::ffi::OsString;\n", "")
    a = s.index("    temp_file\n        .persist(path)")
    b = s.index("fn cached(")
    s = s[:a] + """    std::fs::rename(&temp_path, path).wrap_err("Failed to write to cache dir")?;
    Ok(temp_file)
}

""" + s[b:]
    return {"cli/src/config.rs": s}

@special("c20-persist-before-status")
def _(src):
    s = src("cli/src/config.rs")
    a = s.index("    let status = easy.response_code()?;")
    b = s.index("    temp_file.as_file_mut().sync_all()?;")
    status_block = s[a:b]
    s = s[:a] + s[b:]
    old = "    temp_file\n        .persist(path)\n        .wrap_err(\"Failed to write to cache dir\")\n}"
    new = "    let file = temp_file\n        .persist(path)\n        .wrap_err(\"Failed to write to cache dir\")?;\n\n" + status_block.rstrip() + "\n\n    Ok(file)\n}"
    assert old in s
    s = s.replace(old, new)
    return {"cli/src/config.rs": s}

@special("c20-tempdir-copy")
def _(src):
    s = src("cli/src/config.rs")
    s = s.replace("        .tempfile_in(path.parent().unwrap())?;", "        .tempfile()?;")
    old = "    temp_file\n        .persist(path)\n        .wrap_err(\"Failed to write to cache dir\")\n}"
    new = '''    match temp_file.persist(path) {
        Ok(file) => Ok(file),
        Err(err) => {
            // The temp dir may be on another file system: copy instead.
            let mut temp_file = err.file;
            let mut out = File::create(path)?;
            let mut buf = vec![];
            temp_file.as_file_mut().read_to_end(&mut buf)?;
            out.write_all(&buf)?;
            drop(out);
            Ok(File::open(path)?)
        }
    }
}'''
    assert old in s
    s = s.replace(old, new)
    return {"cli/src/config.rs": s}


def main():
    outdir = os.path.join(ROOT, "mutants")
    os.makedirs(outdir, exist_ok=True)
    sh(f"git -C /repo worktree remove --force {WT}")
    shutil.rmtree(WT, ignore_errors=True)
    r = sh(f"git -C /repo worktree add --detach {WT} HEAD")
    if r.returncode != 0:
        print(r.stderr); sys.exit(2)
    index = []
    try:
        for m in M:
            sh(f"git -C {WT} checkout -- .")
            def src(rel):
                return open(os.path.join(WT, rel)).read()
            if m["id"] in SPECIAL:
                files = SPECIAL[m["id"]](src)
            else:
                s = src(m["file"])
                if s.count(m["old"]) != 1:
                    print("SKIP", m["id"], "anchor occurs", s.count(m["old"]), "times"); continue
                files = {m["file"]: s.replace(m["old"], m["new"])}
            for rel, text in files.items():
                open(os.path.join(WT, rel), "w").write(text)
            d = sh(f"git -C {WT} diff").stdout
            if not d.strip():
                print("EMPTY", m["id"]); continue
            open(os.path.join(outdir, m["id"] + ".patch"), "w").write(d)
            index.append(f'{m["id"]}\t{m["prop"]}\t{m["expect"]}\t{m["note"]}')
    finally:
        sh(f"git -C /repo worktree remove --force {WT}")
        shutil.rmtree(WT, ignore_errors=True)
    open(os.path.join(outdir, "INDEX.tsv"), "w").write("\n".join(index) + "\n")
    print(len(index), "mutants written")

if __name__ == "__main__":
    main()
