#!/usr/bin/env python3
"""Sensitivity run: apply each patch of /verif/mutants (or /verif/seeded/*/patch.diff)
to a scratch worktree of /repo, run the property's quick check against it, and
report whether the check raised the alarm it should.

usage: tools/run_mutants.py [--validate] [--tier quick|thorough] [id ...]
  --validate   also run the repository's own test suite on the patched tree
               (it must pass: a mutant that the existing tests catch is not interesting)
Never touches /repo's working tree or the committed evidence."""
import os, subprocess, sys, shutil, json, time

ROOT = os.path.dirname(os.path.dirname(os.path.abspath(__file__)))
WT = "/tmp/verif-mutwt"
SCR = "/tmp/verif-mut-scratch"

def sh(cmd, **k):
    return subprocess.run(cmd, shell=True, capture_output=True, text=True, **k)

def load():
    items = []
    idx = os.path.join(ROOT, "mutants", "INDEX.tsv")
    if os.path.exists(idx):
        for line in open(idx):
            if line.strip():
                i, prop, expect, note = line.rstrip("\n").split("\t")
                items.append(dict(id=i, prop=prop, expect=expect, note=note, patch=os.path.join(ROOT, "mutants", i + ".patch")))
    sd = os.path.join(ROOT, "seeded")
    if os.path.isdir(sd):
        for d in sorted(os.listdir(sd)):
            mp = os.path.join(sd, d, "meta.json")
            if os.path.exists(mp):
                meta = json.load(open(mp))
                items.append(dict(id="seeded-" + d, prop=meta["property"], expect=meta.get("expect", "violation"), note=meta.get("what", "")[:100], patch=os.path.join(sd, d, "patch.diff")))
    return items

def main():
    args = sys.argv[1:]
    validate = "--validate" in args
    tier = "quick"
    if "--tier" in args:
        tier = args[args.index("--tier") + 1]
    ids = [a for a in args if not a.startswith("--") and a not in ("quick", "thorough")]
    items = [m for m in load() if not ids or m["id"] in ids]
    os.makedirs(SCR, exist_ok=True)
    results = []
    for m in items:
        sh(f"git -C /repo worktree remove --force {WT}")
        shutil.rmtree(WT, ignore_errors=True)
        r = sh(f"git -C /repo worktree add --detach {WT} HEAD")
        if r.returncode != 0:
            print("cannot create worktree:", r.stderr); return 2
        try:
            r = sh(f"git -C {WT} apply {m['patch']}")
            if r.returncode != 0:
                print(f"{m['id']}: PATCH DOES NOT APPLY: {r.stderr.strip()[:200]}")
                results.append((m, "patch-error", "")); continue
            suite = ""
            if validate:
                t = sh(f"cd {WT} && RUST_BACKTRACE=0 CARGO_TARGET_DIR=/tmp/verif-mut-target cargo test --workspace --no-fail-fast --offline 2>&1 | grep -E '^test result|FAILED|error(\\[|:)' | sort | uniq -c | head -20")
                failed = "FAILED" in t.stdout or "error" in t.stdout
                suite = "suite:FAILS" if failed else "suite:passes"
            env = dict(os.environ, VERIF_REPO=WT, VERIF_EVIDENCE_DIR=os.path.join(SCR, "evidence"), VERIF_REPLAY_DIR=os.path.join(SCR, "replays"))
            t0 = time.time()
            r = subprocess.run([os.path.join(ROOT, "check"), m["prop"], "--tier", tier], capture_output=True, text=True, env=env)
            dt = time.time() - t0
            detail = ""
            for line in r.stdout.splitlines():
                if line.startswith("DETAIL") or line.startswith("HARNESS-ERROR"):
                    detail = line[:260]; break
            verdict = {0: "silent", 1: "violation", 2: "harness-error"}.get(r.returncode, str(r.returncode))
            ok = verdict == m["expect"]
            print(f"{'OK  ' if ok else 'MISS'} {m['id']:<34} {m['prop']} expected={m['expect']:<9} got={verdict:<13} {dt:5.0f}s {suite} {detail}", flush=True)
            results.append((m, verdict, detail))
        finally:
            sh(f"git -C /repo worktree remove --force {WT}")
            shutil.rmtree(WT, ignore_errors=True)
    # restore the link to /repo and leave no scratch behind
    subprocess.run([os.path.join(ROOT, "check"), "prepare-only"], capture_output=True)
    shutil.rmtree(SCR, ignore_errors=True)
    miss = [m["id"] for m, v, _ in results if v != m["expect"]]
    print(f"{len(results) - len(miss)}/{len(results)} as expected; not as expected: {miss}")
    return 0 if not miss else 1

if __name__ == "__main__":
    sys.exit(main())
