//! simkit: deterministic simulation with fault injection for rink-rs.
//! See /verif/DESIGN.md.

pub mod chooser;
pub mod machine;
pub mod rng;
pub mod runner;
pub mod shim;
pub mod world;

pub use chooser::Chooser;
pub use rng::Rng;
pub use world::{Policy, RunEnd, RunReport, World, WorldCfg};

/// `println!` for code compiled into a harness: see `shim::child::print_line`.
#[macro_export]
macro_rules! sim_println {
    () => { $crate::shim::child::print_line(format_args!("")) };
    ($($arg:tt)*) => { $crate::shim::child::print_line(format_args!($($arg)*)) };
}

/// `eprintln!` for code compiled into a harness: see `shim::child::eprint_line`.
#[macro_export]
macro_rules! sim_eprintln {
    () => { $crate::shim::child::eprint_line(format_args!("")) };
    ($($arg:tt)*) => { $crate::shim::child::eprint_line(format_args!($($arg)*)) };
}

/// Start an OS thread for the harness, retrying when the system is
/// momentarily out of resources (EAGAIN from pthread_create on a busy
/// machine): that is the harness's problem, never the code's under test.
pub fn spawn_os_thread<F, T>(name: String, stack: usize, f: F) -> std::thread::JoinHandle<T>
where
    F: FnOnce() -> T + Send + 'static,
    T: Send + 'static,
{
    let slot = std::sync::Arc::new(std::sync::Mutex::new(Some(f)));
    let mut tries = 0u32;
    loop {
        let s2 = slot.clone();
        let r = std::thread::Builder::new()
            .name(name.clone())
            .stack_size(stack)
            .spawn(move || {
                let f = s2.lock().unwrap_or_else(|e| e.into_inner()).take().expect("thread body");
                f()
            });
        match r {
            Ok(h) => return h,
            Err(e) => {
                tries += 1;
                if tries > 200 {
                    panic!("cannot start a harness thread: {}", e);
                }
                std::thread::sleep(std::time::Duration::from_millis(25));
            }
        }
    }
}
