//! simkit: deterministic simulation with fault injection for rink-rs.
//! See /verif/DESIGN.md.

pub mod chooser;
pub mod machine;
pub mod rng;
pub mod runner;
pub mod shim;
pub mod world;

pub use chooser::Chooser;
pub use rng::Rng;
pub use world::{Policy, RunEnd, RunReport, World, WorldCfg};

/// `println!` for code compiled into a harness: see `shim::child::print_line`.
#[macro_export]
macro_rules! sim_println {
    () => { $crate::shim::child::print_line(format_args!("")) };
    ($($arg:tt)*) => { $crate::shim::child::print_line(format_args!($($arg)*)) };
}

/// `eprintln!` for code compiled into a harness: see `shim::child::eprint_line`.
#[macro_export]
macro_rules! sim_eprintln {
    () => { $crate::shim::child::eprint_line(format_args!("")) };
    ($($arg:tt)*) => { $crate::shim::child::eprint_line(format_args!($($arg)*)) };
}
