//! simkit: deterministic simulation with fault injection for rink-rs.
//! See /verif/DESIGN.md.

pub mod chooser;
pub mod machine;
pub mod rng;
pub mod runner;
pub mod shim;
pub mod world;

pub use chooser::Chooser;
pub use rng::Rng;
pub use world::{Policy, RunEnd, RunReport, World, WorldCfg};
