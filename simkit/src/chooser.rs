//! Every run-time decision of a simulated run goes through a `Chooser`.
//!
//! In generation mode a decision is drawn from the run's PRNG; in replay mode
//! it is read from a recorded list (an exhausted list answers 0). In both
//! modes the decision is appended to `record`, so that a run is a pure
//! function of (scenario, record). Choice 0 is always the benign default:
//! keep running the same party, move all the bytes, inject no fault.

use crate::rng::Rng;

#[derive(Clone, Debug)]
enum Mode {
    Gen(Rng),
    Replay { list: Vec<u32>, pos: usize },
}

#[derive(Clone, Debug)]
pub struct Chooser {
    mode: Mode,
    pub record: Vec<u32>,
    /// Number of decisions that had more than one alternative.
    pub real_decisions: u64,
    /// Number of decisions that were not the default.
    pub nonzero: u64,
}

impl Chooser {
    pub fn generate(seed: u64) -> Chooser {
        Chooser {
            mode: Mode::Gen(Rng::new(seed)),
            record: Vec::new(),
            real_decisions: 0,
            nonzero: 0,
        }
    }

    pub fn replay(list: Vec<u32>) -> Chooser {
        Chooser {
            mode: Mode::Replay { list, pos: 0 },
            record: Vec::new(),
            real_decisions: 0,
            nonzero: 0,
        }
    }

    pub fn is_replay(&self) -> bool {
        matches!(self.mode, Mode::Replay { .. })
    }

    /// Decide among `n` alternatives; `gen` supplies the distribution used in
    /// generation mode (its result is reduced modulo n).
    pub fn pick_with(&mut self, n: u32, gen: impl FnOnce(&mut Rng) -> u32) -> u32 {
        if n <= 1 {
            return 0;
        }
        let v = match &mut self.mode {
            Mode::Gen(rng) => gen(rng) % n,
            Mode::Replay { list, pos } => {
                let v = list.get(*pos).copied().unwrap_or(0);
                *pos += 1;
                if v >= n {
                    v % n
                } else {
                    v
                }
            }
        };
        self.real_decisions += 1;
        if v != 0 {
            self.nonzero += 1;
        }
        self.record.push(v);
        v
    }

    /// Uniform decision.
    pub fn pick(&mut self, n: u32) -> u32 {
        self.pick_with(n, |r| r.below(n as u64) as u32)
    }

    /// 0 with probability 1 - num/den, otherwise uniform in 1..n.
    pub fn pick_rare(&mut self, n: u32, num: u64, den: u64) -> u32 {
        self.pick_with(n, |r| {
            if n > 1 && r.chance(num, den) {
                1 + r.below((n - 1) as u64) as u32
            } else {
                0
            }
        })
    }

    /// A fault coin: true with probability num/den (default false).
    pub fn coin(&mut self, num: u64, den: u64) -> bool {
        if num == 0 {
            // Not a decision at all in this configuration: nothing recorded,
            // so enabling a fault kind changes the record only where it can fire.
            return false;
        }
        self.pick_rare(2, num, den) == 1
    }
}
