//! What `sandbox/src/alloc.rs` imports under the guard: `System`,
//! `AtomicUsize`, `Ordering`. The atomics are the real std atomics with a
//! scheduling point in front of every operation; `System` is the real system
//! allocator with a fault point in front of every allocation.

use crate::world::cur;
use std::alloc::{GlobalAlloc, Layout};
pub use std::sync::atomic::Ordering;

#[inline]
fn atomic_point(op: &'static str) {
    if let Some(c) = cur() {
        let y = {
            let g = c.world.lock();
            g.cfg.atomics_yield
        };
        if y {
            if let crate::world::Party::Thread(_) = c.party {
                if c.world.thread_is_dead(&c) {
                    crate::world::die_if_dead_now();
                    return;
                }
                c.world.thread_yield(&c, None);
                c.world.event(op, 0, 0);
            }
        }
    }
}

#[derive(Debug, Default)]
pub struct AtomicUsize(std::sync::atomic::AtomicUsize);

impl AtomicUsize {
    pub const fn new(v: usize) -> AtomicUsize {
        AtomicUsize(std::sync::atomic::AtomicUsize::new(v))
    }
    pub fn load(&self, o: Ordering) -> usize {
        atomic_point("a_load");
        self.0.load(o)
    }
    pub fn store(&self, v: usize, o: Ordering) {
        atomic_point("a_store");
        self.0.store(v, o)
    }
    pub fn fetch_add(&self, v: usize, o: Ordering) -> usize {
        atomic_point("a_fetch_add");
        self.0.fetch_add(v, o)
    }
    pub fn fetch_sub(&self, v: usize, o: Ordering) -> usize {
        atomic_point("a_fetch_sub");
        self.0.fetch_sub(v, o)
    }
    pub fn fetch_max(&self, v: usize, o: Ordering) -> usize {
        atomic_point("a_fetch_max");
        self.0.fetch_max(v, o)
    }
    pub fn fetch_min(&self, v: usize, o: Ordering) -> usize {
        atomic_point("a_fetch_min");
        self.0.fetch_min(v, o)
    }
    pub fn swap(&self, v: usize, o: Ordering) -> usize {
        atomic_point("a_swap");
        self.0.swap(v, o)
    }
    pub fn compare_exchange(
        &self,
        cur_: usize,
        new: usize,
        s: Ordering,
        f: Ordering,
    ) -> Result<usize, usize> {
        atomic_point("a_cas");
        self.0.compare_exchange(cur_, new, s, f)
    }
    pub fn compare_exchange_weak(
        &self,
        cur_: usize,
        new: usize,
        s: Ordering,
        f: Ordering,
    ) -> Result<usize, usize> {
        atomic_point("a_cas");
        // Never fails spuriously: one thread runs at a time.
        self.0.compare_exchange(cur_, new, s, f)
    }
    pub fn fetch_update<F>(&self, s: Ordering, f: Ordering, mut func: F) -> Result<usize, usize>
    where
        F: FnMut(usize) -> Option<usize>,
    {
        let mut prev = self.load(f);
        while let Some(next) = func(prev) {
            match self.compare_exchange_weak(prev, next, s, f) {
                Ok(x) => return Ok(x),
                Err(p) => prev = p,
            }
        }
        Err(prev)
    }
    pub fn get_mut(&mut self) -> &mut usize {
        self.0.get_mut()
    }
    pub fn into_inner(self) -> usize {
        self.0.into_inner()
    }
}

/// The system allocator behind a fault point.
#[derive(Debug, Default, Clone, Copy)]
pub struct System;

fn parent_refuses() -> bool {
    if let Some(c) = cur() {
        let mut g = c.world.lock();
        let (n, d) = g.cfg.alloc_fail;
        if n != 0 && g.chooser.coin(n, d) {
            *g.stats.entry("parent_alloc_refused").or_insert(0) += 1;
            g.event("parent_alloc_refused", 0, 0);
            return true;
        }
    }
    false
}

// ----- block registry ---------------------------------------------------------
//
// While a registry is open (C19's ledger runs), the parent allocator knows
// which blocks it has handed out. A block that is given back is not returned
// to the system at once but kept in quarantine until the registry is closed:
// its address is not reused and its memory stays readable, so a harness can ask
// whether a block it still owns was released behind its back, and a second
// release of the same block is recorded instead of corrupting the heap.

struct Registry {
    live: std::collections::BTreeMap<usize, (usize, usize)>,
    quarantine: Vec<(usize, usize, usize)>,
    quarantined_bytes: usize,
    anomalies: Vec<String>,
}

static REGISTRY: std::sync::Mutex<Option<Registry>> = std::sync::Mutex::new(None);

const QUARANTINE_CAP: usize = 256 << 20;

fn reg() -> std::sync::MutexGuard<'static, Option<Registry>> {
    REGISTRY.lock().unwrap_or_else(|e| e.into_inner())
}

/// Start tracking the blocks handed out by the parent allocator.
pub fn registry_begin() {
    *reg() = Some(Registry {
        live: Default::default(),
        quarantine: Vec::new(),
        quarantined_bytes: 0,
        anomalies: Vec::new(),
    });
}

/// Stop tracking: quarantined blocks go back to the system. Returns what the
/// parent allocator was asked to do that no correct caller asks (a block
/// released twice, or one it never handed out).
pub fn registry_end() -> Vec<String> {
    let r = reg().take();
    match r {
        Some(r) => {
            // Blocks still live belong to a history that ended early: released too.
            let live = r.live.into_iter().map(|(p, (size, align))| (p, size, align));
            for (p, size, align) in r.quarantine.into_iter().chain(live) {
                unsafe {
                    std::alloc::System.dealloc(p as *mut u8, Layout::from_size_align_unchecked(size, align))
                };
            }
            r.anomalies
        }
        None => Vec::new(),
    }
}

/// Is this block still owned by whoever got it from the parent allocator?
/// (true when no registry is open)
pub fn registry_is_live(ptr: usize) -> bool {
    match reg().as_ref() {
        Some(r) => r.live.contains_key(&ptr),
        None => true,
    }
}

fn reg_insert(ptr: *mut u8, layout: Layout) {
    if ptr.is_null() {
        return;
    }
    if let Some(r) = reg().as_mut() {
        r.live.insert(ptr as usize, (layout.size(), layout.align()));
    }
}

unsafe impl GlobalAlloc for System {
    unsafe fn alloc(&self, layout: Layout) -> *mut u8 {
        if parent_refuses() {
            return std::ptr::null_mut();
        }
        let p = std::alloc::System.alloc(layout);
        reg_insert(p, layout);
        p
    }
    unsafe fn dealloc(&self, ptr: *mut u8, layout: Layout) {
        let mut g = reg();
        match g.as_mut() {
            None => {
                drop(g);
                std::alloc::System.dealloc(ptr, layout)
            }
            Some(r) => match r.live.remove(&(ptr as usize)) {
                Some((size, align)) => {
                    r.quarantine.push((ptr as usize, size, align));
                    r.quarantined_bytes += size;
                    while r.quarantined_bytes > QUARANTINE_CAP && r.quarantine.len() > 1 {
                        let (p, s, a) = r.quarantine.remove(0);
                        r.quarantined_bytes -= s;
                        std::alloc::System.dealloc(p as *mut u8, Layout::from_size_align_unchecked(s, a));
                    }
                }
                None => {
                    if r.anomalies.len() < 8 {
                        r.anomalies.push(format!(
                            "the parent allocator was asked to release a block of {} bytes that is not live (released twice, or never handed out)",
                            layout.size()
                        ));
                    }
                }
            },
        }
    }
    unsafe fn alloc_zeroed(&self, layout: Layout) -> *mut u8 {
        if parent_refuses() {
            return std::ptr::null_mut();
        }
        let p = std::alloc::System.alloc_zeroed(layout);
        reg_insert(p, layout);
        p
    }
    unsafe fn realloc(&self, ptr: *mut u8, layout: Layout, new_size: usize) -> *mut u8 {
        if parent_refuses() {
            return std::ptr::null_mut();
        }
        {
            let mut g = reg();
            if let Some(r) = g.as_mut() {
                if !r.live.contains_key(&(ptr as usize)) {
                    if r.anomalies.len() < 8 {
                        r.anomalies.push(format!(
                            "the parent allocator was asked to resize a block of {} bytes that is not live",
                            layout.size()
                        ));
                    }
                    return std::ptr::null_mut();
                }
            }
        }
        let p = std::alloc::System.realloc(ptr, layout, new_size);
        if !p.is_null() {
            if let Some(r) = reg().as_mut() {
                r.live.remove(&(ptr as usize));
                r.live.insert(p as usize, (new_size, layout.align()));
            }
        }
        p
    }
}
