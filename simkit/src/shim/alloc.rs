//! What `sandbox/src/alloc.rs` imports under the guard: `System`,
//! `AtomicUsize`, `Ordering`. The atomics are the real std atomics with a
//! scheduling point in front of every operation; `System` is the real system
//! allocator with a fault point in front of every allocation.

use crate::world::cur;
use std::alloc::{GlobalAlloc, Layout};
pub use std::sync::atomic::Ordering;

#[inline]
fn atomic_point(op: &'static str) {
    if let Some(c) = cur() {
        let y = {
            let g = c.world.lock();
            g.cfg.atomics_yield
        };
        if y {
            if let crate::world::Party::Thread(_) = c.party {
                if c.world.thread_is_dead(&c) {
                    crate::world::die_if_dead_now();
                    return;
                }
                c.world.thread_yield(&c, None);
                c.world.event(op, 0, 0);
            }
        }
    }
}

#[derive(Debug, Default)]
pub struct AtomicUsize(std::sync::atomic::AtomicUsize);

impl AtomicUsize {
    pub const fn new(v: usize) -> AtomicUsize {
        AtomicUsize(std::sync::atomic::AtomicUsize::new(v))
    }
    pub fn load(&self, o: Ordering) -> usize {
        atomic_point("a_load");
        self.0.load(o)
    }
    pub fn store(&self, v: usize, o: Ordering) {
        atomic_point("a_store");
        self.0.store(v, o)
    }
    pub fn fetch_add(&self, v: usize, o: Ordering) -> usize {
        atomic_point("a_fetch_add");
        self.0.fetch_add(v, o)
    }
    pub fn fetch_sub(&self, v: usize, o: Ordering) -> usize {
        atomic_point("a_fetch_sub");
        self.0.fetch_sub(v, o)
    }
    pub fn fetch_max(&self, v: usize, o: Ordering) -> usize {
        atomic_point("a_fetch_max");
        self.0.fetch_max(v, o)
    }
    pub fn fetch_min(&self, v: usize, o: Ordering) -> usize {
        atomic_point("a_fetch_min");
        self.0.fetch_min(v, o)
    }
    pub fn swap(&self, v: usize, o: Ordering) -> usize {
        atomic_point("a_swap");
        self.0.swap(v, o)
    }
    pub fn compare_exchange(
        &self,
        cur_: usize,
        new: usize,
        s: Ordering,
        f: Ordering,
    ) -> Result<usize, usize> {
        atomic_point("a_cas");
        self.0.compare_exchange(cur_, new, s, f)
    }
    pub fn compare_exchange_weak(
        &self,
        cur_: usize,
        new: usize,
        s: Ordering,
        f: Ordering,
    ) -> Result<usize, usize> {
        atomic_point("a_cas");
        // Never fails spuriously: one thread runs at a time.
        self.0.compare_exchange(cur_, new, s, f)
    }
    pub fn fetch_update<F>(&self, s: Ordering, f: Ordering, mut func: F) -> Result<usize, usize>
    where
        F: FnMut(usize) -> Option<usize>,
    {
        let mut prev = self.load(f);
        while let Some(next) = func(prev) {
            match self.compare_exchange_weak(prev, next, s, f) {
                Ok(x) => return Ok(x),
                Err(p) => prev = p,
            }
        }
        Err(prev)
    }
    pub fn get_mut(&mut self) -> &mut usize {
        self.0.get_mut()
    }
    pub fn into_inner(self) -> usize {
        self.0.into_inner()
    }
}

/// The system allocator behind a fault point.
#[derive(Debug, Default, Clone, Copy)]
pub struct System;

fn parent_refuses() -> bool {
    if let Some(c) = cur() {
        let mut g = c.world.lock();
        let (n, d) = g.cfg.alloc_fail;
        if n != 0 && g.chooser.coin(n, d) {
            *g.stats.entry("parent_alloc_refused").or_insert(0) += 1;
            g.event("parent_alloc_refused", 0, 0);
            return true;
        }
    }
    false
}

unsafe impl GlobalAlloc for System {
    unsafe fn alloc(&self, layout: Layout) -> *mut u8 {
        if parent_refuses() {
            return std::ptr::null_mut();
        }
        std::alloc::System.alloc(layout)
    }
    unsafe fn dealloc(&self, ptr: *mut u8, layout: Layout) {
        std::alloc::System.dealloc(ptr, layout)
    }
    unsafe fn alloc_zeroed(&self, layout: Layout) -> *mut u8 {
        if parent_refuses() {
            return std::ptr::null_mut();
        }
        std::alloc::System.alloc_zeroed(layout)
    }
    unsafe fn realloc(&self, ptr: *mut u8, layout: Layout, new_size: usize) -> *mut u8 {
        if parent_refuses() {
            return std::ptr::null_mut();
        }
        std::alloc::System.realloc(ptr, layout, new_size)
    }
}
