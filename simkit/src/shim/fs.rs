//! `std::fs` look-alike over the simulated machine. What `cli/src/config.rs`
//! imports under the guard (`read_to_string`, `File`, `create_dir_all`), plus
//! the rest of the std::fs surface a reasonable edit of that file might use.

use crate::machine::{self as mach, OpKind, OpenHow};
use crate::shim::time::SystemTime;
use std::io::{self, Read, Seek, SeekFrom, Write};
use std::path::{Path, PathBuf};
use std::sync::{Arc, Mutex};

/// An open file description: the offset is shared between `try_clone`d handles.
#[derive(Debug)]
struct Desc {
    id: u64,
    ino: u64,
    offset: u64,
    read: bool,
    write: bool,
    append: bool,
}

impl Drop for Desc {
    fn drop(&mut self) {
        // Last handle of the open file description closed (or the process is
        // being torn down): its advisory locks go.
        mach::flock_release(self.id);
    }
}

pub use std::fs::TryLockError;

#[derive(Debug)]
pub struct File {
    desc: Arc<Mutex<Desc>>,
}

#[derive(Clone, Debug, Default)]
pub struct OpenOptions {
    how: OpenHow,
}

impl OpenOptions {
    pub fn new() -> OpenOptions {
        OpenOptions::default()
    }
    pub fn read(&mut self, v: bool) -> &mut Self {
        self.how.read = v;
        self
    }
    pub fn write(&mut self, v: bool) -> &mut Self {
        self.how.write = v;
        self
    }
    pub fn append(&mut self, v: bool) -> &mut Self {
        self.how.append = v;
        if v {
            self.how.write = true;
        }
        self
    }
    pub fn truncate(&mut self, v: bool) -> &mut Self {
        self.how.truncate = v;
        self
    }
    pub fn create(&mut self, v: bool) -> &mut Self {
        self.how.create = v;
        self
    }
    pub fn create_new(&mut self, v: bool) -> &mut Self {
        self.how.create_new = v;
        self
    }
    pub fn mode(&mut self, _mode: u32) -> &mut Self {
        self
    }
    pub fn open<P: AsRef<Path>>(&self, path: P) -> io::Result<File> {
        let kind = if self.how.create || self.how.create_new {
            OpKind::Create
        } else {
            OpKind::Open
        };
        File::open_how(path.as_ref(), self.how, kind)
    }
}

impl File {
    pub fn open_how(path: &Path, how: OpenHow, kind: OpKind) -> io::Result<File> {
        let ino = mach::fs_open(path, how, kind)?;
        Ok(File {
            desc: Arc::new(Mutex::new(Desc {
                id: mach::new_desc_id(),
                ino,
                offset: 0,
                read: how.read || !(how.write || how.append),
                write: how.write || how.append,
                append: how.append,
            })),
        })
    }

    pub fn open<P: AsRef<Path>>(path: P) -> io::Result<File> {
        File::open_how(
            path.as_ref(),
            OpenHow {
                read: true,
                ..Default::default()
            },
            OpKind::Open,
        )
    }

    pub fn create<P: AsRef<Path>>(path: P) -> io::Result<File> {
        File::open_how(
            path.as_ref(),
            OpenHow {
                write: true,
                create: true,
                truncate: true,
                ..Default::default()
            },
            OpKind::Create,
        )
    }

    pub fn create_new<P: AsRef<Path>>(path: P) -> io::Result<File> {
        File::open_how(
            path.as_ref(),
            OpenHow {
                read: true,
                write: true,
                create_new: true,
                ..Default::default()
            },
            OpKind::Create,
        )
    }

    pub fn options() -> OpenOptions {
        OpenOptions::new()
    }

    pub fn metadata(&self) -> io::Result<Metadata> {
        let ino = self.desc.lock().unwrap().ino;
        let (len, mtime) = mach::fs_len_mtime(ino)?;
        Ok(Metadata {
            dir: false,
            len,
            mtime_ns: mtime,
        })
    }

    pub fn sync_all(&self) -> io::Result<()> {
        let ino = self.desc.lock().unwrap().ino;
        mach::fs_sync(ino)
    }

    pub fn sync_data(&self) -> io::Result<()> {
        self.sync_all()
    }

    pub fn set_modified(&self, time: SystemTime) -> io::Result<()> {
        let ino = self.desc.lock().unwrap().ino;
        mach::fs_set_mtime(ino, time.as_ns())
    }

    pub fn set_len(&self, len: u64) -> io::Result<()> {
        let ino = self.desc.lock().unwrap().ino;
        mach::fs_set_len(ino, len)
    }

    /// flock(2): exclusive, blocking.
    pub fn lock(&self) -> io::Result<()> {
        let (id, ino) = self.ids();
        mach::fs_flock(ino, id, true, true).map(|_| ())
    }

    pub fn lock_shared(&self) -> io::Result<()> {
        let (id, ino) = self.ids();
        mach::fs_flock(ino, id, false, true).map(|_| ())
    }

    pub fn try_lock(&self) -> Result<(), TryLockError> {
        let (id, ino) = self.ids();
        match mach::fs_flock(ino, id, true, false) {
            Ok(true) => Ok(()),
            Ok(false) => Err(TryLockError::WouldBlock),
            Err(e) => Err(TryLockError::Error(e)),
        }
    }

    pub fn try_lock_shared(&self) -> Result<(), TryLockError> {
        let (id, ino) = self.ids();
        match mach::fs_flock(ino, id, false, false) {
            Ok(true) => Ok(()),
            Ok(false) => Err(TryLockError::WouldBlock),
            Err(e) => Err(TryLockError::Error(e)),
        }
    }

    pub fn unlock(&self) -> io::Result<()> {
        let (id, _) = self.ids();
        mach::flock_release(id);
        Ok(())
    }

    fn ids(&self) -> (u64, u64) {
        let d = self.desc.lock().unwrap();
        (d.id, d.ino)
    }

    pub fn try_clone(&self) -> io::Result<File> {
        match mach::step(OpKind::TryClone, 0)? {
            mach::StepResult::Fault(e) => Err(mach::errno(e)),
            _ => Ok(File {
                desc: self.desc.clone(),
            }),
        }
    }

    fn do_read(&self, buf: &mut [u8]) -> io::Result<usize> {
        let mut d = self.desc.lock().unwrap();
        if !d.read {
            return Err(io::Error::from_raw_os_error(9));
        }
        let n = mach::fs_read(d.ino, d.offset, buf)?;
        d.offset += n as u64;
        Ok(n)
    }

    fn do_write(&self, data: &[u8]) -> io::Result<usize> {
        let mut d = self.desc.lock().unwrap();
        if !d.write {
            return Err(io::Error::from_raw_os_error(9));
        }
        if data.is_empty() {
            return Ok(0);
        }
        let (n, off) = mach::fs_write(d.ino, d.offset, data, d.append)?;
        d.offset = off;
        Ok(n)
    }

    fn do_seek(&self, pos: SeekFrom) -> io::Result<u64> {
        match mach::step(OpKind::Seek, 0)? {
            mach::StepResult::Fault(e) => return Err(mach::errno(e)),
            _ => {}
        }
        let mut d = self.desc.lock().unwrap();
        let len = mach::with(|m| m.disk.inodes.get(&d.ino).map(|n| n.data.len()).unwrap_or(0)) as i64;
        let new = match pos {
            SeekFrom::Start(o) => o as i64,
            SeekFrom::End(o) => len + o,
            SeekFrom::Current(o) => d.offset as i64 + o,
        };
        if new < 0 {
            return Err(io::Error::from_raw_os_error(22));
        }
        d.offset = new as u64;
        Ok(d.offset)
    }
}

impl Read for File {
    fn read(&mut self, buf: &mut [u8]) -> io::Result<usize> {
        self.do_read(buf)
    }
}
impl Read for &File {
    fn read(&mut self, buf: &mut [u8]) -> io::Result<usize> {
        self.do_read(buf)
    }
}
impl Write for File {
    fn write(&mut self, buf: &[u8]) -> io::Result<usize> {
        self.do_write(buf)
    }
    fn flush(&mut self) -> io::Result<()> {
        Ok(())
    }
}
impl Write for &File {
    fn write(&mut self, buf: &[u8]) -> io::Result<usize> {
        self.do_write(buf)
    }
    fn flush(&mut self) -> io::Result<()> {
        Ok(())
    }
}
impl Seek for File {
    fn seek(&mut self, pos: SeekFrom) -> io::Result<u64> {
        self.do_seek(pos)
    }
}
impl Seek for &File {
    fn seek(&mut self, pos: SeekFrom) -> io::Result<u64> {
        self.do_seek(pos)
    }
}

#[derive(Clone, Debug)]
pub struct Metadata {
    dir: bool,
    len: u64,
    mtime_ns: u64,
}

impl Metadata {
    pub fn len(&self) -> u64 {
        self.len
    }
    pub fn is_file(&self) -> bool {
        !self.dir
    }
    pub fn is_dir(&self) -> bool {
        self.dir
    }
    pub fn modified(&self) -> io::Result<SystemTime> {
        Ok(SystemTime::from_ns(self.mtime_ns))
    }
    pub fn accessed(&self) -> io::Result<SystemTime> {
        Ok(SystemTime::from_ns(self.mtime_ns))
    }
    pub fn created(&self) -> io::Result<SystemTime> {
        Ok(SystemTime::from_ns(self.mtime_ns))
    }
}

pub fn metadata<P: AsRef<Path>>(path: P) -> io::Result<Metadata> {
    let (dir, len, mtime_ns) = mach::fs_path_meta(path.as_ref())?;
    Ok(Metadata { dir, len, mtime_ns })
}

pub fn read<P: AsRef<Path>>(path: P) -> io::Result<Vec<u8>> {
    let mut f = File::open(path)?;
    let mut v = Vec::new();
    f.read_to_end(&mut v)?;
    Ok(v)
}

pub fn read_to_string<P: AsRef<Path>>(path: P) -> io::Result<String> {
    let mut f = File::open(path)?;
    let mut s = String::new();
    f.read_to_string(&mut s)?;
    Ok(s)
}

pub fn write<P: AsRef<Path>, C: AsRef<[u8]>>(path: P, contents: C) -> io::Result<()> {
    let mut f = File::create(path)?;
    f.write_all(contents.as_ref())
}

pub fn create_dir_all<P: AsRef<Path>>(path: P) -> io::Result<()> {
    mach::fs_create_dir_all(path.as_ref())
}

pub fn create_dir<P: AsRef<Path>>(path: P) -> io::Result<()> {
    mach::fs_create_dir_all(path.as_ref())
}

pub fn rename<P: AsRef<Path>, Q: AsRef<Path>>(from: P, to: Q) -> io::Result<()> {
    mach::fs_rename(from.as_ref(), to.as_ref(), false)
}

pub fn remove_file<P: AsRef<Path>>(path: P) -> io::Result<()> {
    mach::fs_unlink(path.as_ref())
}

pub fn copy<P: AsRef<Path>, Q: AsRef<Path>>(from: P, to: Q) -> io::Result<u64> {
    mach::fs_copy(from.as_ref(), to.as_ref())
}

pub fn canonicalize<P: AsRef<Path>>(path: P) -> io::Result<PathBuf> {
    Ok(mach::norm(path.as_ref()))
}

/// One entry of `read_dir`.
#[derive(Debug, Clone)]
pub struct DirEntry {
    path: PathBuf,
}

impl DirEntry {
    pub fn path(&self) -> PathBuf {
        self.path.clone()
    }
    pub fn file_name(&self) -> std::ffi::OsString {
        self.path.file_name().map(|s| s.to_owned()).unwrap_or_default()
    }
    pub fn metadata(&self) -> io::Result<Metadata> {
        metadata(&self.path)
    }
}

pub struct ReadDir {
    items: std::vec::IntoIter<PathBuf>,
}

impl Iterator for ReadDir {
    type Item = io::Result<DirEntry>;
    fn next(&mut self) -> Option<io::Result<DirEntry>> {
        self.items.next().map(|path| Ok(DirEntry { path }))
    }
}

pub fn read_dir<P: AsRef<Path>>(path: P) -> io::Result<ReadDir> {
    match mach::step(OpKind::Metadata, 0)? {
        mach::StepResult::Fault(e) => return Err(mach::errno(e)),
        _ => {}
    }
    let dir = mach::norm(path.as_ref());
    let items = mach::with(|m| {
        if !m.disk.dirs.contains(&dir) {
            return Err(mach::not_found());
        }
        Ok(m.disk.list(&dir))
    })?;
    Ok(ReadDir {
        items: items.into_iter(),
    })
}

pub fn remove_dir_all<P: AsRef<Path>>(_path: P) -> io::Result<()> {
    Err(io::Error::from_raw_os_error(13))
}

pub fn exists<P: AsRef<Path>>(path: P) -> bool {
    metadata(path).is_ok()
}


/// `Path::exists()` / `Path::try_exists()` ask the real file system and cannot
/// be re-routed by path; harness copies of the code under test call these
/// instead (build.rs renames the calls).
pub trait SimPathExt {
    fn sim_exists(&self) -> bool;
    fn sim_try_exists(&self) -> io::Result<bool>;
}

impl SimPathExt for Path {
    fn sim_exists(&self) -> bool {
        mach::fs_path_meta(self).is_ok()
    }
    fn sim_try_exists(&self) -> io::Result<bool> {
        match mach::fs_path_meta(self) {
            Ok(_) => Ok(true),
            Err(e) if e.raw_os_error() == Some(2) => Ok(false),
            Err(e) => Err(e),
        }
    }
}

impl SimPathExt for PathBuf {
    fn sim_exists(&self) -> bool {
        self.as_path().sim_exists()
    }
    fn sim_try_exists(&self) -> io::Result<bool> {
        self.as_path().sim_try_exists()
    }
}
