//! What `sandbox/src/parent.rs` imports under the guard:
//! `timeout`, `Command`, `Stdio`, `spawn_local`, `JoinHandle`, `CtrlC`.

use crate::world::{cur_world, spawn_task, PipeEnd, TaskCtl, World};
use std::ffi::{OsStr, OsString};
use std::future::Future;
use std::io;
use std::pin::Pin;
use std::sync::{Arc, Mutex};
use std::task::{Context, Poll, Waker};
use std::time::Duration;

// ----- timeout --------------------------------------------------------------

#[derive(Debug, Clone, Copy, PartialEq, Eq)]
pub struct TimeoutError {
    _private: (),
}

impl std::fmt::Display for TimeoutError {
    fn fmt(&self, f: &mut std::fmt::Formatter<'_>) -> std::fmt::Result {
        write!(f, "future has timed out")
    }
}

impl std::error::Error for TimeoutError {}

/// Same contract as `async_std::future::timeout`: the inner future is polled
/// first, the deadline second.
pub async fn timeout<F, T>(dur: Duration, f: F) -> Result<T, TimeoutError>
where
    F: Future<Output = T>,
{
    let ns = dur.as_nanos().min(u64::MAX as u128) as u64;
    let mut sleep = Box::pin(crate::world::sleep_ns(ns.max(1)));
    let mut f = Box::pin(f);
    std::future::poll_fn(move |cx| {
        if let Poll::Ready(v) = f.as_mut().poll(cx) {
            return Poll::Ready(Ok(v));
        }
        match sleep.as_mut().poll(cx) {
            Poll::Ready(()) => {
                cur_world().stat("timeout_elapsed");
                Poll::Ready(Err(TimeoutError { _private: () }))
            }
            Poll::Pending => Poll::Pending,
        }
    })
    .await
}

/// `async_std::task::sleep` over simulated time.
pub async fn sleep(dur: Duration) {
    crate::world::sleep_ns(dur.as_nanos().min(u64::MAX as u128) as u64).await
}

// ----- tasks ----------------------------------------------------------------

struct JoinState<T> {
    output: Option<T>,
    done: bool,
    joiner: Option<Waker>,
}

pub struct JoinHandle<T> {
    state: Arc<Mutex<JoinState<T>>>,
    ctl: Arc<TaskCtl>,
}

impl<T> std::fmt::Debug for JoinHandle<T> {
    fn fmt(&self, f: &mut std::fmt::Formatter<'_>) -> std::fmt::Result {
        f.debug_struct("JoinHandle").finish()
    }
}

/// `async_std::task::spawn_local`: the task runs on the calling thread's
/// executor, here the simulated driver.
pub fn spawn_local<F, T>(future: F) -> JoinHandle<T>
where
    F: Future<Output = T> + 'static,
    T: Send + 'static,
{
    let state = Arc::new(Mutex::new(JoinState {
        output: None,
        done: false,
        joiner: None,
    }));
    let s2 = state.clone();
    let s3 = state.clone();
    let fut = Box::pin(async move {
        let v = future.await;
        let w = {
            let mut g = s2.lock().unwrap();
            g.output = Some(v);
            g.done = true;
            g.joiner.take()
        };
        if let Some(w) = w {
            w.wake();
        }
    });
    let ctl = spawn_task(
        fut,
        Box::new(move || {
            let w = {
                let mut g = s3.lock().unwrap();
                g.done = true;
                g.joiner.take()
            };
            if let Some(w) = w {
                w.wake();
            }
        }),
    );
    JoinHandle { state, ctl }
}

impl<T> JoinHandle<T> {
    /// As in async-std this is an `async fn`: nothing happens until the
    /// returned future is polled, and dropping it unpolled merely detaches
    /// the task.
    pub async fn cancel(self) -> Option<T> {
        {
            let done = self.state.lock().unwrap().done;
            if !done {
                self.ctl.request_cancel();
                cur_world().stat("task_cancel_requested");
            }
        }
        let state = self.state.clone();
        std::future::poll_fn(move |cx| {
            let mut g = state.lock().unwrap();
            if g.done {
                Poll::Ready(g.output.take())
            } else {
                g.joiner = Some(cx.waker().clone());
                Poll::Pending
            }
        })
        .await
    }
}

impl<T> Future for JoinHandle<T> {
    type Output = T;
    fn poll(self: Pin<&mut Self>, cx: &mut Context<'_>) -> Poll<T> {
        let mut g = self.state.lock().unwrap();
        if let Some(v) = g.output.take() {
            Poll::Ready(v)
        } else {
            g.joiner = Some(cx.waker().clone());
            Poll::Pending
        }
    }
}

// ----- ctrl-c ---------------------------------------------------------------

#[derive(Debug)]
pub struct CtrlCError;

impl std::fmt::Display for CtrlCError {
    fn fmt(&self, f: &mut std::fmt::Formatter<'_>) -> std::fmt::Result {
        write!(f, "ctrl-c handler already registered")
    }
}
impl std::error::Error for CtrlCError {}

/// `async_ctrlc::CtrlC` with its latch semantics: an interrupt raised while
/// nobody listens is delivered to the next listener.
#[derive(Debug)]
pub struct CtrlC {
    _private: (),
}

impl CtrlC {
    pub fn new() -> Result<CtrlC, CtrlCError> {
        Ok(CtrlC { _private: () })
    }
}

impl futures_core::Stream for CtrlC {
    type Item = ();
    fn poll_next(self: Pin<&mut Self>, cx: &mut Context<'_>) -> Poll<Option<()>> {
        match cur_world().poll_ctrlc(cx) {
            Poll::Ready(()) => Poll::Ready(Some(())),
            Poll::Pending => Poll::Pending,
        }
    }
}

impl Future for CtrlC {
    type Output = ();
    fn poll(self: Pin<&mut Self>, cx: &mut Context<'_>) -> Poll<()> {
        cur_world().poll_ctrlc(cx)
    }
}

// ----- processes ------------------------------------------------------------

#[derive(Debug)]
pub struct Stdio {
    piped: bool,
}

impl Stdio {
    pub fn piped() -> Stdio {
        Stdio { piped: true }
    }
    pub fn inherit() -> Stdio {
        Stdio { piped: false }
    }
    pub fn null() -> Stdio {
        Stdio { piped: false }
    }
}

#[derive(Debug)]
pub struct Command {
    program: OsString,
    args: Vec<OsString>,
    stdin_piped: bool,
    stdout_piped: bool,
    kill_on_drop: bool,
}

impl Command {
    pub fn new<S: AsRef<OsStr>>(program: S) -> Command {
        Command {
            program: program.as_ref().to_owned(),
            args: Vec::new(),
            stdin_piped: false,
            stdout_piped: false,
            kill_on_drop: false,
        }
    }
    pub fn arg<S: AsRef<OsStr>>(&mut self, arg: S) -> &mut Command {
        self.args.push(arg.as_ref().to_owned());
        self
    }
    pub fn args<I, S>(&mut self, args: I) -> &mut Command
    where
        I: IntoIterator<Item = S>,
        S: AsRef<OsStr>,
    {
        for a in args {
            self.args.push(a.as_ref().to_owned());
        }
        self
    }
    pub fn stdin<T: Into<Stdio>>(&mut self, cfg: T) -> &mut Command {
        self.stdin_piped = cfg.into().piped;
        self
    }
    pub fn stdout<T: Into<Stdio>>(&mut self, cfg: T) -> &mut Command {
        self.stdout_piped = cfg.into().piped;
        self
    }
    pub fn stderr<T: Into<Stdio>>(&mut self, _cfg: T) -> &mut Command {
        self
    }
    pub fn kill_on_drop(&mut self, v: bool) -> &mut Command {
        self.kill_on_drop = v;
        self
    }
    pub fn spawn(&mut self) -> io::Result<Child> {
        let world = cur_world();
        let name = std::path::Path::new(&self.program)
            .file_name()
            .map(|s| s.to_string_lossy().to_string())
            .unwrap_or_default();
        let key = if world.has_program(&name) {
            name
        } else {
            "*".to_string()
        };
        let (pidx, stdin_pipe, stdout_pipe) = world.spawn_process(&key, self.args.clone())?;
        // The parent's ends. An end that was not requested as piped is closed
        // at once (the child would see its own terminal, which the simulation
        // does not model).
        let stdin = PipeEnd::new(&world, stdin_pipe, false, true);
        let stdout = PipeEnd::new(&world, stdout_pipe, true, true);
        Ok(Child {
            world,
            pidx,
            stdin: if self.stdin_piped {
                Some(ChildStdin(stdin))
            } else {
                None
            },
            stdout: if self.stdout_piped {
                Some(ChildStdout(stdout))
            } else {
                None
            },
            stderr: None,
            kill_on_drop: self.kill_on_drop,
        })
    }
}

pub struct ChildStdin(PipeEnd);
pub struct ChildStdout(PipeEnd);
pub struct ChildStderr(());

impl std::fmt::Debug for ChildStdin {
    fn fmt(&self, f: &mut std::fmt::Formatter<'_>) -> std::fmt::Result {
        write!(f, "ChildStdin")
    }
}
impl std::fmt::Debug for ChildStdout {
    fn fmt(&self, f: &mut std::fmt::Formatter<'_>) -> std::fmt::Result {
        write!(f, "ChildStdout")
    }
}

impl futures_io::AsyncWrite for ChildStdin {
    fn poll_write(
        mut self: Pin<&mut Self>,
        cx: &mut Context<'_>,
        buf: &[u8],
    ) -> Poll<io::Result<usize>> {
        Pin::new(&mut self.0).poll_write(cx, buf)
    }
    fn poll_flush(mut self: Pin<&mut Self>, cx: &mut Context<'_>) -> Poll<io::Result<()>> {
        Pin::new(&mut self.0).poll_flush(cx)
    }
    fn poll_close(mut self: Pin<&mut Self>, cx: &mut Context<'_>) -> Poll<io::Result<()>> {
        Pin::new(&mut self.0).poll_close(cx)
    }
}

impl futures_io::AsyncRead for ChildStdout {
    fn poll_read(
        mut self: Pin<&mut Self>,
        cx: &mut Context<'_>,
        buf: &mut [u8],
    ) -> Poll<io::Result<usize>> {
        Pin::new(&mut self.0).poll_read(cx, buf)
    }
}

pub struct Child {
    world: Arc<World>,
    pidx: usize,
    pub stdin: Option<ChildStdin>,
    pub stdout: Option<ChildStdout>,
    pub stderr: Option<ChildStderr>,
    kill_on_drop: bool,
}

impl std::fmt::Debug for Child {
    fn fmt(&self, f: &mut std::fmt::Formatter<'_>) -> std::fmt::Result {
        write!(f, "Child(pid={})", self.pidx + 1)
    }
}

impl Child {
    pub fn id(&self) -> u32 {
        self.pidx as u32 + 1
    }
    pub fn kill(&mut self) -> io::Result<()> {
        self.world.kill_process(self.pidx)
    }
    pub fn try_status(&mut self) -> io::Result<Option<i32>> {
        Ok(if self.world.proc_alive(self.pidx) {
            None
        } else {
            Some(1)
        })
    }
}

impl Drop for Child {
    fn drop(&mut self) {
        if self.kill_on_drop && self.world.proc_alive(self.pidx) {
            let _ = self.world.kill_process(self.pidx);
        }
    }
}
