//! Stand-ins with the call surface of the std / async-std / async-ctrlc items
//! that the hooked files in /repo import. Under `--cfg rink_verif_sim` those
//! files import these instead.

pub mod alloc;
pub mod child;
pub mod fs;
pub mod parent;
pub mod time;
