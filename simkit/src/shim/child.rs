//! What `sandbox/src/child.rs` imports under the guard: `stdin`, `stdout`,
//! `exit`, `Instant`. A simulated process is one controlled thread; its
//! standard streams are the child's ends of the two pipes its parent created.

use crate::world::{cur, PipeEnd, SimAbort, SimExit, World};
use std::cell::RefCell;
use std::io::{self, BufRead, BufReader, LineWriter, Read, Write};
use std::sync::{Arc, Mutex, MutexGuard};
use std::time::Duration;

struct ChildIo {
    // Same buffering as the real std handles: stdin is a BufReader, stdout a
    // LineWriter, so a missing flush() wedges the conversation here as it
    // would between real processes.
    stdin: Arc<Mutex<BufReader<PipeEnd>>>,
    stdout: Arc<Mutex<LineWriter<PipeEnd>>>,
}

thread_local! {
    static IO: RefCell<Option<ChildIo>> = const { RefCell::new(None) };
    /// "Can this simulated process allocate n more bytes right now?"
    static ALLOC_PROBE: RefCell<Option<Box<dyn Fn(usize) -> bool>>> = const { RefCell::new(None) };
}

/// Installed by the program a simulated process runs: how the process's own
/// memory limit answers a request for `n` more bytes.
pub fn set_alloc_probe(probe: Option<Box<dyn Fn(usize) -> bool>>) {
    ALLOC_PROBE.with(|p| *p.borrow_mut() = probe);
}

/// Hook called from the child-side framing (`frame.rs`, cfg-guarded): in a real
/// child these allocations go through the limited global allocator, and when
/// one fails the process aborts (`handle_alloc_error`).
pub fn alloc_point(n: usize) {
    let ok = ALLOC_PROBE.with(|p| p.borrow().as_ref().map(|f| f(n)).unwrap_or(true));
    if !ok {
        if let Some(c) = cur() {
            c.world.stat("child_out_of_memory_in_framing");
        }
        abort();
    }
}

pub(crate) fn thread_setup(world: &Arc<World>, stdin_pipe: usize, stdout_pipe: usize) {
    let io = ChildIo {
        stdin: Arc::new(Mutex::new(BufReader::new(PipeEnd::new(
            world, stdin_pipe, true, false,
        )))),
        stdout: Arc::new(Mutex::new(LineWriter::new(PipeEnd::new(
            world,
            stdout_pipe,
            false,
            false,
        )))),
    };
    IO.with(|c| *c.borrow_mut() = Some(io));
}

pub(crate) fn thread_teardown() {
    // Dropping the LineWriter would flush. Whether the process exited (already
    // flushed by exit()), aborted or was killed, nothing more may reach the
    // pipe from here, so the ends are switched to "discard" first.
    crate::world::set_discard_io(true);
    set_alloc_probe(None);
    let io = IO.with(|c| c.borrow_mut().take());
    drop(io);
    crate::world::set_discard_io(false);
}

/// Is the calling thread a simulated process (with its own stdin/stdout)?
pub fn in_process() -> bool {
    IO.with(|c| c.borrow().is_some())
}

/// `println!` of code that may run inside a simulated process: the line goes
/// to that process's stdout - the same line-buffered writer its frames go
/// through, as with the real `std::io::stdout()` - and to the real stdout
/// otherwise.
pub fn print_line(args: std::fmt::Arguments<'_>) {
    if in_process() {
        let mut o = stdout();
        let _ = o.write_fmt(args);
        let _ = o.write_all(b"\n");
    } else {
        println!("{}", args);
    }
}

/// `std::thread::spawn` inside a simulated process: the new thread belongs to
/// the same process (it dies with it, and its `exit` ends it), runs only when
/// the scheduler picks it, and sleeps in simulated time.
pub struct JoinHandle<T> {
    tid: Option<usize>,
    result: Arc<Mutex<Option<T>>>,
}

impl<T> JoinHandle<T> {
    pub fn is_finished(&self) -> bool {
        match (cur(), self.tid) {
            (Some(c), Some(t)) => c.world.thread_is_finished(t),
            _ => true,
        }
    }
    pub fn join(self) -> std::thread::Result<T> {
        if let (Some(c), Some(t)) = (cur(), self.tid) {
            while !c.world.thread_is_finished(t) {
                c.world.thread_yield(&c, None);
            }
        }
        match self.result.lock().unwrap_or_else(|e| e.into_inner()).take() {
            Some(v) => Ok(v),
            None => Err(Box::new("simkit: thread did not finish normally")),
        }
    }
}

pub fn spawn<F, T>(f: F) -> JoinHandle<T>
where
    F: FnOnce() -> T + Send + 'static,
    T: Send + 'static,
{
    let result: Arc<Mutex<Option<T>>> = Arc::new(Mutex::new(None));
    let r2 = result.clone();
    let body: Box<dyn FnOnce() + Send + 'static> = Box::new(move || {
        let v = f();
        *r2.lock().unwrap_or_else(|e| e.into_inner()) = Some(v);
    });
    match cur() {
        Some(c) => {
            let tid = c.world.spawn_thread_in_process(&c, body);
            JoinHandle {
                tid: Some(tid),
                result,
            }
        }
        None => {
            // not inside a simulation: run it at once
            body();
            JoinHandle { tid: None, result }
        }
    }
}

fn stderr_broken() -> bool {
    crate::machine::installed() && crate::machine::with(|m| m.stderr_broken)
}

/// `eprintln!` of code compiled into a harness: the text is formatted and
/// dropped; when the simulated machine says that stderr cannot be written it
/// panics, as std's `eprintln!` does.
pub fn eprint_line(args: std::fmt::Arguments<'_>) {
    let _ = std::fmt::format(args);
    if stderr_broken() {
        crate::machine::with(|m| m.stat("stderr_write_failed"));
        panic!("failed printing to stderr: No space left on device (os error 28)");
    }
}

/// `std::io::stderr()` of code compiled into a harness.
pub struct Stderr;

pub fn stderr() -> Stderr {
    Stderr
}

impl Stderr {
    pub fn lock(&self) -> Stderr {
        Stderr
    }
}

impl Write for Stderr {
    fn write(&mut self, buf: &[u8]) -> io::Result<usize> {
        if stderr_broken() {
            crate::machine::with(|m| m.stat("stderr_write_failed"));
            Err(io::Error::from_raw_os_error(28))
        } else {
            Ok(buf.len())
        }
    }
    fn flush(&mut self) -> io::Result<()> {
        Ok(())
    }
}

pub struct Stdin {
    inner: Arc<Mutex<BufReader<PipeEnd>>>,
}

pub struct StdinLock<'a> {
    g: MutexGuard<'a, BufReader<PipeEnd>>,
}

pub fn stdin() -> Stdin {
    IO.with(|c| Stdin {
        inner: c
            .borrow()
            .as_ref()
            .expect("simkit: stdin() outside a simulated process")
            .stdin
            .clone(),
    })
}

impl Stdin {
    pub fn lock(&self) -> StdinLock<'_> {
        StdinLock {
            g: self.inner.lock().unwrap_or_else(|e| e.into_inner()),
        }
    }
}

impl Read for StdinLock<'_> {
    fn read(&mut self, buf: &mut [u8]) -> io::Result<usize> {
        self.g.read(buf)
    }
}

impl BufRead for StdinLock<'_> {
    fn fill_buf(&mut self) -> io::Result<&[u8]> {
        self.g.fill_buf()
    }
    fn consume(&mut self, amt: usize) {
        self.g.consume(amt)
    }
}

impl Read for Stdin {
    fn read(&mut self, buf: &mut [u8]) -> io::Result<usize> {
        self.lock().read(buf)
    }
}

pub struct Stdout {
    inner: Arc<Mutex<LineWriter<PipeEnd>>>,
}

/// Like std's, the lock on stdout is re-entrant: code that holds it (child.rs
/// does, for its whole life) may still `println!`. A simulated process has one
/// thread, so the lock is taken per operation instead of being held.
pub struct StdoutLock<'a> {
    s: &'a Stdout,
}

pub fn stdout() -> Stdout {
    IO.with(|c| Stdout {
        inner: c
            .borrow()
            .as_ref()
            .expect("simkit: stdout() outside a simulated process")
            .stdout
            .clone(),
    })
}

impl Stdout {
    pub fn lock(&self) -> StdoutLock<'_> {
        StdoutLock { s: self }
    }
    fn with<R>(&self, f: impl FnOnce(&mut LineWriter<PipeEnd>) -> R) -> R {
        let mut g = self.inner.lock().unwrap_or_else(|e| e.into_inner());
        f(&mut g)
    }
}

impl Write for StdoutLock<'_> {
    fn write(&mut self, buf: &[u8]) -> io::Result<usize> {
        self.s.with(|w| w.write(buf))
    }
    fn flush(&mut self) -> io::Result<()> {
        self.s.with(|w| w.flush())
    }
}

impl Write for Stdout {
    fn write(&mut self, buf: &[u8]) -> io::Result<usize> {
        self.with(|w| w.write(buf))
    }
    fn flush(&mut self) -> io::Result<()> {
        self.with(|w| w.flush())
    }
}

/// `std::process::exit`: flushes stdout (as std's runtime cleanup does), then
/// ends the simulated process without running the caller's destructors'
/// simulated effects.
pub fn exit(code: i32) -> ! {
    if let Some(c) = cur() {
        if !c.world.thread_is_dead(&c) && !std::thread::panicking() {
            c.world.thread_yield(&c, None);
            let out = IO.with(|c| c.borrow().as_ref().map(|io| io.stdout.clone()));
            if let Some(out) = out {
                if let Ok(mut g) = out.try_lock() {
                    let _ = g.flush();
                }
            }
            c.world.event("exit", code as u64, 0);
            c.world.process_ends_now(&c, crate::world::ThreadEnd::Exit(code));
        }
    }
    std::panic::resume_unwind(Box::new(SimExit(code)))
}

/// `std::process::abort` / `handle_alloc_error`: no flush, no unwinding of
/// simulated effects.
pub fn abort() -> ! {
    if let Some(c) = cur() {
        if !c.world.thread_is_dead(&c) {
            c.world.thread_yield(&c, None);
            c.world.event("abort", 0, 0);
            c.world.process_ends_now(&c, crate::world::ThreadEnd::Abort);
        }
    }
    std::panic::resume_unwind(Box::new(SimAbort))
}

/// Spend `d` of simulated time computing.
pub fn sleep(d: Duration) {
    let c = cur().expect("simkit: sleep() outside a world");
    if c.world.thread_is_dead(&c) {
        crate::world::die_if_dead_now();
        return;
    }
    c.world.thread_sleep(&c, d.as_nanos().min(u64::MAX as u128) as u64);
}

/// `std::time::Instant` over the simulated clock.
#[derive(Clone, Copy, Debug, PartialEq, Eq, PartialOrd, Ord, Hash)]
pub struct Instant(u64);

impl Instant {
    pub fn now() -> Instant {
        match cur() {
            Some(c) => Instant(c.world.now_ns()),
            None => Instant(0),
        }
    }
    pub fn elapsed(&self) -> Duration {
        Instant::now() - *self
    }
    pub fn duration_since(&self, earlier: Instant) -> Duration {
        Duration::from_nanos(self.0.saturating_sub(earlier.0))
    }
}

impl std::ops::Sub<Instant> for Instant {
    type Output = Duration;
    fn sub(self, rhs: Instant) -> Duration {
        Duration::from_nanos(self.0.saturating_sub(rhs.0))
    }
}

impl std::ops::Add<Duration> for Instant {
    type Output = Instant;
    fn add(self, rhs: Duration) -> Instant {
        Instant(self.0.saturating_add(rhs.as_nanos() as u64))
    }
}
