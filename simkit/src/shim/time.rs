//! `std::time::SystemTime` over the simulated machine's clock.

use std::time::Duration;

#[derive(Clone, Copy, Debug, PartialEq, Eq, PartialOrd, Ord, Hash)]
pub struct SystemTime(u64);

pub const UNIX_EPOCH: SystemTime = SystemTime(0);

#[derive(Clone, Debug)]
pub struct SystemTimeError(Duration);

impl SystemTimeError {
    pub fn duration(&self) -> Duration {
        self.0
    }
}

impl std::fmt::Display for SystemTimeError {
    fn fmt(&self, f: &mut std::fmt::Formatter<'_>) -> std::fmt::Result {
        write!(f, "second time provided was later than self")
    }
}

impl std::error::Error for SystemTimeError {}

impl SystemTime {
    pub const UNIX_EPOCH: SystemTime = SystemTime(0);

    pub fn from_ns(ns: u64) -> SystemTime {
        SystemTime(ns)
    }
    pub fn as_ns(&self) -> u64 {
        self.0
    }
    pub fn now() -> SystemTime {
        SystemTime(crate::machine::now_ns())
    }
    pub fn duration_since(&self, earlier: SystemTime) -> Result<Duration, SystemTimeError> {
        if self.0 >= earlier.0 {
            Ok(Duration::from_nanos(self.0 - earlier.0))
        } else {
            Err(SystemTimeError(Duration::from_nanos(earlier.0 - self.0)))
        }
    }
    pub fn elapsed(&self) -> Result<Duration, SystemTimeError> {
        SystemTime::now().duration_since(*self)
    }
    pub fn checked_add(&self, d: Duration) -> Option<SystemTime> {
        self.0.checked_add(d.as_nanos() as u64).map(SystemTime)
    }
    pub fn checked_sub(&self, d: Duration) -> Option<SystemTime> {
        self.0.checked_sub(d.as_nanos() as u64).map(SystemTime)
    }
}

impl std::ops::Add<Duration> for SystemTime {
    type Output = SystemTime;
    fn add(self, d: Duration) -> SystemTime {
        SystemTime(self.0 + d.as_nanos() as u64)
    }
}

impl std::ops::Sub<Duration> for SystemTime {
    type Output = SystemTime;
    fn sub(self, d: Duration) -> SystemTime {
        SystemTime(self.0.saturating_sub(d.as_nanos() as u64))
    }
}

/// `std::thread::sleep` for code running on the simulated machine: the virtual
/// clock advances, no real time passes.
pub fn sleep(d: Duration) {
    if crate::machine::installed() {
        crate::machine::with(|m| {
            m.clock_ns = m.clock_ns.saturating_add(d.as_nanos().min(u64::MAX as u128) as u64);
            m.stat("simulated_sleep");
        });
    }
}
