//! Batch runner: master process, worker processes, minimiser, replay files,
//! known findings and evidence. Generic over a `Harness`.
//!
//! Exit codes: 0 property held on everything explored; 1 violation (with a
//! `VIOLATION property=<id> replay=<path>` line); 2 harness error.

use crate::chooser::Chooser;
use crate::rng::{mix, Rng};
use serde::{de::DeserializeOwned, Deserialize, Serialize};
use serde_json::{json, Value};
use std::collections::{BTreeMap, BTreeSet};
use std::io::Write;
use std::path::{Path, PathBuf};
use std::time::{Duration, Instant};

pub const DEFAULT_SEED: u64 = 20260927;
pub const HARNESS_VERSION: u32 = 1;

#[derive(Clone, Copy, Debug, PartialEq, Eq)]
pub enum Tier {
    Quick,
    Thorough,
}

impl Tier {
    pub fn name(self) -> &'static str {
        match self {
            Tier::Quick => "quick",
            Tier::Thorough => "thorough",
        }
    }
}

#[derive(Clone, Debug, Serialize, Deserialize)]
pub struct Violation {
    /// Stable name of the oracle clause that failed.
    pub clause: String,
    pub detail: String,
}

#[derive(Clone, Debug, Default)]
pub struct Outcome {
    pub violation: Option<Violation>,
    pub digest: u64,
    pub choices: Vec<u32>,
    pub stats: BTreeMap<String, u64>,
    pub sim_ns: u64,
    pub history: Vec<String>,
    /// At least one fault fired or one non-default decision was taken.
    pub nontrivial: bool,
    pub log: Vec<String>,
}

pub struct Budget {
    /// Upper bound on runs in the batch.
    pub runs: u64,
    /// Soft wall-clock budget: workers stop starting new runs after this.
    pub soft_s: u64,
}

pub trait Harness: Sync {
    type Scenario: Serialize + DeserializeOwned + Clone;

    fn property(&self) -> &'static str;
    fn level(&self) -> &'static str {
        "exploration"
    }
    fn budget(&self, tier: Tier) -> Budget;
    /// Generate the scenario of run `index`; `rng` is derived from the run seed.
    fn generate(&self, rng: &mut Rng, tier: Tier, index: u64) -> Self::Scenario;
    /// Execute one run. Must be a pure function of (scenario, chooser).
    fn execute(&self, sc: &Self::Scenario, chooser: Chooser, keep_log: bool) -> Outcome;
    /// Simpler variants of a scenario, most aggressive first.
    fn shrink(&self, sc: &Self::Scenario) -> Vec<Self::Scenario>;
    /// Key used to match a violation against `known:` entries.
    fn key(&self, sc: &Self::Scenario) -> String;
    /// Sub-batch label of a scenario (for evidence).
    fn label(&self, _sc: &Self::Scenario) -> String {
        String::new()
    }
    fn rule(&self) -> String;
    fn assumptions(&self) -> Vec<String>;
    fn real_vs_stub(&self) -> Value;
    /// Probes that should be non-zero in a thorough run.
    fn expected_probes(&self) -> Vec<&'static str> {
        Vec::new()
    }
    /// Budget of the minimiser: (executions, wall time).
    fn minimise_budget(&self) -> (u64, Duration) {
        (2000, Duration::from_secs(30))
    }
    /// When a violation found in a worker does not reproduce from its own
    /// scenario in a pristine execution, the cause may lie in what the worker
    /// process executed *before* (state that leaks through the process itself).
    /// A harness that can express "these earlier scenarios, then this one" as
    /// one scenario returns it here, so that the finding still gets a replay
    /// file that reproduces on its own.
    fn combine(&self, _earlier: &[Self::Scenario], _current: &Self::Scenario) -> Option<Self::Scenario> {
        None
    }
}

#[derive(Serialize, Deserialize, Clone, Debug)]
pub struct ReplayFile {
    pub property: String,
    pub harness: u32,
    pub seed: u64,
    pub run_index: u64,
    pub clause: String,
    pub detail: String,
    pub key: String,
    pub scenario: Value,
    pub choices: Vec<u32>,
    pub digest: String,
    pub history: Vec<String>,
    pub repo_commit: String,
    pub repo_dirty: bool,
    pub minimised: bool,
    pub original_choices_len: usize,
    pub shrink_executions: u64,
}

#[derive(Serialize, Deserialize, Default, Debug)]
struct WorkerSummary {
    worker: u64,
    runs: u64,
    truncated: bool,
    nontrivial_digests: Vec<u64>,
    all_digest_count: u64,
    stats: BTreeMap<String, u64>,
    labels: BTreeMap<String, u64>,
    sim_ns: u128,
    samples: Vec<Value>,
    violations: Vec<ReplayRef>,
    known: Vec<String>,
    error: Option<String>,
    busy_s: f64,
}

#[derive(Serialize, Deserialize, Debug, Clone)]
struct ReplayRef {
    path: String,
    clause: String,
    key: String,
    detail: String,
}

pub fn root_dir() -> PathBuf {
    if let Ok(r) = std::env::var("VERIF_ROOT") {
        return PathBuf::from(r);
    }
    std::env::current_dir().unwrap()
}

fn repo_dir() -> PathBuf {
    root_dir().join("work").join("repo")
}

fn repo_state() -> (String, bool) {
    let repo = repo_dir();
    let out = std::process::Command::new("git")
        .arg("-C")
        .arg(&repo)
        .args(["rev-parse", "HEAD"])
        .output();
    let commit = match out {
        Ok(o) if o.status.success() => String::from_utf8_lossy(&o.stdout).trim().to_string(),
        _ => "unknown".to_string(),
    };
    let dirty = std::process::Command::new("git")
        .arg("-C")
        .arg(&repo)
        .args(["status", "--porcelain", "--untracked-files=no"])
        .output()
        .map(|o| !o.stdout.is_empty())
        .unwrap_or(false);
    (commit, dirty)
}

fn run_seed(batch_seed: u64, property: &str, index: u64) -> u64 {
    let mut h = crate::rng::Fnv::default();
    h.str(property);
    mix(mix(batch_seed, h.0), index)
}

/// One generated run: scenario from the run seed, choices from the run seed.
fn generated_run<H: Harness>(
    h: &H,
    batch_seed: u64,
    tier: Tier,
    index: u64,
) -> (H::Scenario, Outcome) {
    let seed = run_seed(batch_seed, h.property(), index);
    let mut rng = Rng::new(seed);
    let sc = h.generate(&mut rng, tier, index);
    let chooser = Chooser::generate(rng.next_u64());
    let out = exec(h, &sc, chooser, false);
    (sc, out)
}

/// Execute and fold the scenario itself into the run's digest, so that the
/// digest identifies (scenario, schedule, observable events).
fn exec<H: Harness>(h: &H, sc: &H::Scenario, chooser: Chooser, keep_log: bool) -> Outcome {
    let mut out = h.execute(sc, chooser, keep_log);
    let mut f = crate::rng::Fnv::default();
    f.str(&serde_json::to_string(sc).unwrap());
    out.digest = mix(out.digest, f.0);
    out
}

struct Known {
    fixed: Vec<String>,
    known: Vec<(String, String, String, String)>, // property, clause, key, text
}

fn load_known() -> Known {
    let mut k = Known {
        fixed: Vec::new(),
        known: Vec::new(),
    };
    let p = root_dir().join("known_findings.txt");
    if let Ok(s) = std::fs::read_to_string(p) {
        for line in s.lines() {
            let line = line.trim();
            if line.starts_with("fixed:") {
                k.fixed.push(line.to_string());
            } else if let Some(rest) = line.strip_prefix("known:") {
                let mut prop = String::new();
                let mut clause = String::new();
                let mut key = String::new();
                for tok in rest.split_whitespace() {
                    if let Some(v) = tok.strip_prefix("property=") {
                        prop = v.to_string();
                    } else if let Some(v) = tok.strip_prefix("clause=") {
                        clause = v.to_string();
                    } else if let Some(v) = tok.strip_prefix("key=") {
                        key = v.to_string();
                    }
                }
                k.known.push((prop, clause, key, rest.trim().to_string()));
            }
        }
    }
    k
}

impl Known {
    fn matches(&self, property: &str, clause: &str, key: &str) -> Option<String> {
        self.known
            .iter()
            .find(|(p, c, k, _)| p == property && c == clause && k == key)
            .map(|(_, _, _, t)| t.clone())
    }
}

/// Shrink a failing (scenario, choices) pair while the same clause fails.
pub fn minimise<H: Harness>(
    h: &H,
    sc: &H::Scenario,
    choices: &[u32],
    clause: &str,
    max_exec: u64,
    max_time: Duration,
) -> (H::Scenario, Vec<u32>, Outcome, u64) {
    let start = Instant::now();
    let mut execs = 0u64;
    let mut best_sc = sc.clone();
    let mut best_ch: Vec<u32> = choices.to_vec();
    let mut best_out = exec(h, &best_sc, Chooser::replay(best_ch.clone()), false);
    execs += 1;
    let still = |o: &Outcome| o.violation.as_ref().map(|v| v.clause == clause).unwrap_or(false);
    if !still(&best_out) {
        // Not reproducible from its own record: report as is (the caller flags it).
        return (best_sc, best_ch, best_out, execs);
    }
    let over = |execs: u64| execs >= max_exec || start.elapsed() >= max_time;
    let mut progress = true;
    while progress && !over(execs) {
        progress = false;
        // 1. default schedule altogether
        if best_ch.iter().any(|c| *c != 0) {
            let out = exec(h, &best_sc, Chooser::replay(Vec::new()), false);
            execs += 1;
            if still(&out) {
                best_ch = Vec::new();
                best_out = out;
                progress = true;
            }
        }
        // 2. structural shrinking of the scenario
        'outer: loop {
            if over(execs) {
                break;
            }
            for cand in h.shrink(&best_sc) {
                if over(execs) {
                    break 'outer;
                }
                let out = exec(h, &cand, Chooser::replay(best_ch.clone()), false);
                execs += 1;
                if still(&out) {
                    best_sc = cand;
                    best_out = out;
                    progress = true;
                    continue 'outer;
                }
                // A shrunken scenario often fails under the default schedule.
                if !best_ch.is_empty() {
                    let out = exec(h, &cand, Chooser::replay(Vec::new()), false);
                    execs += 1;
                    if still(&out) {
                        best_sc = cand;
                        best_ch = Vec::new();
                        best_out = out;
                        progress = true;
                        continue 'outer;
                    }
                }
            }
            break;
        }
        // 3. generic shrinking of the choice list
        // 3a. truncate (missing entries read as 0)
        let mut n = best_ch.len();
        while n > 0 && !over(execs) {
            let half = n / 2;
            let cand: Vec<u32> = best_ch[..half].to_vec();
            let out = exec(h, &best_sc, Chooser::replay(cand.clone()), false);
            execs += 1;
            if still(&out) {
                best_ch = cand;
                best_out = out;
                progress = true;
                n = half;
            } else {
                break;
            }
        }
        // 3b. zero chunks, halving chunk size
        let mut chunk = best_ch.len().max(1);
        while chunk >= 1 && !over(execs) {
            let mut i = 0;
            while i < best_ch.len() && !over(execs) {
                let end = (i + chunk).min(best_ch.len());
                if best_ch[i..end].iter().any(|c| *c != 0) {
                    let mut cand = best_ch.clone();
                    for c in &mut cand[i..end] {
                        *c = 0;
                    }
                    let out = exec(h, &best_sc, Chooser::replay(cand.clone()), false);
                    execs += 1;
                    if still(&out) {
                        best_ch = cand;
                        best_out = out;
                        progress = true;
                    }
                }
                i = end;
            }
            if chunk == 1 {
                break;
            }
            chunk /= 2;
        }
        // 3c. decrement non-zero entries towards 1
        for i in 0..best_ch.len() {
            if over(execs) {
                break;
            }
            if best_ch[i] > 1 {
                let mut cand = best_ch.clone();
                cand[i] = 1;
                let out = exec(h, &best_sc, Chooser::replay(cand.clone()), false);
                execs += 1;
                if still(&out) {
                    best_ch = cand;
                    best_out = out;
                    progress = true;
                }
            }
        }
        // drop trailing zeros
        while best_ch.last() == Some(&0) {
            best_ch.pop();
        }
    }
    // Final canonical execution of the minimised pair.
    let final_out = exec(h, &best_sc, Chooser::replay(best_ch.clone()), false);
    execs += 1;
    if still(&final_out) {
        best_out = final_out;
    }
    (best_sc, best_ch, best_out, execs)
}

fn write_replay<H: Harness>(
    h: &H,
    batch_seed: u64,
    index: u64,
    sc: &H::Scenario,
    choices: &[u32],
    out: &Outcome,
    minimised: bool,
    orig_len: usize,
    execs: u64,
) -> std::io::Result<(PathBuf, ReplayFile)> {
    let v = out.violation.clone().unwrap();
    let (commit, dirty) = repo_state();
    let rf = ReplayFile {
        property: h.property().to_string(),
        harness: HARNESS_VERSION,
        seed: batch_seed,
        run_index: index,
        clause: v.clause.clone(),
        detail: v.detail.clone(),
        key: h.key(sc),
        scenario: serde_json::to_value(sc).unwrap(),
        choices: choices.to_vec(),
        digest: format!("{:016x}", out.digest),
        history: out.history.clone(),
        repo_commit: commit,
        repo_dirty: dirty,
        minimised,
        original_choices_len: orig_len,
        shrink_executions: execs,
    };
    let dir = match std::env::var("VERIF_REPLAY_DIR") {
        Ok(d) => PathBuf::from(d),
        Err(_) => root_dir().join("replays"),
    };
    std::fs::create_dir_all(&dir)?;
    let path = dir.join(format!("{}-{:016x}.json", h.property(), out.digest));
    let mut f = std::fs::File::create(&path)?;
    f.write_all(serde_json::to_string_pretty(&rf).unwrap().as_bytes())?;
    f.write_all(b"\n")?;
    Ok((path, rf))
}

struct Args {
    map: BTreeMap<String, String>,
}

impl Args {
    fn parse(args: &[String]) -> Args {
        let mut map = BTreeMap::new();
        let mut i = 0;
        while i < args.len() {
            if let Some(k) = args[i].strip_prefix("--") {
                if i + 1 < args.len() && !args[i + 1].starts_with("--") {
                    map.insert(k.to_string(), args[i + 1].clone());
                    i += 2;
                } else {
                    map.insert(k.to_string(), "1".to_string());
                    i += 1;
                }
            } else {
                i += 1;
            }
        }
        Args { map }
    }
    fn get(&self, k: &str) -> Option<&str> {
        self.map.get(k).map(|s| s.as_str())
    }
    fn num(&self, k: &str) -> Option<u64> {
        self.get(k).and_then(|s| s.parse().ok())
    }
}

fn tier_of(args: &Args) -> Tier {
    let t = args
        .get("tier")
        .map(|s| s.to_string())
        .or_else(|| std::env::var("VERIF_TIER").ok())
        .unwrap_or_else(|| "quick".to_string());
    if t == "thorough" {
        Tier::Thorough
    } else {
        Tier::Quick
    }
}

fn seed_of(args: &Args) -> u64 {
    args.num("seed")
        .or_else(|| std::env::var("VERIF_SEED").ok().and_then(|s| s.parse().ok()))
        .unwrap_or(DEFAULT_SEED)
}

/// Entry point of a harness binary. `cmd` is one of master | worker | replay |
/// digests | one.
pub fn main_for<H: Harness>(h: &H, cmd: &str, rest: &[String]) -> i32 {
    let args = Args::parse(rest);
    match cmd {
        "master" => master(h, &args),
        "worker" => worker(h, &args),
        "replay" => replay(h, &args),
        "digests" => digests(h, &args),
        "one" => one(h, &args),
        _ => {
            eprintln!("unknown command {}", cmd);
            2
        }
    }
}

fn worker<H: Harness>(h: &H, args: &Args) -> i32 {
    let tier = tier_of(args);
    let seed = seed_of(args);
    let from = args.num("from").unwrap_or(0);
    let stride = args.num("stride").unwrap_or(1).max(1);
    let total = args.num("runs").unwrap_or(1);
    let soft_s = args.num("soft").unwrap_or(60);
    let out_path = PathBuf::from(args.get("out").expect("--out"));
    let stop_path = out_path.parent().unwrap().join("STOP");
    let known = load_known();
    let start = Instant::now();
    let mut sum = WorkerSummary {
        worker: from,
        ..Default::default()
    };
    let mut digests: BTreeSet<u64> = BTreeSet::new();
    let mut all: BTreeSet<u64> = BTreeSet::new();
    let mut index = from;
    let mut since_check = 0u32;
    let mut recent: std::collections::VecDeque<H::Scenario> = std::collections::VecDeque::new();
    while index < total {
        since_check += 1;
        if since_check >= 16 || start.elapsed().as_secs() >= soft_s {
            since_check = 0;
            if start.elapsed().as_secs() >= soft_s {
                sum.truncated = true;
                break;
            }
            if stop_path.exists() {
                sum.truncated = true;
                break;
            }
        }
        let res = std::panic::catch_unwind(std::panic::AssertUnwindSafe(|| {
            generated_run(h, seed, tier, index)
        }));
        let (sc, out) = match res {
            Ok(x) => x,
            Err(p) => {
                let msg = if let Some(s) = p.downcast_ref::<String>() {
                    s.clone()
                } else if let Some(s) = p.downcast_ref::<&'static str>() {
                    s.to_string()
                } else {
                    "<panic>".to_string()
                };
                sum.error = Some(format!("harness panic in run index {}: {}", index, msg));
                break;
            }
        };
        sum.runs += 1;
        sum.sim_ns += out.sim_ns as u128;
        for (k, v) in &out.stats {
            *sum.stats.entry(k.clone()).or_insert(0) += *v;
        }
        *sum.labels.entry(h.label(&sc)).or_insert(0) += 1;
        all.insert(out.digest);
        if out.nontrivial {
            digests.insert(out.digest);
        }
        if sum.samples.len() < 2 || (out.nontrivial && sum.samples.len() < 4) {
            sum.samples.push(json!({
                "run_index": index,
                "scenario": serde_json::to_value(&sc).unwrap(),
                "history": out.history,
                "nontrivial": out.nontrivial,
                "choices_len": out.choices.len(),
            }));
        }
        if let Some(v) = &out.violation {
            // A finding that known_findings.txt lists by (clause, key) is reported
            // once as KNOWN-FINDING; it is not minimised every time it recurs.
            if let Some(text) = known.matches(h.property(), &v.clause, &h.key(&sc)) {
                if !sum.known.contains(&text) {
                    sum.known.push(text);
                }
                *sum.stats.entry("known_finding_reproduced".to_string()).or_insert(0) += 1;
                recent.push_back(sc);
                if recent.len() > 64 {
                    recent.pop_front();
                }
                index += stride;
                continue;
            }
            // Minimise, then classify against the known findings.
            let (bx, bt) = h.minimise_budget();
            let (msc, mch, mout, execs) = minimise(h, &sc, &out.choices, &v.clause, bx, bt);
            let mut reproducible = mout
                .violation
                .as_ref()
                .map(|x| x.clause == v.clause)
                .unwrap_or(false);
            let (mut msc, mut mch, mut mout, mut execs) = (msc, mch, mout, execs);
            if !reproducible {
                // Escalate: the same scenario preceded by what this worker ran before it.
                let earlier: Vec<H::Scenario> = recent.iter().cloned().collect();
                let mut k = 1usize;
                while k <= earlier.len() {
                    if let Some(comb) = h.combine(&earlier[earlier.len() - k..], &sc) {
                        let o = exec(h, &comb, Chooser::replay(out.choices.clone()), false);
                        execs += 1;
                        if o.violation.as_ref().map(|x| x.clause == v.clause).unwrap_or(false) {
                            let r = minimise(h, &comb, &o.choices, &v.clause, bx, bt);
                            msc = r.0;
                            mch = r.1;
                            mout = r.2;
                            execs += r.3;
                            reproducible = mout
                                .violation
                                .as_ref()
                                .map(|x| x.clause == v.clause)
                                .unwrap_or(false);
                            *sum.stats.entry("violation_needed_earlier_histories".to_string()).or_insert(0) += 1;
                            break;
                        }
                    } else {
                        break;
                    }
                    if k == earlier.len() {
                        break;
                    }
                    k = (k * 2).min(earlier.len());
                }
            }
            if !reproducible {
                sum.error = Some(format!(
                    "run index {} violated clause {} but does not replay from its own record (nondeterminism in the harness): {}",
                    index, v.clause, v.detail
                ));
                break;
            }
            let key = h.key(&msc);
            if let Some(text) = known.matches(h.property(), &v.clause, &key) {
                if !sum.known.contains(&text) {
                    sum.known.push(text);
                }
            } else {
                match write_replay(h, seed, index, &msc, &mch, &mout, true, out.choices.len(), execs)
                {
                    Ok((path, rf)) => {
                        sum.violations.push(ReplayRef {
                            path: path.to_string_lossy().to_string(),
                            clause: rf.clause,
                            key: rf.key,
                            detail: rf.detail,
                        });
                    }
                    Err(e) => {
                        sum.error = Some(format!("cannot write replay file: {}", e));
                    }
                }
                let _ = std::fs::write(&stop_path, b"stop");
                break;
            }
        }
        recent.push_back(sc);
        if recent.len() > 64 {
            recent.pop_front();
        }
        index += stride;
    }
    sum.nontrivial_digests = digests.into_iter().collect();
    sum.all_digest_count = all.len() as u64;
    sum.busy_s = start.elapsed().as_secs_f64();
    let tmp = out_path.with_extension("tmp");
    if std::fs::write(&tmp, serde_json::to_vec(&sum).unwrap()).is_err()
        || std::fs::rename(&tmp, &out_path).is_err()
    {
        return 2;
    }
    0
}

fn master<H: Harness>(h: &H, args: &Args) -> i32 {
    let tier = tier_of(args);
    let seed = seed_of(args);
    let budget = h.budget(tier);
    let runs = args.num("runs").unwrap_or(budget.runs);
    let soft = args.num("soft").unwrap_or(budget.soft_s);
    let workers = args
        .num("workers")
        .unwrap_or_else(|| {
            std::thread::available_parallelism()
                .map(|n| n.get() as u64)
                .unwrap_or(4)
                .min(16)
        })
        .max(1);
    let start = Instant::now();
    let root = root_dir();
    let outdir = root
        .join("target")
        .join("runs")
        .join(format!("{}-{}-{}", h.property(), tier.name(), std::process::id()));
    let _ = std::fs::remove_dir_all(&outdir);
    if let Err(e) = std::fs::create_dir_all(&outdir) {
        eprintln!("HARNESS-ERROR cannot create {}: {}", outdir.display(), e);
        return 2;
    }
    println!(
        "SEED {} property={} tier={} runs<={} soft={}s workers={}",
        seed,
        h.property(),
        tier.name(),
        runs,
        soft,
        workers
    );
    let exe = std::env::current_exe().unwrap();
    let mut children = Vec::new();
    for w in 0..workers {
        let out = outdir.join(format!("w{}.json", w));
        let log2 = std::fs::File::create(outdir.join(format!("w{}.log", w))).unwrap();
        let child = std::process::Command::new(&exe)
            .arg(h.property())
            .arg("worker")
            .args(["--tier", tier.name()])
            .args(["--seed", &seed.to_string()])
            .args(["--from", &w.to_string()])
            .args(["--stride", &workers.to_string()])
            .args(["--runs", &runs.to_string()])
            .args(["--soft", &soft.to_string()])
            .arg("--out")
            .arg(&out)
            .env("RUST_BACKTRACE", "0")
            .env("TZ", "UTC")
            .env("VERIF_ROOT", &root)
            .stdin(std::process::Stdio::null())
            // The code under test prints to stdout (println! in config.rs); only
            // stderr is kept.
            .stdout(std::process::Stdio::null())
            .stderr(log2)
            .spawn();
        match child {
            Ok(c) => children.push((w, c, out)),
            Err(e) => {
                eprintln!("HARNESS-ERROR cannot start worker: {}", e);
                return 2;
            }
        }
    }
    // Wall-clock watchdog: only ever a harness error.
    let hard = Duration::from_secs(soft * 3 + 180);
    let mut summaries: Vec<WorkerSummary> = Vec::new();
    let mut harness_errors: Vec<String> = Vec::new();
    for (w, mut c, out) in children {
        loop {
            match c.try_wait() {
                Ok(Some(status)) => {
                    match std::fs::read(&out)
                        .ok()
                        .and_then(|b| serde_json::from_slice::<WorkerSummary>(&b).ok())
                    {
                        Some(s) => summaries.push(s),
                        None => harness_errors.push(format!(
                            "worker {} ended with {} and wrote no summary (see {})",
                            w,
                            status,
                            outdir.join(format!("w{}.log", w)).display()
                        )),
                    }
                    break;
                }
                Ok(None) => {
                    if start.elapsed() > hard {
                        let _ = c.kill();
                        let _ = c.wait();
                        harness_errors.push(format!("worker {} exceeded the wall-clock watchdog", w));
                        break;
                    }
                    std::thread::sleep(Duration::from_millis(50));
                }
                Err(e) => {
                    harness_errors.push(format!("worker {}: {}", w, e));
                    break;
                }
            }
        }
    }
    for s in &summaries {
        if let Some(e) = &s.error {
            harness_errors.push(e.clone());
        }
    }

    // Aggregate.
    let mut total_runs = 0u64;
    let mut sim_ns = 0u128;
    let mut stats: BTreeMap<String, u64> = BTreeMap::new();
    let mut labels: BTreeMap<String, u64> = BTreeMap::new();
    let mut digests: BTreeSet<u64> = BTreeSet::new();
    let mut samples: Vec<Value> = Vec::new();
    let mut violations: Vec<ReplayRef> = Vec::new();
    let mut known: BTreeSet<String> = BTreeSet::new();
    let mut truncated = false;
    let mut all_count = 0u64;
    for s in &summaries {
        total_runs += s.runs;
        sim_ns += s.sim_ns;
        truncated |= s.truncated;
        all_count += s.all_digest_count;
        for (k, v) in &s.stats {
            *stats.entry(k.clone()).or_insert(0) += *v;
        }
        for (k, v) in &s.labels {
            *labels.entry(k.clone()).or_insert(0) += *v;
        }
        digests.extend(s.nontrivial_digests.iter().copied());
        for x in &s.samples {
            if samples.len() < 6 {
                samples.push(x.clone());
            }
        }
        violations.extend(s.violations.iter().cloned());
        known.extend(s.known.iter().cloned());
    }
    let wall = start.elapsed().as_secs_f64();
    let mut zero_probes = Vec::new();
    for p in h.expected_probes() {
        if stats.get(p).copied().unwrap_or(0) == 0 {
            zero_probes.push(p.to_string());
        }
    }
    for v in &violations {
        // Sample of a minimised failing case.
        if let Ok(b) = std::fs::read(&v.path) {
            if let Ok(val) = serde_json::from_slice::<Value>(&b) {
                samples.push(json!({"violation_replay": val}));
            }
        }
    }
    // A minimised replay of each defect that was found and repaired (recorded on
    // the tree before the fix; on the repaired tree it reports "does not reproduce").
    if let Ok(rd) = std::fs::read_dir(root.join("replays").join("fixtures")) {
        let mut names: Vec<_> = rd.flatten().map(|e| e.path()).collect();
        names.sort();
        for pth in names {
            let is_mine = pth
                .file_name()
                .map(|n| n.to_string_lossy().starts_with(h.property()))
                .unwrap_or(false);
            if is_mine {
                if let Some(val) = std::fs::read(&pth)
                    .ok()
                    .and_then(|b| serde_json::from_slice::<Value>(&b).ok())
                {
                    let known = pth
                        .file_name()
                        .map(|n| n.to_string_lossy().contains("known-finding"))
                        .unwrap_or(false);
                    if known {
                        samples.push(json!({"fixture_replay_of_known_finding": val}));
                    } else {
                        samples.push(json!({"fixture_replay_of_repaired_defect": val}));
                    }
                }
            }
        }
    }
    let known_file = load_known();
    let evidence = json!({
        "property_id": h.property(),
        "tier": tier.name(),
        "seed": seed,
        "level": h.level(),
        "coverage": {
            "evaluations": total_runs,
            "distinct_nontrivial": digests.len(),
            "rule": h.rule(),
            "samples": samples,
            "exhaustive": false,
            "runs_per_hour": if wall > 0.0 { (total_runs as f64 / wall * 3600.0) as u64 } else { 0 },
            "sim_time_s": (sim_ns as f64) / 1e9,
            "faults_and_probes_fired": stats,
            "probes_at_zero": zero_probes,
            "sub_batches": labels,
            "distinct_digests_per_worker_sum": all_count,
            "truncated_by_wall_clock_budget": truncated,
            "workers": workers,
            "real_vs_stub": h.real_vs_stub(),
            "known_findings_printed": known.iter().cloned().collect::<Vec<_>>(),
            "fixed_findings_on_file": known_file.fixed,
        },
        "assumptions": h.assumptions(),
        "wall_s": wall,
        "violations": violations.len(),
    });
    if harness_errors.is_empty() || !violations.is_empty() {
        // VERIF_EVIDENCE_DIR: used by the sensitivity runs against patched
        // scratch trees, so that they never overwrite the evidence of /repo.
        let evdir = match std::env::var("VERIF_EVIDENCE_DIR") {
            Ok(d) => PathBuf::from(d),
            Err(_) => root.join("evidence"),
        };
        let _ = std::fs::create_dir_all(&evdir);
        let path = evdir.join(format!("{}.json", h.property()));
        if let Err(e) = std::fs::write(
            &path,
            serde_json::to_string_pretty(&evidence).unwrap() + "\n",
        ) {
            eprintln!("HARNESS-ERROR cannot write evidence: {}", e);
            return 2;
        }
    }
    println!(
        "RUNS {} distinct_nontrivial={} sim_time_s={:.3} wall_s={:.1} truncated={}",
        total_runs,
        digests.len(),
        (sim_ns as f64) / 1e9,
        wall,
        truncated
    );
    for k in &known {
        println!("KNOWN-FINDING: {}", k);
    }
    let _ = std::fs::remove_dir_all(&outdir);
    if !violations.is_empty() {
        let mut seen = BTreeSet::new();
        for v in &violations {
            if seen.insert((v.clause.clone(), v.key.clone())) {
                println!("VIOLATION property={} replay={}", h.property(), v.path);
                println!("DETAIL clause={} key={} :: {}", v.clause, v.key, v.detail);
            }
        }
        return 1;
    }
    if !harness_errors.is_empty() {
        for e in harness_errors {
            println!("HARNESS-ERROR {}", e);
        }
        return 2;
    }
    if total_runs == 0 {
        println!("HARNESS-ERROR no runs executed");
        return 2;
    }
    println!("OK property={} held on {} runs", h.property(), total_runs);
    0
}

fn replay<H: Harness>(h: &H, args: &Args) -> i32 {
    let path = match args.get("file") {
        Some(p) => PathBuf::from(p),
        None => {
            eprintln!("--file required");
            return 2;
        }
    };
    let rf: ReplayFile = match std::fs::read(&path)
        .ok()
        .and_then(|b| serde_json::from_slice(&b).ok())
    {
        Some(r) => r,
        None => {
            println!("HARNESS-ERROR cannot read replay file {}", path.display());
            return 2;
        }
    };
    if rf.property != h.property() {
        println!("HARNESS-ERROR replay file is for {}", rf.property);
        return 2;
    }
    let sc: H::Scenario = match serde_json::from_value(rf.scenario.clone()) {
        Ok(s) => s,
        Err(e) => {
            println!("HARNESS-ERROR scenario does not parse: {}", e);
            return 2;
        }
    };
    let out = exec(h, &sc, Chooser::replay(rf.choices.clone()), true);
    if args.get("verbose").is_some() {
        for l in &out.log {
            println!("  {}", l);
        }
    }
    for l in &out.history {
        println!("  history: {}", l);
    }
    let digest = format!("{:016x}", out.digest);
    match &out.violation {
        Some(v) if v.clause == rf.clause => {
            let same = digest == rf.digest;
            println!(
                "REPLAY clause={} digest={} ({})",
                v.clause,
                digest,
                if same {
                    "identical to the recorded run"
                } else {
                    "same clause, different event digest: the tree differs from the one recorded"
                }
            );
            println!("VIOLATION property={} replay={}", h.property(), path.display());
            println!("DETAIL clause={} :: {}", v.clause, v.detail);
            1
        }
        Some(v) => {
            println!(
                "REPLAY different clause {} (recorded {}) :: {}",
                v.clause, rf.clause, v.detail
            );
            println!("VIOLATION property={} replay={}", h.property(), path.display());
            println!("DETAIL clause={} :: {}", v.clause, v.detail);
            1
        }
        None => {
            let (commit, _) = repo_state();
            println!(
                "REPLAY does not reproduce on this tree (recorded on {}{}, now {}); digest {}",
                rf.repo_commit,
                if rf.repo_dirty { "+dirty" } else { "" },
                commit,
                digest
            );
            0
        }
    }
}

/// Print `index digest` for a range of runs: used by the determinism self-test.
fn digests<H: Harness>(h: &H, args: &Args) -> i32 {
    let tier = tier_of(args);
    let seed = seed_of(args);
    let from = args.num("from").unwrap_or(0);
    let stride = args.num("stride").unwrap_or(1).max(1);
    let total = args.num("runs").unwrap_or(100);
    // The stdout lock is not held across runs: code under test may print from
    // another thread (the second process of a C20 pair) and would wait for ever.
    let mut index = from;
    while index < total {
        let (_sc, out) = generated_run(h, seed, tier, index);
        // Also replay the run from its own record: the digest must not change.
        let sc = {
            let s = run_seed(seed, h.property(), index);
            let mut rng = Rng::new(s);
            h.generate(&mut rng, tier, index)
        };
        let again = exec(h, &sc, Chooser::replay(out.choices.clone()), false);
        println!(
            "{} {:016x} {:016x} {}",
            index,
            out.digest,
            again.digest,
            out.violation
                .as_ref()
                .map(|v| v.clause.as_str())
                .unwrap_or("-")
        );
        index += stride;
    }
    0
}

/// Run one generated run verbosely (debugging aid).
fn one<H: Harness>(h: &H, args: &Args) -> i32 {
    let tier = tier_of(args);
    let seed = seed_of(args);
    let index = args.num("index").unwrap_or(0);
    let s = run_seed(seed, h.property(), index);
    let mut rng = Rng::new(s);
    let sc = h.generate(&mut rng, tier, index);
    let chooser = Chooser::generate(rng.next_u64());
    let out = exec(h, &sc, chooser, true);
    println!("scenario: {}", serde_json::to_string(&sc).unwrap());
    if args.get("verbose").is_some() {
        for l in &out.log {
            println!("  {}", l);
        }
    }
    for l in &out.history {
        println!("  history: {}", l);
    }
    println!("stats: {:?}", out.stats);
    println!(
        "digest {:016x} choices {} nontrivial {} sim_ns {}",
        out.digest,
        out.choices.len(),
        out.nontrivial,
        out.sim_ns
    );
    match out.violation {
        Some(v) => {
            println!("violation: {} :: {}", v.clause, v.detail);
            1
        }
        None => 0,
    }
}

pub fn path_display(p: &Path) -> String {
    p.display().to_string()
}
