//! A simulated single-process machine for code that talks to a file system,
//! a wall clock and an HTTP server (C20): in-memory POSIX-like file system,
//! virtual clock, scripted HTTP transfer, fault plan and crash point.
//!
//! Crash model = process kill (what C20 states): every completed operation
//! persists; the process stops between two operations or in the middle of one
//! write (prefix written). After the crash point the file system is frozen,
//! so destructors that run while the stack unwinds cannot tidy up.

use crate::chooser::Chooser;
use crate::rng::Fnv;
use serde::{Deserialize, Serialize};
use std::cell::RefCell;
use std::collections::BTreeMap;
use std::io;
use std::path::{Component, Path, PathBuf};

/// Unwind payload of a simulated process kill.
pub struct SimCrash;

#[derive(Clone, Debug)]
pub struct Inode {
    pub data: Vec<u8>,
    pub mtime_ns: u64,
    pub nlink: u32,
}

#[derive(Clone, Debug, Default)]
pub struct Disk {
    pub inodes: BTreeMap<u64, Inode>,
    pub names: BTreeMap<PathBuf, u64>,
    pub dirs: std::collections::BTreeSet<PathBuf>,
    pub next_inode: u64,
    /// Counter for temp-file names; survives process runs so names never collide.
    pub temp_counter: u64,
    /// Advisory locks (flock): inode -> holders (open file description, exclusive?).
    pub flocks: BTreeMap<u64, Vec<(u64, bool)>>,
    pub next_desc: u64,
}

impl Disk {
    pub fn new() -> Disk {
        let mut d = Disk::default();
        d.dirs.insert(PathBuf::from("/"));
        d.dirs.insert(PathBuf::from("/tmp"));
        d.next_inode = 1;
        d
    }
    pub fn read(&self, path: &Path) -> Option<&[u8]> {
        self.names
            .get(&norm(path))
            .and_then(|i| self.inodes.get(i))
            .map(|n| n.data.as_slice())
    }
    pub fn mtime(&self, path: &Path) -> Option<u64> {
        self.names
            .get(&norm(path))
            .and_then(|i| self.inodes.get(i))
            .map(|n| n.mtime_ns)
    }
    pub fn put(&mut self, path: &Path, data: &[u8], mtime_ns: u64) {
        let p = norm(path);
        let mut cur = PathBuf::new();
        if let Some(parent) = p.parent() {
            for c in parent.components() {
                cur.push(c);
                self.dirs.insert(cur.clone());
            }
        }
        let ino = self.next_inode;
        self.next_inode += 1;
        self.inodes.insert(
            ino,
            Inode {
                data: data.to_vec(),
                mtime_ns,
                nlink: 1,
            },
        );
        if let Some(old) = self.names.insert(p, ino) {
            self.unlink_inode(old);
        }
    }
    fn unlink_inode(&mut self, ino: u64) {
        if let Some(n) = self.inodes.get_mut(&ino) {
            n.nlink = n.nlink.saturating_sub(1);
            // Data of an unlinked inode stays reachable through open handles;
            // the table is small, so it is simply kept until the disk is dropped.
        }
    }
    /// Files directly inside `dir`.
    pub fn list(&self, dir: &Path) -> Vec<PathBuf> {
        let d = norm(dir);
        self.names
            .keys()
            .filter(|p| p.parent() == Some(d.as_path()))
            .cloned()
            .collect()
    }
}

pub fn norm(p: &Path) -> PathBuf {
    let mut out = PathBuf::new();
    let base = if p.is_absolute() {
        PathBuf::new()
    } else {
        PathBuf::from("/work")
    };
    for c in base.components().chain(p.components()) {
        match c {
            Component::RootDir => out.push("/"),
            Component::CurDir => {}
            Component::ParentDir => {
                out.pop();
            }
            Component::Normal(s) => out.push(s),
            Component::Prefix(_) => {}
        }
    }
    if out.as_os_str().is_empty() {
        out.push("/");
    }
    out
}

fn device_of(p: &Path) -> u32 {
    if p.starts_with("/tmp") {
        2
    } else {
        1
    }
}

// ----- faults -------------------------------------------------------------------

#[derive(Clone, Copy, Debug, PartialEq, Eq, Serialize, Deserialize, PartialOrd, Ord)]
pub enum OpKind {
    CreateDirAll,
    Open,
    Create,
    CreateTemp,
    Write,
    Read,
    Seek,
    SyncAll,
    Rename,
    Unlink,
    Metadata,
    TryClone,
    SetLen,
    Copy,
    HttpChunk,
    HttpConnect,
    Flock,
}

#[derive(Clone, Copy, Debug, PartialEq, Eq, Serialize, Deserialize)]
pub enum Errno {
    EACCES,
    ENOSPC,
    EROFS,
    EIO,
    EXDEV,
    EINTR,
    EDQUOT,
    ENOENT,
    EMFILE,
    /// For writes only: accept fewer bytes than offered.
    ShortWrite,
}

impl Errno {
    fn code(self) -> i32 {
        match self {
            Errno::EACCES => 13,
            Errno::ENOSPC => 28,
            Errno::EROFS => 30,
            Errno::EIO => 5,
            Errno::EXDEV => 18,
            Errno::EINTR => 4,
            Errno::EDQUOT => 122,
            Errno::ENOENT => 2,
            Errno::EMFILE => 24,
            Errno::ShortWrite => 0,
        }
    }
}

#[derive(Clone, Debug, PartialEq, Eq, Serialize, Deserialize)]
pub struct FsFault {
    pub op: OpKind,
    /// 0-based occurrence of this op kind within the process run.
    pub nth: u32,
    pub err: Errno,
}

#[derive(Clone, Copy, Debug, PartialEq, Eq, Serialize, Deserialize)]
pub struct CrashPoint {
    /// Index of the step (FS operation or HTTP chunk) at which the process dies.
    pub step: u32,
    /// For a write step: die after this permille of its bytes reached the
    /// file (None: die before the step has any effect).
    pub partial: Option<u32>,
}

// ----- HTTP script ----------------------------------------------------------------

#[derive(Clone, Debug, PartialEq, Eq, Serialize, Deserialize)]
pub enum Server {
    /// A response with a status line and a body.
    Respond {
        status: u32,
        /// Identifier of the body (the harness maps it to bytes).
        body: u32,
        /// Whether a Content-Length header is sent.
        content_length: bool,
        /// The connection ends after this many body bytes.
        cut_after: Option<u32>,
        /// How it ends: reset (56) or orderly close / short body (18).
        reset: bool,
        /// Stall (no more bytes, connection open) after this many body bytes.
        stall_after: Option<u32>,
        /// Simulated latency before the first byte and per chunk, nanoseconds.
        latency_ns: u64,
        /// Upper bound of one delivered chunk.
        max_chunk: u32,
    },
    /// Connection refused.
    Refuse,
    /// Name resolution fails.
    DnsFail,
    /// The server accepts and never answers.
    Stall,
}

#[derive(Clone, Debug, Default)]
pub struct HttpStats {
    pub performed: u32,
    pub completed_200_bodies: Vec<u32>,
    /// Status-200 transfers that libcurl would report as successful although
    /// the body was cut (no Content-Length, orderly close): (body id, bytes delivered).
    pub cut_but_ok_200: Vec<(u32, u32)>,
    /// Bodies the server confirmed with 304 Not Modified: the client had sent
    /// If-None-Match with exactly that document's validator.
    pub revalidated_304: Vec<u32>,
    pub last_error_code: Option<u32>,
}

// ----- the machine -----------------------------------------------------------------

pub struct Machine {
    pub disk: Disk,
    /// Nanoseconds since the Unix epoch.
    pub clock_ns: u64,
    pub chooser: Chooser,
    pub faults: Vec<FsFault>,
    pub crash: Option<CrashPoint>,
    pub crashed: bool,
    /// The process appears hung (a transfer without timeout stalled forever).
    pub hung: bool,
    pub step: u32,
    pub op_counts: BTreeMap<OpKind, u32>,
    pub server: Vec<Server>,
    pub bodies: BTreeMap<u32, Vec<u8>>,
    pub http: HttpStats,
    pub cache_dir: Option<PathBuf>,
    pub config_dir: Option<PathBuf>,
    pub digest: Fnv,
    pub log: Vec<String>,
    pub keep_log: bool,
    pub stats: BTreeMap<&'static str, u64>,
    /// Trace of (step index, op kind, is_write_len) for crash-point enumeration.
    pub trace: Vec<(u32, OpKind, u32)>,
    /// Short I/O probability (percent) for file reads and HTTP chunk sizes.
    pub short_read_pct: u64,
    /// Two processes on the same disk (see `Conc`); None: one process at a time.
    pub conc: Option<Conc>,
    /// A path whose contents are recorded every time they change (the cache
    /// file): what a reader, or a kill, at that instant would find there.
    pub watch_path: Option<PathBuf>,
    pub watch_log: Vec<Option<Vec<u8>>>,
    /// Writes to the processes' stderr fail (stderr is a full device or a pipe
    /// whose reader is gone).
    pub stderr_broken: bool,
}

/// Everything that belongs to one process rather than to the machine.
#[derive(Default)]
pub struct ProcState {
    pub crashed: bool,
    pub hung: bool,
    pub step: u32,
    pub op_counts: BTreeMap<OpKind, u32>,
    pub faults: Vec<FsFault>,
    pub crash: Option<CrashPoint>,
    pub server: Vec<Server>,
    pub http: HttpStats,
    pub trace: Vec<(u32, OpKind, u32)>,
}

/// Two processes (0 and 1) run the real code on two OS threads, one at a time:
/// the machine itself is the baton. Its flat per-process fields always belong
/// to `current`; the other process's are parked here. Before every step of the
/// running process the chooser decides whether the other one runs first, so
/// the interleaving of file-system and transfer steps is a function of the
/// choice record like everything else.
pub struct Conc {
    pub parked: ProcState,
    pub current: u8,
    pub finished: [bool; 2],
    pub switch_pct: u64,
    pub switches: u64,
}

struct Mail {
    machine: Option<Machine>,
    turn: u8,
}

static MAIL: std::sync::Mutex<Mail> = std::sync::Mutex::new(Mail {
    machine: None,
    turn: 0,
});
static MAIL_CV: std::sync::Condvar = std::sync::Condvar::new();

fn post(m: Machine, turn: u8) {
    let mut g = MAIL.lock().unwrap_or_else(|e| e.into_inner());
    g.machine = Some(m);
    g.turn = turn;
    MAIL_CV.notify_all();
}

/// Block until the machine is handed to process `me`; install it on this thread.
pub fn conc_wait_turn(me: u8) {
    let mut g = MAIL.lock().unwrap_or_else(|e| e.into_inner());
    loop {
        if g.turn == me && g.machine.is_some() {
            let m = g.machine.take().unwrap();
            drop(g);
            install(m);
            return;
        }
        g = MAIL_CV.wait(g).unwrap_or_else(|e| e.into_inner());
    }
}

/// Hand the machine to the other process and wait for it to come back.
fn conc_yield(me: u8) {
    let mut m = uninstall().expect("simkit: conc_yield without a machine");
    m.swap_proc();
    post(m, me ^ 1);
    conc_wait_turn(me);
}

/// Process `me` has ended (returned, was killed, hung or panicked). Process 1
/// always hands the machine back; process 0 lets process 1 run to its end
/// first. Afterwards the machine is on process 0's thread, its flat fields
/// are process 0's and `conc.parked` holds process 1's.
pub fn conc_finish(me: u8) {
    let other_done = with(|m| {
        let c = m.conc.as_mut().expect("conc");
        c.finished[me as usize] = true;
        c.finished[(me ^ 1) as usize]
    });
    if me == 1 {
        let mut m = uninstall().expect("machine");
        m.swap_proc();
        post(m, 0);
    } else if !other_done {
        let mut m = uninstall().expect("machine");
        m.swap_proc();
        post(m, 1);
        conc_wait_turn(0);
    }
}

thread_local! {
    static MACHINE: RefCell<Option<Machine>> = const { RefCell::new(None) };
}

/// Install a machine on this thread; returns the previous one.
pub fn install(m: Machine) -> Option<Machine> {
    MACHINE.with(|c| c.borrow_mut().replace(m))
}

pub fn uninstall() -> Option<Machine> {
    MACHINE.with(|c| c.borrow_mut().take())
}

pub fn with<R>(f: impl FnOnce(&mut Machine) -> R) -> R {
    MACHINE.with(|c| {
        let mut g = c.borrow_mut();
        let m = g
            .as_mut()
            .expect("simkit: no simulated machine installed on this thread");
        f(m)
    })
}

pub fn installed() -> bool {
    MACHINE.with(|c| c.borrow().is_some())
}

impl Machine {
    pub fn new(disk: Disk, clock_ns: u64, chooser: Chooser) -> Machine {
        Machine {
            disk,
            clock_ns,
            chooser,
            faults: Vec::new(),
            crash: None,
            crashed: false,
            hung: false,
            step: 0,
            op_counts: BTreeMap::new(),
            server: Vec::new(),
            bodies: BTreeMap::new(),
            http: HttpStats::default(),
            cache_dir: Some(PathBuf::from("/home/u/.cache")),
            config_dir: Some(PathBuf::from("/home/u/.config")),
            digest: Fnv::default(),
            log: Vec::new(),
            keep_log: false,
            stats: BTreeMap::new(),
            trace: Vec::new(),
            short_read_pct: 0,
            conc: None,
            watch_path: None,
            watch_log: Vec::new(),
            stderr_broken: false,
        }
    }

    /// Exchange the flat per-process fields with the parked process.
    pub fn swap_proc(&mut self) {
        use std::mem::swap;
        if let Some(c) = self.conc.as_mut() {
            let p = &mut c.parked;
            swap(&mut self.crashed, &mut p.crashed);
            swap(&mut self.hung, &mut p.hung);
            swap(&mut self.step, &mut p.step);
            swap(&mut self.op_counts, &mut p.op_counts);
            swap(&mut self.faults, &mut p.faults);
            swap(&mut self.crash, &mut p.crash);
            swap(&mut self.server, &mut p.server);
            swap(&mut self.http, &mut p.http);
            swap(&mut self.trace, &mut p.trace);
            c.current ^= 1;
        }
    }

    /// Record the watched path's contents if they differ from the last record.
    pub fn watch_check(&mut self) {
        if let Some(p) = &self.watch_path {
            let cur = self.disk.read(p);
            let same = match (self.watch_log.last(), cur) {
                (Some(None), None) => true,
                (Some(Some(a)), Some(b)) => a.as_slice() == b,
                _ => false,
            };
            if !same && self.watch_log.len() < 256 {
                let v = cur.map(|b| b.to_vec());
                self.watch_log.push(v);
            }
        }
    }

    fn watched_ino(&self) -> Option<u64> {
        self.watch_path.as_ref().and_then(|p| self.disk.names.get(p).copied())
    }

    /// Begin a new process run on the same disk.
    pub fn new_process(&mut self) {
        self.crashed = false;
        self.hung = false;
        self.step = 0;
        self.op_counts.clear();
        self.faults.clear();
        self.crash = None;
        self.server.clear();
        self.http = HttpStats::default();
        self.trace.clear();
        self.conc = None;
        self.disk.flocks.clear();
        self.watch_log.clear();
        self.watch_check();
    }

    pub fn event(&mut self, name: &'static str, a: u64, b: u64) {
        self.digest.str(name);
        self.digest.u64(a);
        self.digest.u64(b);
        if self.keep_log && self.log.len() < 5000 {
            self.log
                .push(format!("t={} step={} {} {} {}", self.clock_ns, self.step, name, a, b));
        }
    }

    pub fn stat(&mut self, name: &'static str) {
        *self.stats.entry(name).or_insert(0) += 1;
    }
}

pub enum StepResult {
    Go,
    Fault(Errno),
    /// Crash inside this write after n bytes.
    CrashAfter(u32),
}

fn frozen() -> io::Error {
    io::Error::new(io::ErrorKind::Other, "simkit: process is dead")
}

/// The process dies here (unless it is already unwinding).
pub fn crash_now() -> io::Error {
    with(|m| {
        if !m.crashed {
            m.crashed = true;
            m.event("CRASH", m.step as u64, 0);
            m.stat("crash_fired");
        }
    });
    if !std::thread::panicking() {
        std::panic::resume_unwind(Box::new(SimCrash));
    }
    frozen()
}

/// Every operation with a simulated effect passes through here first.
/// Returns Err if the process is already dead (the operation must do nothing).
pub fn step(kind: OpKind, len: u32) -> io::Result<StepResult> {
    enum D {
        Dead,
        Crash,
        R(StepResult),
    }
    // Two processes: the other one may run before this operation takes effect.
    let sw = with(|m| {
        if m.crashed {
            return None;
        }
        let (me, pct) = match &m.conc {
            Some(c) if !c.finished[(c.current ^ 1) as usize] => (c.current, c.switch_pct),
            _ => return None,
        };
        if m.chooser.coin(pct, 100) {
            m.event("switch", me as u64, m.step as u64);
            m.stat("process_switch");
            if let Some(c) = m.conc.as_mut() {
                c.switches += 1;
            }
            Some(me)
        } else {
            None
        }
    });
    if let Some(me) = sw {
        conc_yield(me);
    }
    let d = with(|m| {
        if m.crashed {
            return D::Dead;
        }
        let idx = m.step;
        m.step += 1;
        let nth = {
            let c = m.op_counts.entry(kind).or_insert(0);
            let v = *c;
            *c += 1;
            v
        };
        m.trace.push((idx, kind, len));
        m.event("step", kind as u64, len as u64);
        if let Some(cp) = m.crash {
            if cp.step == idx {
                match cp.partial {
                    // permille of the write that reaches the file before the kill
                    Some(pm) if kind == OpKind::Write && len > 1 => {
                        let n = ((len as u64 * pm.min(999) as u64) / 1000) as u32;
                        return D::R(StepResult::CrashAfter(n.clamp(1, len - 1)));
                    }
                    _ => return D::Crash,
                }
            }
        }
        if let Some(f) = m.faults.iter().find(|f| f.op == kind && f.nth == nth) {
            let e = f.err;
            m.event("fault", kind as u64, e as u64);
            m.stat("fs_fault_fired");
            return D::R(StepResult::Fault(e));
        }
        D::R(StepResult::Go)
    });
    match d {
        D::Dead => Err(frozen()),
        D::Crash => Err(crash_now()),
        D::R(r) => Ok(r),
    }
}

pub fn errno(e: Errno) -> io::Error {
    io::Error::from_raw_os_error(e.code())
}

pub fn not_found() -> io::Error {
    io::Error::from_raw_os_error(2)
}

// ----- file-system primitives (used by shim::fs and the tempfile stand-in) -----------

pub fn fs_create_dir_all(path: &Path) -> io::Result<()> {
    match step(OpKind::CreateDirAll, 0)? {
        StepResult::Fault(e) => return Err(errno(e)),
        _ => {}
    }
    with(|m| {
        let p = norm(path);
        let mut cur = PathBuf::new();
        for c in p.components() {
            cur.push(c);
            if m.disk.names.contains_key(&cur) {
                return Err(io::Error::from_raw_os_error(20)); // ENOTDIR
            }
            m.disk.dirs.insert(cur.clone());
        }
        Ok(())
    })
}

#[derive(Clone, Copy, Debug, Default)]
pub struct OpenHow {
    pub read: bool,
    pub write: bool,
    pub append: bool,
    pub truncate: bool,
    pub create: bool,
    pub create_new: bool,
}

/// Returns the inode number.
pub fn fs_open(path: &Path, how: OpenHow, kind: OpKind) -> io::Result<u64> {
    match step(kind, 0)? {
        StepResult::Fault(e) => return Err(errno(e)),
        _ => {}
    }
    let r = fs_open_inner(path, how);
    with(|m| m.watch_check());
    r
}

fn fs_open_inner(path: &Path, how: OpenHow) -> io::Result<u64> {
    with(|m| {
        let p = norm(path);
        if m.disk.dirs.contains(&p) {
            return Err(io::Error::from_raw_os_error(21)); // EISDIR
        }
        match m.disk.names.get(&p).copied() {
            Some(ino) => {
                if how.create_new {
                    return Err(io::Error::from_raw_os_error(17)); // EEXIST
                }
                if how.truncate && how.write {
                    let now = m.clock_ns;
                    let n = m.disk.inodes.get_mut(&ino).unwrap();
                    n.data.clear();
                    n.mtime_ns = now;
                }
                Ok(ino)
            }
            None => {
                if !(how.create || how.create_new) {
                    return Err(not_found());
                }
                let parent_ok = p.parent().map(|d| m.disk.dirs.contains(d)).unwrap_or(false);
                if !parent_ok {
                    return Err(not_found());
                }
                let ino = m.disk.next_inode;
                m.disk.next_inode += 1;
                m.disk.inodes.insert(
                    ino,
                    Inode {
                        data: Vec::new(),
                        mtime_ns: m.clock_ns,
                        nlink: 1,
                    },
                );
                m.disk.names.insert(p, ino);
                Ok(ino)
            }
        }
    })
}

pub fn fs_write(ino: u64, offset: u64, data: &[u8], append: bool) -> io::Result<(usize, u64)> {
    let r = step(OpKind::Write, data.len() as u32)?;
    let (n, crash_after) = match r {
        StepResult::Fault(Errno::ShortWrite) => ((data.len() / 2).max(1).min(data.len()), false),
        StepResult::Fault(e) => return Err(errno(e)),
        StepResult::CrashAfter(n) => (n as usize, true),
        StepResult::Go => (data.len(), false),
    };
    let new_off = with(|m| {
        let now = m.clock_ns;
        let node = m.disk.inodes.get_mut(&ino).expect("inode");
        let off = if append { node.data.len() as u64 } else { offset } as usize;
        if node.data.len() < off + n {
            node.data.resize(off + n, 0);
        }
        node.data[off..off + n].copy_from_slice(&data[..n]);
        node.mtime_ns = now;
        if m.watched_ino() == Some(ino) {
            m.watch_check();
        }
        (off + n) as u64
    });
    if crash_after {
        with(|m| m.stat("crash_inside_write"));
        return Err(crash_now());
    }
    Ok((n, new_off))
}

pub fn fs_read(ino: u64, offset: u64, buf: &mut [u8]) -> io::Result<usize> {
    match step(OpKind::Read, buf.len() as u32)? {
        StepResult::Fault(e) => return Err(errno(e)),
        _ => {}
    }
    with(|m| {
        let pct = m.short_read_pct;
        let node = m.disk.inodes.get(&ino).expect("inode");
        let off = (offset as usize).min(node.data.len());
        let mut n = (node.data.len() - off).min(buf.len());
        if n > 1 && pct > 0 && m.chooser.coin(pct, 100) {
            n = 1 + (m.chooser.pick(n as u32 - 1) as usize);
            *m.stats.entry("short_file_read").or_insert(0) += 1;
        }
        let node = m.disk.inodes.get(&ino).expect("inode");
        buf[..n].copy_from_slice(&node.data[off..off + n]);
        Ok(n)
    })
}

pub fn fs_len_mtime(ino: u64) -> io::Result<(u64, u64)> {
    match step(OpKind::Metadata, 0)? {
        StepResult::Fault(e) => return Err(errno(e)),
        _ => {}
    }
    with(|m| {
        let node = m.disk.inodes.get(&ino).expect("inode");
        Ok((node.data.len() as u64, node.mtime_ns))
    })
}

pub fn fs_path_meta(path: &Path) -> io::Result<(bool, u64, u64)> {
    match step(OpKind::Metadata, 0)? {
        StepResult::Fault(e) => return Err(errno(e)),
        _ => {}
    }
    with(|m| {
        let p = norm(path);
        if m.disk.dirs.contains(&p) {
            return Ok((true, 0, 0));
        }
        match m.disk.names.get(&p).and_then(|i| m.disk.inodes.get(i)) {
            Some(n) => Ok((false, n.data.len() as u64, n.mtime_ns)),
            None => Err(not_found()),
        }
    })
}

pub fn fs_sync(_ino: u64) -> io::Result<()> {
    match step(OpKind::SyncAll, 0)? {
        StepResult::Fault(e) => Err(errno(e)),
        _ => Ok(()),
    }
}

/// futimens: the modification time only.
pub fn fs_set_mtime(ino: u64, mtime_ns: u64) -> io::Result<()> {
    match step(OpKind::Metadata, 0)? {
        StepResult::Fault(e) => return Err(errno(e)),
        _ => {}
    }
    with(|m| {
        let node = m.disk.inodes.get_mut(&ino).expect("inode");
        node.mtime_ns = mtime_ns;
        Ok(())
    })
}

pub fn fs_set_len(ino: u64, len: u64) -> io::Result<()> {
    match step(OpKind::SetLen, 0)? {
        StepResult::Fault(e) => return Err(errno(e)),
        _ => {}
    }
    with(|m| {
        let now = m.clock_ns;
        let node = m.disk.inodes.get_mut(&ino).expect("inode");
        node.data.resize(len as usize, 0);
        node.mtime_ns = now;
        m.watch_check();
        Ok(())
    })
}

pub fn fs_rename(from: &Path, to: &Path, noclobber: bool) -> io::Result<()> {
    match step(OpKind::Rename, 0)? {
        StepResult::Fault(e) => return Err(errno(e)),
        _ => {}
    }
    with(|m| {
        let (f, t) = (norm(from), norm(to));
        if device_of(&f) != device_of(&t) {
            *m.stats.entry("rename_exdev").or_insert(0) += 1;
            return Err(errno(Errno::EXDEV));
        }
        let ino = match m.disk.names.get(&f).copied() {
            Some(i) => i,
            None => return Err(not_found()),
        };
        if m.disk.dirs.contains(&t) {
            return Err(io::Error::from_raw_os_error(21));
        }
        let parent_ok = t.parent().map(|d| m.disk.dirs.contains(d)).unwrap_or(false);
        if !parent_ok {
            return Err(not_found());
        }
        if noclobber && m.disk.names.contains_key(&t) {
            return Err(io::Error::from_raw_os_error(17));
        }
        m.disk.names.remove(&f);
        if let Some(old) = m.disk.names.insert(t, ino) {
            if let Some(n) = m.disk.inodes.get_mut(&old) {
                n.nlink = n.nlink.saturating_sub(1);
            }
        }
        m.event("renamed", ino, 0);
        m.watch_check();
        Ok(())
    })
}

pub fn fs_unlink(path: &Path) -> io::Result<()> {
    match step(OpKind::Unlink, 0)? {
        StepResult::Fault(e) => return Err(errno(e)),
        _ => {}
    }
    with(|m| {
        let p = norm(path);
        match m.disk.names.remove(&p) {
            Some(ino) => {
                if let Some(n) = m.disk.inodes.get_mut(&ino) {
                    n.nlink = n.nlink.saturating_sub(1);
                }
                m.watch_check();
                Ok(())
            }
            None => Err(not_found()),
        }
    })
}

pub fn fs_copy(from: &Path, to: &Path) -> io::Result<u64> {
    // std::fs::copy: open source, create/truncate destination, stream. Modelled
    // as open + create + chunked writes so that a crash can land in the middle.
    let src = fs_open(
        from,
        OpenHow {
            read: true,
            ..Default::default()
        },
        OpKind::Open,
    )?;
    let dst = fs_open(
        to,
        OpenHow {
            write: true,
            create: true,
            truncate: true,
            ..Default::default()
        },
        OpKind::Create,
    )?;
    let data = with(|m| m.disk.inodes.get(&src).unwrap().data.clone());
    let mut off = 0u64;
    for chunk in data.chunks(8192) {
        let mut done = 0;
        while done < chunk.len() {
            let (n, no) = fs_write(dst, off, &chunk[done..], false)?;
            done += n;
            off = no;
        }
    }
    Ok(data.len() as u64)
}

// ----- advisory locks (flock) -------------------------------------------------------

/// A fresh open-file-description id (what a flock belongs to).
pub fn new_desc_id() -> u64 {
    with(|m| {
        m.disk.next_desc += 1;
        m.disk.next_desc
    })
}

fn flock_try(m: &mut Machine, ino: u64, desc: u64, exclusive: bool) -> bool {
    let holders = m.disk.flocks.entry(ino).or_default();
    let others_excl = holders.iter().any(|(d, e)| *d != desc && *e);
    let others_any = holders.iter().any(|(d, _)| *d != desc);
    let ok = if exclusive { !others_any } else { !others_excl };
    if ok {
        holders.retain(|(d, _)| *d != desc);
        holders.push((desc, exclusive));
    }
    ok
}

/// flock(2) on an open file description. Blocking: while another description
/// holds a conflicting lock the other process runs; if nobody is left who could
/// release it, the process hangs (reported like a transfer that never ends).
/// Non-blocking: Ok(false) when the lock is held elsewhere.
pub fn fs_flock(ino: u64, desc: u64, exclusive: bool, blocking: bool) -> io::Result<bool> {
    match step(OpKind::Flock, 0)? {
        StepResult::Fault(e) => return Err(errno(e)),
        _ => {}
    }
    let mut waits = 0u32;
    loop {
        if with(|m| flock_try(m, ino, desc, exclusive)) {
            with(|m| m.event("flock", ino, desc));
            return Ok(true);
        }
        if !blocking {
            return Ok(false);
        }
        with(|m| m.stat("flock_waited"));
        let other_alive = with(|m| match &m.conc {
            Some(c) if !c.finished[(c.current ^ 1) as usize] => Some(c.current),
            _ => None,
        });
        waits += 1;
        match other_alive {
            Some(me) if waits < 100_000 => conc_yield(me),
            _ => {
                // Nobody can release it any more.
                with(|m| {
                    m.hung = true;
                    m.stat("flock_wait_forever");
                    m.event("flock_hang", ino, desc);
                });
                return Err(crash_now());
            }
        }
    }
}

/// Release what `desc` holds: explicit unlock, last close, or process death.
/// Works in a dead process too (the kernel releases the locks of a killed process).
pub fn flock_release(desc: u64) {
    if !installed() {
        return;
    }
    with(|m| {
        for holders in m.disk.flocks.values_mut() {
            holders.retain(|(d, _)| *d != desc);
        }
        m.disk.flocks.retain(|_, h| !h.is_empty());
    });
}

pub fn temp_name(prefix: &str, suffix: &str, rand_len: usize) -> String {
    with(|m| {
        m.disk.temp_counter += 1;
        let mut x = m.disk.temp_counter.wrapping_mul(0x9E37_79B9_7F4A_7C15);
        let mut s = String::new();
        const ALPHA: &[u8] = b"abcdefghijklmnopqrstuvwxyzABCDEFGHIJKLMNOPQRSTUVWXYZ0123456789";
        for _ in 0..rand_len {
            s.push(ALPHA[(x % ALPHA.len() as u64) as usize] as char);
            x /= ALPHA.len() as u64;
            x = x.wrapping_add(0x1234_5678_9ABC);
        }
        format!("{}{}{}", prefix, s, suffix)
    })
}

pub fn now_ns() -> u64 {
    with(|m| m.clock_ns)
}
