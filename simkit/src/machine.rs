//! A simulated single-process machine for code that talks to a file system,
//! a wall clock and an HTTP server (C20): in-memory POSIX-like file system,
//! virtual clock, scripted HTTP transfer, fault plan and crash point.
//!
//! Crash model = process kill (what C20 states): every completed operation
//! persists; the process stops between two operations or in the middle of one
//! write (prefix written). After the crash point the file system is frozen,
//! so destructors that run while the stack unwinds cannot tidy up.

use crate::chooser::Chooser;
use crate::rng::Fnv;
use serde::{Deserialize, Serialize};
use std::cell::RefCell;
use std::collections::BTreeMap;
use std::io;
use std::path::{Component, Path, PathBuf};

/// Unwind payload of a simulated process kill.
pub struct SimCrash;

#[derive(Clone, Debug)]
pub struct Inode {
    pub data: Vec<u8>,
    pub mtime_ns: u64,
    pub nlink: u32,
}

#[derive(Clone, Debug, Default)]
pub struct Disk {
    pub inodes: BTreeMap<u64, Inode>,
    pub names: BTreeMap<PathBuf, u64>,
    pub dirs: std::collections::BTreeSet<PathBuf>,
    pub next_inode: u64,
    /// Counter for temp-file names; survives process runs so names never collide.
    pub temp_counter: u64,
}

impl Disk {
    pub fn new() -> Disk {
        let mut d = Disk::default();
        d.dirs.insert(PathBuf::from("/"));
        d.dirs.insert(PathBuf::from("/tmp"));
        d.next_inode = 1;
        d
    }
    pub fn read(&self, path: &Path) -> Option<&[u8]> {
        self.names
            .get(&norm(path))
            .and_then(|i| self.inodes.get(i))
            .map(|n| n.data.as_slice())
    }
    pub fn mtime(&self, path: &Path) -> Option<u64> {
        self.names
            .get(&norm(path))
            .and_then(|i| self.inodes.get(i))
            .map(|n| n.mtime_ns)
    }
    pub fn put(&mut self, path: &Path, data: &[u8], mtime_ns: u64) {
        let p = norm(path);
        let mut cur = PathBuf::new();
        if let Some(parent) = p.parent() {
            for c in parent.components() {
                cur.push(c);
                self.dirs.insert(cur.clone());
            }
        }
        let ino = self.next_inode;
        self.next_inode += 1;
        self.inodes.insert(
            ino,
            Inode {
                data: data.to_vec(),
                mtime_ns,
                nlink: 1,
            },
        );
        if let Some(old) = self.names.insert(p, ino) {
            self.unlink_inode(old);
        }
    }
    fn unlink_inode(&mut self, ino: u64) {
        if let Some(n) = self.inodes.get_mut(&ino) {
            n.nlink = n.nlink.saturating_sub(1);
            // Data of an unlinked inode stays reachable through open handles;
            // the table is small, so it is simply kept until the disk is dropped.
        }
    }
    /// Files directly inside `dir`.
    pub fn list(&self, dir: &Path) -> Vec<PathBuf> {
        let d = norm(dir);
        self.names
            .keys()
            .filter(|p| p.parent() == Some(d.as_path()))
            .cloned()
            .collect()
    }
}

pub fn norm(p: &Path) -> PathBuf {
    let mut out = PathBuf::new();
    let base = if p.is_absolute() {
        PathBuf::new()
    } else {
        PathBuf::from("/work")
    };
    for c in base.components().chain(p.components()) {
        match c {
            Component::RootDir => out.push("/"),
            Component::CurDir => {}
            Component::ParentDir => {
                out.pop();
            }
            Component::Normal(s) => out.push(s),
            Component::Prefix(_) => {}
        }
    }
    if out.as_os_str().is_empty() {
        out.push("/");
    }
    out
}

fn device_of(p: &Path) -> u32 {
    if p.starts_with("/tmp") {
        2
    } else {
        1
    }
}

// ----- faults -------------------------------------------------------------------

#[derive(Clone, Copy, Debug, PartialEq, Eq, Serialize, Deserialize, PartialOrd, Ord)]
pub enum OpKind {
    CreateDirAll,
    Open,
    Create,
    CreateTemp,
    Write,
    Read,
    Seek,
    SyncAll,
    Rename,
    Unlink,
    Metadata,
    TryClone,
    SetLen,
    Copy,
    HttpChunk,
    HttpConnect,
}

#[derive(Clone, Copy, Debug, PartialEq, Eq, Serialize, Deserialize)]
pub enum Errno {
    EACCES,
    ENOSPC,
    EROFS,
    EIO,
    EXDEV,
    EINTR,
    EDQUOT,
    ENOENT,
    EMFILE,
    /// For writes only: accept fewer bytes than offered.
    ShortWrite,
}

impl Errno {
    fn code(self) -> i32 {
        match self {
            Errno::EACCES => 13,
            Errno::ENOSPC => 28,
            Errno::EROFS => 30,
            Errno::EIO => 5,
            Errno::EXDEV => 18,
            Errno::EINTR => 4,
            Errno::EDQUOT => 122,
            Errno::ENOENT => 2,
            Errno::EMFILE => 24,
            Errno::ShortWrite => 0,
        }
    }
}

#[derive(Clone, Debug, PartialEq, Eq, Serialize, Deserialize)]
pub struct FsFault {
    pub op: OpKind,
    /// 0-based occurrence of this op kind within the process run.
    pub nth: u32,
    pub err: Errno,
}

#[derive(Clone, Copy, Debug, PartialEq, Eq, Serialize, Deserialize)]
pub struct CrashPoint {
    /// Index of the step (FS operation or HTTP chunk) at which the process dies.
    pub step: u32,
    /// For a write step: die after this permille of its bytes reached the
    /// file (None: die before the step has any effect).
    pub partial: Option<u32>,
}

// ----- HTTP script ----------------------------------------------------------------

#[derive(Clone, Debug, PartialEq, Eq, Serialize, Deserialize)]
pub enum Server {
    /// A response with a status line and a body.
    Respond {
        status: u32,
        /// Identifier of the body (the harness maps it to bytes).
        body: u32,
        /// Whether a Content-Length header is sent.
        content_length: bool,
        /// The connection ends after this many body bytes.
        cut_after: Option<u32>,
        /// How it ends: reset (56) or orderly close / short body (18).
        reset: bool,
        /// Stall (no more bytes, connection open) after this many body bytes.
        stall_after: Option<u32>,
        /// Simulated latency before the first byte and per chunk, nanoseconds.
        latency_ns: u64,
        /// Upper bound of one delivered chunk.
        max_chunk: u32,
    },
    /// Connection refused.
    Refuse,
    /// Name resolution fails.
    DnsFail,
    /// The server accepts and never answers.
    Stall,
}

#[derive(Clone, Debug, Default)]
pub struct HttpStats {
    pub performed: u32,
    pub completed_200_bodies: Vec<u32>,
    /// Status-200 transfers that libcurl would report as successful although
    /// the body was cut (no Content-Length, orderly close): (body id, bytes delivered).
    pub cut_but_ok_200: Vec<(u32, u32)>,
    pub last_error_code: Option<u32>,
}

// ----- the machine -----------------------------------------------------------------

pub struct Machine {
    pub disk: Disk,
    /// Nanoseconds since the Unix epoch.
    pub clock_ns: u64,
    pub chooser: Chooser,
    pub faults: Vec<FsFault>,
    pub crash: Option<CrashPoint>,
    pub crashed: bool,
    /// The process appears hung (a transfer without timeout stalled forever).
    pub hung: bool,
    pub step: u32,
    pub op_counts: BTreeMap<OpKind, u32>,
    pub server: Vec<Server>,
    pub bodies: BTreeMap<u32, Vec<u8>>,
    pub http: HttpStats,
    pub cache_dir: Option<PathBuf>,
    pub config_dir: Option<PathBuf>,
    pub digest: Fnv,
    pub log: Vec<String>,
    pub keep_log: bool,
    pub stats: BTreeMap<&'static str, u64>,
    /// Trace of (step index, op kind, is_write_len) for crash-point enumeration.
    pub trace: Vec<(u32, OpKind, u32)>,
    /// Short I/O probability (percent) for file reads and HTTP chunk sizes.
    pub short_read_pct: u64,
}

thread_local! {
    static MACHINE: RefCell<Option<Machine>> = const { RefCell::new(None) };
}

/// Install a machine on this thread; returns the previous one.
pub fn install(m: Machine) -> Option<Machine> {
    MACHINE.with(|c| c.borrow_mut().replace(m))
}

pub fn uninstall() -> Option<Machine> {
    MACHINE.with(|c| c.borrow_mut().take())
}

pub fn with<R>(f: impl FnOnce(&mut Machine) -> R) -> R {
    MACHINE.with(|c| {
        let mut g = c.borrow_mut();
        let m = g
            .as_mut()
            .expect("simkit: no simulated machine installed on this thread");
        f(m)
    })
}

pub fn installed() -> bool {
    MACHINE.with(|c| c.borrow().is_some())
}

impl Machine {
    pub fn new(disk: Disk, clock_ns: u64, chooser: Chooser) -> Machine {
        Machine {
            disk,
            clock_ns,
            chooser,
            faults: Vec::new(),
            crash: None,
            crashed: false,
            hung: false,
            step: 0,
            op_counts: BTreeMap::new(),
            server: Vec::new(),
            bodies: BTreeMap::new(),
            http: HttpStats::default(),
            cache_dir: Some(PathBuf::from("/home/u/.cache")),
            config_dir: Some(PathBuf::from("/home/u/.config")),
            digest: Fnv::default(),
            log: Vec::new(),
            keep_log: false,
            stats: BTreeMap::new(),
            trace: Vec::new(),
            short_read_pct: 0,
        }
    }

    /// Begin a new process run on the same disk.
    pub fn new_process(&mut self) {
        self.crashed = false;
        self.hung = false;
        self.step = 0;
        self.op_counts.clear();
        self.faults.clear();
        self.crash = None;
        self.server.clear();
        self.http = HttpStats::default();
        self.trace.clear();
    }

    pub fn event(&mut self, name: &'static str, a: u64, b: u64) {
        self.digest.str(name);
        self.digest.u64(a);
        self.digest.u64(b);
        if self.keep_log && self.log.len() < 5000 {
            self.log
                .push(format!("t={} step={} {} {} {}", self.clock_ns, self.step, name, a, b));
        }
    }

    pub fn stat(&mut self, name: &'static str) {
        *self.stats.entry(name).or_insert(0) += 1;
    }
}

pub enum StepResult {
    Go,
    Fault(Errno),
    /// Crash inside this write after n bytes.
    CrashAfter(u32),
}

fn frozen() -> io::Error {
    io::Error::new(io::ErrorKind::Other, "simkit: process is dead")
}

/// The process dies here (unless it is already unwinding).
pub fn crash_now() -> io::Error {
    with(|m| {
        if !m.crashed {
            m.crashed = true;
            m.event("CRASH", m.step as u64, 0);
            m.stat("crash_fired");
        }
    });
    if !std::thread::panicking() {
        std::panic::resume_unwind(Box::new(SimCrash));
    }
    frozen()
}

/// Every operation with a simulated effect passes through here first.
/// Returns Err if the process is already dead (the operation must do nothing).
pub fn step(kind: OpKind, len: u32) -> io::Result<StepResult> {
    enum D {
        Dead,
        Crash,
        R(StepResult),
    }
    let d = with(|m| {
        if m.crashed {
            return D::Dead;
        }
        let idx = m.step;
        m.step += 1;
        let nth = {
            let c = m.op_counts.entry(kind).or_insert(0);
            let v = *c;
            *c += 1;
            v
        };
        m.trace.push((idx, kind, len));
        m.event("step", kind as u64, len as u64);
        if let Some(cp) = m.crash {
            if cp.step == idx {
                match cp.partial {
                    // permille of the write that reaches the file before the kill
                    Some(pm) if kind == OpKind::Write && len > 1 => {
                        let n = ((len as u64 * pm.min(999) as u64) / 1000) as u32;
                        return D::R(StepResult::CrashAfter(n.clamp(1, len - 1)));
                    }
                    _ => return D::Crash,
                }
            }
        }
        if let Some(f) = m.faults.iter().find(|f| f.op == kind && f.nth == nth) {
            let e = f.err;
            m.event("fault", kind as u64, e as u64);
            m.stat("fs_fault_fired");
            return D::R(StepResult::Fault(e));
        }
        D::R(StepResult::Go)
    });
    match d {
        D::Dead => Err(frozen()),
        D::Crash => Err(crash_now()),
        D::R(r) => Ok(r),
    }
}

pub fn errno(e: Errno) -> io::Error {
    io::Error::from_raw_os_error(e.code())
}

pub fn not_found() -> io::Error {
    io::Error::from_raw_os_error(2)
}

// ----- file-system primitives (used by shim::fs and the tempfile stand-in) -----------

pub fn fs_create_dir_all(path: &Path) -> io::Result<()> {
    match step(OpKind::CreateDirAll, 0)? {
        StepResult::Fault(e) => return Err(errno(e)),
        _ => {}
    }
    with(|m| {
        let p = norm(path);
        let mut cur = PathBuf::new();
        for c in p.components() {
            cur.push(c);
            if m.disk.names.contains_key(&cur) {
                return Err(io::Error::from_raw_os_error(20)); // ENOTDIR
            }
            m.disk.dirs.insert(cur.clone());
        }
        Ok(())
    })
}

#[derive(Clone, Copy, Debug, Default)]
pub struct OpenHow {
    pub read: bool,
    pub write: bool,
    pub append: bool,
    pub truncate: bool,
    pub create: bool,
    pub create_new: bool,
}

/// Returns the inode number.
pub fn fs_open(path: &Path, how: OpenHow, kind: OpKind) -> io::Result<u64> {
    match step(kind, 0)? {
        StepResult::Fault(e) => return Err(errno(e)),
        _ => {}
    }
    with(|m| {
        let p = norm(path);
        if m.disk.dirs.contains(&p) {
            return Err(io::Error::from_raw_os_error(21)); // EISDIR
        }
        match m.disk.names.get(&p).copied() {
            Some(ino) => {
                if how.create_new {
                    return Err(io::Error::from_raw_os_error(17)); // EEXIST
                }
                if how.truncate && how.write {
                    let now = m.clock_ns;
                    let n = m.disk.inodes.get_mut(&ino).unwrap();
                    n.data.clear();
                    n.mtime_ns = now;
                }
                Ok(ino)
            }
            None => {
                if !(how.create || how.create_new) {
                    return Err(not_found());
                }
                let parent_ok = p.parent().map(|d| m.disk.dirs.contains(d)).unwrap_or(false);
                if !parent_ok {
                    return Err(not_found());
                }
                let ino = m.disk.next_inode;
                m.disk.next_inode += 1;
                m.disk.inodes.insert(
                    ino,
                    Inode {
                        data: Vec::new(),
                        mtime_ns: m.clock_ns,
                        nlink: 1,
                    },
                );
                m.disk.names.insert(p, ino);
                Ok(ino)
            }
        }
    })
}

pub fn fs_write(ino: u64, offset: u64, data: &[u8], append: bool) -> io::Result<(usize, u64)> {
    let r = step(OpKind::Write, data.len() as u32)?;
    let (n, crash_after) = match r {
        StepResult::Fault(Errno::ShortWrite) => ((data.len() / 2).max(1).min(data.len()), false),
        StepResult::Fault(e) => return Err(errno(e)),
        StepResult::CrashAfter(n) => (n as usize, true),
        StepResult::Go => (data.len(), false),
    };
    let new_off = with(|m| {
        let now = m.clock_ns;
        let node = m.disk.inodes.get_mut(&ino).expect("inode");
        let off = if append { node.data.len() as u64 } else { offset } as usize;
        if node.data.len() < off + n {
            node.data.resize(off + n, 0);
        }
        node.data[off..off + n].copy_from_slice(&data[..n]);
        node.mtime_ns = now;
        (off + n) as u64
    });
    if crash_after {
        with(|m| m.stat("crash_inside_write"));
        return Err(crash_now());
    }
    Ok((n, new_off))
}

pub fn fs_read(ino: u64, offset: u64, buf: &mut [u8]) -> io::Result<usize> {
    match step(OpKind::Read, buf.len() as u32)? {
        StepResult::Fault(e) => return Err(errno(e)),
        _ => {}
    }
    with(|m| {
        let pct = m.short_read_pct;
        let node = m.disk.inodes.get(&ino).expect("inode");
        let off = (offset as usize).min(node.data.len());
        let mut n = (node.data.len() - off).min(buf.len());
        if n > 1 && pct > 0 && m.chooser.coin(pct, 100) {
            n = 1 + (m.chooser.pick(n as u32 - 1) as usize);
            *m.stats.entry("short_file_read").or_insert(0) += 1;
        }
        let node = m.disk.inodes.get(&ino).expect("inode");
        buf[..n].copy_from_slice(&node.data[off..off + n]);
        Ok(n)
    })
}

pub fn fs_len_mtime(ino: u64) -> io::Result<(u64, u64)> {
    match step(OpKind::Metadata, 0)? {
        StepResult::Fault(e) => return Err(errno(e)),
        _ => {}
    }
    with(|m| {
        let node = m.disk.inodes.get(&ino).expect("inode");
        Ok((node.data.len() as u64, node.mtime_ns))
    })
}

pub fn fs_path_meta(path: &Path) -> io::Result<(bool, u64, u64)> {
    match step(OpKind::Metadata, 0)? {
        StepResult::Fault(e) => return Err(errno(e)),
        _ => {}
    }
    with(|m| {
        let p = norm(path);
        if m.disk.dirs.contains(&p) {
            return Ok((true, 0, 0));
        }
        match m.disk.names.get(&p).and_then(|i| m.disk.inodes.get(i)) {
            Some(n) => Ok((false, n.data.len() as u64, n.mtime_ns)),
            None => Err(not_found()),
        }
    })
}

pub fn fs_sync(_ino: u64) -> io::Result<()> {
    match step(OpKind::SyncAll, 0)? {
        StepResult::Fault(e) => Err(errno(e)),
        _ => Ok(()),
    }
}

pub fn fs_set_len(ino: u64, len: u64) -> io::Result<()> {
    match step(OpKind::SetLen, 0)? {
        StepResult::Fault(e) => return Err(errno(e)),
        _ => {}
    }
    with(|m| {
        let now = m.clock_ns;
        let node = m.disk.inodes.get_mut(&ino).expect("inode");
        node.data.resize(len as usize, 0);
        node.mtime_ns = now;
        Ok(())
    })
}

pub fn fs_rename(from: &Path, to: &Path, noclobber: bool) -> io::Result<()> {
    match step(OpKind::Rename, 0)? {
        StepResult::Fault(e) => return Err(errno(e)),
        _ => {}
    }
    with(|m| {
        let (f, t) = (norm(from), norm(to));
        if device_of(&f) != device_of(&t) {
            *m.stats.entry("rename_exdev").or_insert(0) += 1;
            return Err(errno(Errno::EXDEV));
        }
        let ino = match m.disk.names.get(&f).copied() {
            Some(i) => i,
            None => return Err(not_found()),
        };
        if m.disk.dirs.contains(&t) {
            return Err(io::Error::from_raw_os_error(21));
        }
        let parent_ok = t.parent().map(|d| m.disk.dirs.contains(d)).unwrap_or(false);
        if !parent_ok {
            return Err(not_found());
        }
        if noclobber && m.disk.names.contains_key(&t) {
            return Err(io::Error::from_raw_os_error(17));
        }
        m.disk.names.remove(&f);
        if let Some(old) = m.disk.names.insert(t, ino) {
            if let Some(n) = m.disk.inodes.get_mut(&old) {
                n.nlink = n.nlink.saturating_sub(1);
            }
        }
        m.event("renamed", ino, 0);
        Ok(())
    })
}

pub fn fs_unlink(path: &Path) -> io::Result<()> {
    match step(OpKind::Unlink, 0)? {
        StepResult::Fault(e) => return Err(errno(e)),
        _ => {}
    }
    with(|m| {
        let p = norm(path);
        match m.disk.names.remove(&p) {
            Some(ino) => {
                if let Some(n) = m.disk.inodes.get_mut(&ino) {
                    n.nlink = n.nlink.saturating_sub(1);
                }
                Ok(())
            }
            None => Err(not_found()),
        }
    })
}

pub fn fs_copy(from: &Path, to: &Path) -> io::Result<u64> {
    // std::fs::copy: open source, create/truncate destination, stream. Modelled
    // as open + create + chunked writes so that a crash can land in the middle.
    let src = fs_open(
        from,
        OpenHow {
            read: true,
            ..Default::default()
        },
        OpKind::Open,
    )?;
    let dst = fs_open(
        to,
        OpenHow {
            write: true,
            create: true,
            truncate: true,
            ..Default::default()
        },
        OpKind::Create,
    )?;
    let data = with(|m| m.disk.inodes.get(&src).unwrap().data.clone());
    let mut off = 0u64;
    for chunk in data.chunks(8192) {
        let mut done = 0;
        while done < chunk.len() {
            let (n, no) = fs_write(dst, off, &chunk[done..], false)?;
            done += n;
            off = no;
        }
    }
    Ok(data.len() as u64)
}

pub fn temp_name(prefix: &str, suffix: &str, rand_len: usize) -> String {
    with(|m| {
        m.disk.temp_counter += 1;
        let mut x = m.disk.temp_counter.wrapping_mul(0x9E37_79B9_7F4A_7C15);
        let mut s = String::new();
        const ALPHA: &[u8] = b"abcdefghijklmnopqrstuvwxyzABCDEFGHIJKLMNOPQRSTUVWXYZ0123456789";
        for _ in 0..rand_len {
            s.push(ALPHA[(x % ALPHA.len() as u64) as usize] as char);
            x /= ALPHA.len() as u64;
            x = x.wrapping_add(0x1234_5678_9ABC);
        }
        format!("{}{}{}", prefix, s, suffix)
    })
}

pub fn now_ns() -> u64 {
    with(|m| m.clock_ns)
}
