//! xoshiro256** seeded through splitmix64. The only source of randomness in
//! the whole framework; every run derives one of these from one integer.

#[derive(Clone, Debug)]
pub struct Rng {
    s: [u64; 4],
}

pub fn splitmix64(state: &mut u64) -> u64 {
    *state = state.wrapping_add(0x9E37_79B9_7F4A_7C15);
    let mut z = *state;
    z = (z ^ (z >> 30)).wrapping_mul(0xBF58_476D_1CE4_E5B9);
    z = (z ^ (z >> 27)).wrapping_mul(0x94D0_49BB_1331_11EB);
    z ^ (z >> 31)
}

/// Mix two integers into one seed (used for batch seed x run index).
pub fn mix(a: u64, b: u64) -> u64 {
    let mut s = a ^ b.wrapping_mul(0xD6E8_FEB8_6659_FD93);
    let x = splitmix64(&mut s);
    let y = splitmix64(&mut s);
    x ^ y.rotate_left(17)
}

impl Rng {
    pub fn new(seed: u64) -> Rng {
        let mut sm = seed;
        let mut s = [0u64; 4];
        for w in s.iter_mut() {
            *w = splitmix64(&mut sm);
        }
        if s == [0; 4] {
            s[0] = 1;
        }
        Rng { s }
    }

    pub fn next_u64(&mut self) -> u64 {
        let result = self.s[1].wrapping_mul(5).rotate_left(7).wrapping_mul(9);
        let t = self.s[1] << 17;
        self.s[2] ^= self.s[0];
        self.s[3] ^= self.s[1];
        self.s[1] ^= self.s[2];
        self.s[0] ^= self.s[3];
        self.s[2] ^= t;
        self.s[3] = self.s[3].rotate_left(45);
        result
    }

    /// Uniform in 0..n (n > 0).
    pub fn below(&mut self, n: u64) -> u64 {
        debug_assert!(n > 0);
        // Multiply-shift; bias is negligible for the n used here.
        ((self.next_u64() as u128 * n as u128) >> 64) as u64
    }

    pub fn range(&mut self, lo: u64, hi_incl: u64) -> u64 {
        lo + self.below(hi_incl - lo + 1)
    }

    pub fn chance(&mut self, num: u64, den: u64) -> bool {
        self.below(den) < num
    }

    pub fn pick<'a, T>(&mut self, xs: &'a [T]) -> &'a T {
        &xs[self.below(xs.len() as u64) as usize]
    }

    /// Weighted index.
    pub fn weighted(&mut self, weights: &[u64]) -> usize {
        let total: u64 = weights.iter().sum();
        let mut x = self.below(total.max(1));
        for (i, w) in weights.iter().enumerate() {
            if x < *w {
                return i;
            }
            x -= *w;
        }
        weights.len() - 1
    }

    pub fn fork(&mut self) -> Rng {
        Rng::new(self.next_u64())
    }
}

/// 64-bit FNV-1a, used for event-log digests.
#[derive(Clone, Copy, Debug)]
pub struct Fnv(pub u64);

impl Default for Fnv {
    fn default() -> Self {
        Fnv(0xcbf2_9ce4_8422_2325)
    }
}

impl Fnv {
    pub fn bytes(&mut self, b: &[u8]) {
        for x in b {
            self.0 ^= *x as u64;
            self.0 = self.0.wrapping_mul(0x0000_0100_0000_01B3);
        }
    }
    pub fn u64(&mut self, v: u64) {
        self.bytes(&v.to_le_bytes());
    }
    pub fn str(&mut self, s: &str) {
        self.bytes(s.as_bytes());
        self.bytes(&[0xff]);
    }
}
