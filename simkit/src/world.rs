//! The simulated world: one virtual clock, one scheduler, and every party of a
//! run (async tasks polled on the driver thread, and real OS threads that only
//! ever run one at a time under a baton) inside one process.
//!
//! Nothing in here reads a real clock, and nothing decides an order except
//! through the world's `Chooser`.

use crate::chooser::Chooser;
use crate::rng::{Fnv, Rng};
use std::any::Any;
use std::cell::RefCell;
use std::collections::{BTreeMap, VecDeque};
use std::future::Future;
use std::io;
use std::pin::Pin;
use std::sync::atomic::{AtomicBool, Ordering};
use std::sync::{Arc, Condvar, Mutex, MutexGuard};
use std::task::{Context, Poll, Wake, Waker};

// ---------------------------------------------------------------------------
// Unwind payloads used to end a simulated process. `resume_unwind` does not
// run the panic hook, so none of these is ever reported as a panic.

/// The process was killed from outside.
pub struct SimKilled;
/// The process called `exit(code)`.
pub struct SimExit(pub i32);
/// The process aborted (allocation failure, double panic).
pub struct SimAbort;

// ---------------------------------------------------------------------------

pub(crate) struct Gate {
    m: Mutex<bool>,
    cv: Condvar,
}

impl Gate {
    fn new() -> Gate {
        Gate {
            m: Mutex::new(false),
            cv: Condvar::new(),
        }
    }
    fn open(&self) {
        let mut g = self.m.lock().unwrap_or_else(|e| e.into_inner());
        *g = true;
        self.cv.notify_one();
    }
    fn pass(&self) {
        let mut g = self.m.lock().unwrap_or_else(|e| e.into_inner());
        while !*g {
            g = self.cv.wait(g).unwrap_or_else(|e| e.into_inner());
        }
        *g = false;
    }
}

#[derive(Clone, Copy, Debug, PartialEq, Eq, PartialOrd, Ord)]
pub enum Party {
    Driver,
    Thread(usize),
}

#[derive(Clone)]
pub(crate) struct Cur {
    pub world: Arc<World>,
    pub party: Party,
    gate: Option<Arc<Gate>>,
}

thread_local! {
    static CUR: RefCell<Option<Cur>> = const { RefCell::new(None) };
    static NEW_TASKS: RefCell<Vec<NewTask>> = const { RefCell::new(Vec::new()) };
    static DISCARD_IO: std::cell::Cell<bool> = const { std::cell::Cell::new(false) };
}

pub(crate) fn set_discard_io(v: bool) {
    DISCARD_IO.with(|d| d.set(v));
}

fn discard_io() -> bool {
    DISCARD_IO.with(|d| d.get())
}

pub(crate) fn cur() -> Option<Cur> {
    CUR.with(|c| c.borrow().clone())
}

pub(crate) fn cur_world() -> Arc<World> {
    cur().expect("simkit: no simulated world on this thread").world
}

/// The world of the calling thread, if it runs inside one.
pub fn current() -> Option<Arc<World>> {
    cur().map(|c| c.world)
}

// ---------------------------------------------------------------------------
// Configuration

#[derive(Clone, Copy, Debug, PartialEq, Eq, serde::Serialize, serde::Deserialize)]
pub enum Policy {
    /// Keep running the same party until it blocks (choice 0), deviate with
    /// probability 1/k.
    Sticky(u32),
    /// Uniformly random among runnable parties at every step.
    Uniform,
    /// PCT-style: random priorities, `d` priority-change points.
    Pct(u32),
    /// One victim party is scheduled only with weight 1/16 while others can run.
    Starve(u32),
}

#[derive(Clone, Debug)]
pub struct WorldCfg {
    pub policy: Policy,
    /// Seed of the policy's private PRNG (priorities, change points). It only
    /// shapes the distribution of generated choices and is never needed for replay.
    pub policy_seed: u64,
    pub pipe_cap: usize,
    /// PIPE_BUF: writes of at most this many bytes are atomic (all or nothing).
    pub pipe_buf: usize,
    /// Probability (num, den) that a non-blocking write larger than PIPE_BUF
    /// moves fewer bytes than would fit (POSIX allows any partial count there).
    pub short_io: (u64, u64),
    /// Probability that `kill()` of an already dead child reports InvalidInput instead of Ok.
    pub kill_dead_err: (u64, u64),
    /// Probability that the (simulated) parent allocator refuses an allocation.
    pub alloc_fail: (u64, u64),
    /// Whether atomic operations of controlled threads are scheduling points.
    pub atomics_yield: bool,
    pub step_cap: u64,
    /// Simulated time a controlled thread spends on every pipe transfer it
    /// writes (0 = instantaneous): a slow child, or a slow pipe.
    pub child_io_cost_ns: u64,
    /// Steps allowed after the main future completes, for detached tasks to wind down.
    pub drain_steps: u64,
    pub keep_log: bool,
}

impl Default for WorldCfg {
    fn default() -> Self {
        WorldCfg {
            policy: Policy::Sticky(8),
            policy_seed: 0,
            pipe_cap: 65536,
            pipe_buf: 4096,
            short_io: (0, 1),
            kill_dead_err: (0, 1),
            alloc_fail: (0, 1),
            atomics_yield: false,
            step_cap: 200_000,
            child_io_cost_ns: 0,
            drain_steps: 2_000,
            keep_log: false,
        }
    }
}

// ---------------------------------------------------------------------------
// Kernel objects

pub(crate) struct Pipe {
    pub buf: VecDeque<u8>,
    pub cap: usize,
    pub reader_open: bool,
    pub writer_open: bool,
    pub read_waker: Option<Waker>,
    pub write_waker: Option<Waker>,
}

#[derive(Clone, Copy, Debug, PartialEq, Eq)]
pub(crate) enum BlockedOn {
    PipeReadable(usize),
    /// Pipe id and the number of free bytes needed.
    PipeWritable(usize, usize),
    Until(u64),
}

#[derive(Clone, Copy, Debug, PartialEq, Eq)]
enum ThState {
    Runnable,
    Blocked(BlockedOn),
    Running,
    Finished,
}

#[derive(Clone, Debug, PartialEq, Eq)]
pub enum ThreadEnd {
    Returned,
    Exit(i32),
    Abort,
    Killed,
    Panicked(String),
}

struct ThreadSlot {
    name: String,
    state: ThState,
    dead: bool,
    gate: Arc<Gate>,
    join: Option<std::thread::JoinHandle<()>>,
    proc_: Option<usize>,
    end: Option<ThreadEnd>,
}

pub(crate) struct ProcSlot {
    pub pid: u32,
    pub tid: usize,
    pub alive: bool,
    pub stdin_pipe: usize,
    pub stdout_pipe: usize,
}

enum TimerTarget {
    Waker(Arc<TimerCell>),
    Thread(usize),
}

pub(crate) struct TimerCell {
    fired: AtomicBool,
    cancelled: AtomicBool,
    waker: Mutex<Option<Waker>>,
}

pub type Program = Arc<dyn Fn(Vec<std::ffi::OsString>) + Send + Sync + 'static>;

#[derive(Clone, Copy, Debug, PartialEq, Eq, PartialOrd, Ord)]
enum Rn {
    Task(usize),
    Thread(usize),
}

struct PolicyState {
    rng: Rng,
    prio: BTreeMap<Rn, i64>,
    change_points: Vec<u64>,
    victim: Option<Rn>,
    last: Option<Rn>,
}

pub(crate) struct Inner {
    pub now: u64,
    seq: u64,
    steps: u64,
    timers: BTreeMap<(u64, u64), TimerTarget>,
    threads: Vec<ThreadSlot>,
    pub pipes: Vec<Pipe>,
    pub procs: Vec<ProcSlot>,
    programs: BTreeMap<String, Program>,
    pub chooser: Chooser,
    pub cfg: WorldCfg,
    policy: PolicyState,
    digest: Fnv,
    log: Vec<String>,
    pub stats: BTreeMap<&'static str, u64>,
    ctrlc_pending: bool,
    ctrlc_waker: Option<Waker>,
    task_count: usize,
    thread_exit_waker: Option<Waker>,
}

pub struct World {
    pub(crate) inner: Mutex<Inner>,
    driver_gate: Gate,
}

#[derive(Clone, Debug, PartialEq, Eq)]
pub enum RunEnd {
    /// The main future completed and the world became quiescent (or the drain budget ended).
    Completed,
    /// Nothing runnable, no timer pending, main future not complete.
    Deadlock,
    /// The step cap was reached before the main future completed.
    StepCap,
}

pub struct RunReport {
    pub end: RunEnd,
    pub digest: u64,
    pub choices: Vec<u32>,
    pub real_decisions: u64,
    pub nonzero_choices: u64,
    pub sim_ns: u64,
    pub steps: u64,
    pub stats: BTreeMap<String, u64>,
    pub log: Vec<String>,
    /// How every controlled thread ended, in creation order.
    pub thread_ends: Vec<(String, ThreadEnd)>,
    /// Threads that were still alive when the world was torn down.
    pub live_at_teardown: usize,
}

// ---------------------------------------------------------------------------
// Tasks

struct TaskFlag {
    ready: AtomicBool,
}

impl Wake for TaskFlag {
    fn wake(self: Arc<Self>) {
        self.ready.store(true, Ordering::SeqCst);
    }
    fn wake_by_ref(self: &Arc<Self>) {
        self.ready.store(true, Ordering::SeqCst);
    }
}

pub(crate) struct TaskCtl {
    cancel: AtomicBool,
    flag: Arc<TaskFlag>,
    on_cancel: Mutex<Option<Box<dyn FnOnce() + Send>>>,
}

impl TaskCtl {
    pub(crate) fn request_cancel(&self) {
        self.cancel.store(true, Ordering::SeqCst);
        self.flag.ready.store(true, Ordering::SeqCst);
    }
}

struct NewTask {
    fut: Pin<Box<dyn Future<Output = ()>>>,
    ctl: Arc<TaskCtl>,
}

struct TaskEntry {
    fut: Option<Pin<Box<dyn Future<Output = ()>>>>,
    flag: Arc<TaskFlag>,
    ctl: Option<Arc<TaskCtl>>,
}

/// Register a new task with the driver of the calling thread. `on_cancel`
/// runs after the future has been dropped because of a cancellation.
pub(crate) fn spawn_task(
    fut: Pin<Box<dyn Future<Output = ()>>>,
    on_cancel: Box<dyn FnOnce() + Send>,
) -> Arc<TaskCtl> {
    let ctl = Arc::new(TaskCtl {
        cancel: AtomicBool::new(false),
        flag: Arc::new(TaskFlag {
            ready: AtomicBool::new(true),
        }),
        on_cancel: Mutex::new(Some(on_cancel)),
    });
    NEW_TASKS.with(|n| {
        n.borrow_mut().push(NewTask {
            fut,
            ctl: ctl.clone(),
        })
    });
    ctl
}

// ---------------------------------------------------------------------------

impl World {
    pub fn new(cfg: WorldCfg, chooser: Chooser) -> Arc<World> {
        let policy = PolicyState {
            rng: Rng::new(cfg.policy_seed ^ 0x5151_5151),
            prio: BTreeMap::new(),
            change_points: Vec::new(),
            victim: None,
            last: None,
        };
        let mut inner = Inner {
            now: 0,
            seq: 0,
            steps: 0,
            timers: BTreeMap::new(),
            threads: Vec::new(),
            pipes: Vec::new(),
            procs: Vec::new(),
            programs: BTreeMap::new(),
            chooser,
            cfg,
            policy,
            digest: Fnv::default(),
            log: Vec::new(),
            stats: BTreeMap::new(),
            ctrlc_pending: false,
            ctrlc_waker: None,
            task_count: 0,
            thread_exit_waker: None,
        };
        if let Policy::Pct(d) = inner.cfg.policy {
            // Change points fall within the first few hundred steps, where
            // almost all runs live.
            for _ in 0..d {
                let p = inner.policy.rng.below(400);
                inner.policy.change_points.push(p);
            }
        }
        Arc::new(World {
            inner: Mutex::new(inner),
            driver_gate: Gate::new(),
        })
    }

    pub(crate) fn lock(&self) -> MutexGuard<'_, Inner> {
        self.inner.lock().unwrap_or_else(|e| e.into_inner())
    }

    pub fn now_ns(&self) -> u64 {
        self.lock().now
    }

    pub fn register_program(&self, name: &str, program: Program) {
        self.lock().programs.insert(name.to_string(), program);
    }

    pub(crate) fn has_program(&self, name: &str) -> bool {
        self.lock().programs.contains_key(name)
    }

    /// Record an event: it always feeds the digest and is kept as text when
    /// the world was asked to keep its log.
    pub fn event(&self, name: &'static str, a: u64, b: u64) {
        self.lock().event(name, a, b);
    }

    pub fn stat(&self, name: &'static str) {
        *self.lock().stats.entry(name).or_insert(0) += 1;
    }

    pub fn stat_add(&self, name: &'static str, n: u64) {
        *self.lock().stats.entry(name).or_insert(0) += n;
    }

    /// A decision made by the harness or a stub at run time.
    pub fn choose<R>(&self, f: impl FnOnce(&mut Chooser) -> R) -> R {
        f(&mut self.lock().chooser)
    }

    pub fn raise_ctrlc(&self) {
        let w = {
            let mut g = self.lock();
            g.ctrlc_pending = true;
            g.event("ctrlc", 0, 0);
            g.ctrlc_waker.take()
        };
        if let Some(w) = w {
            w.wake();
        }
    }

    pub(crate) fn poll_ctrlc(&self, cx: &mut Context<'_>) -> Poll<()> {
        let mut g = self.lock();
        if g.ctrlc_pending {
            g.ctrlc_pending = false;
            Poll::Ready(())
        } else {
            g.ctrlc_waker = Some(cx.waker().clone());
            Poll::Pending
        }
    }

    // ----- timers ---------------------------------------------------------

    pub(crate) fn add_waker_timer(&self, delay_ns: u64) -> Arc<TimerCell> {
        let cell = Arc::new(TimerCell {
            fired: AtomicBool::new(false),
            cancelled: AtomicBool::new(false),
            waker: Mutex::new(None),
        });
        let mut g = self.lock();
        let deadline = g.now.saturating_add(delay_ns);
        g.seq += 1;
        let seq = g.seq;
        g.timers
            .insert((deadline, seq), TimerTarget::Waker(cell.clone()));
        cell
    }

    // ----- threads --------------------------------------------------------

    /// Start a controlled thread. It does not run until the scheduler picks it.
    pub fn spawn_thread(
        self: &Arc<World>,
        name: &str,
        f: Box<dyn FnOnce() + Send + 'static>,
    ) -> usize {
        self.spawn_thread_inner(name, None, f)
    }

    /// Start a further thread of the calling thread's simulated process
    /// (`std::thread::spawn` in code that runs inside a child).
    pub(crate) fn spawn_thread_in_process(
        self: &Arc<World>,
        c: &Cur,
        f: Box<dyn FnOnce() + Send + 'static>,
    ) -> usize {
        let p = match c.party {
            Party::Thread(t) => self.lock().threads[t].proc_,
            Party::Driver => None,
        };
        self.lock().event("thread_spawn_in_process", p.map(|x| x as u64 + 1).unwrap_or(0), 0);
        self.spawn_thread_inner("aux", p, f)
    }

    pub(crate) fn thread_is_finished(&self, tid: usize) -> bool {
        matches!(self.lock().threads[tid].state, ThState::Finished)
    }

    fn spawn_thread_inner(
        self: &Arc<World>,
        name: &str,
        proc_: Option<usize>,
        f: Box<dyn FnOnce() + Send + 'static>,
    ) -> usize {
        let gate = Arc::new(Gate::new());
        let tid = {
            let mut g = self.lock();
            g.threads.push(ThreadSlot {
                name: name.to_string(),
                state: ThState::Runnable,
                dead: false,
                gate: gate.clone(),
                join: None,
                proc_,
                end: None,
            });
            g.threads.len() - 1
        };
        let world = self.clone();
        let gate2 = gate.clone();
        let handle = crate::spawn_os_thread(format!("sim-{}", name), 1 << 20, move || {
                CUR.with(|c| {
                    *c.borrow_mut() = Some(Cur {
                        world: world.clone(),
                        party: Party::Thread(tid),
                        gate: Some(gate2.clone()),
                    })
                });
                gate2.pass();
                let dead = world.lock().threads[tid].dead;
                let end = if dead {
                    ThreadEnd::Killed
                } else {
                    match std::panic::catch_unwind(std::panic::AssertUnwindSafe(f)) {
                        Ok(()) => ThreadEnd::Returned,
                        Err(p) => classify_payload(p),
                    }
                };
                crate::shim::child::thread_teardown();
                CUR.with(|c| *c.borrow_mut() = None);
                world.thread_finished(tid, end);
                world.driver_gate.open();
            });
        self.lock().threads[tid].join = Some(handle);
        tid
    }

    fn thread_finished(&self, tid: usize, end: ThreadEnd) {
        let mut wakers = Vec::new();
        {
            let mut g = self.lock();
            g.event("thread_end", tid as u64, 0);
            g.threads[tid].state = ThState::Finished;
            if g.threads[tid].end.is_none() {
                g.threads[tid].end = Some(end);
            }
            if let Some(p) = g.threads[tid].proc_ {
                g.proc_gone(p, &mut wakers);
            }
            if let Some(w) = g.thread_exit_waker.take() {
                wakers.push(w);
            }
        }
        for w in wakers {
            w.wake();
        }
    }

    /// Completes when every listed controlled thread has finished.
    pub fn join_threads(self: &Arc<World>, tids: Vec<usize>) -> JoinThreads {
        JoinThreads {
            world: self.clone(),
            tids,
        }
    }

    /// Scheduling point of a controlled thread.
    pub(crate) fn thread_yield(&self, c: &Cur, blocked: Option<BlockedOn>) {
        let tid = match c.party {
            Party::Thread(t) => t,
            Party::Driver => return,
        };
        {
            let mut g = self.lock();
            if g.threads[tid].dead {
                drop(g);
                die_if_dead_now();
                return;
            }
            g.threads[tid].state = match blocked {
                Some(b) => ThState::Blocked(b),
                None => ThState::Runnable,
            };
        }
        self.driver_gate.open();
        c.gate.as_ref().unwrap().pass();
        let dead = self.lock().threads[tid].dead;
        if dead {
            die_if_dead_now();
        }
    }

    /// The calling controlled thread's process ends right now (exit, abort):
    /// its pipe ends close and nothing it does afterwards has any simulated
    /// effect. The caller then unwinds.
    pub(crate) fn process_ends_now(&self, c: &Cur, end: ThreadEnd) {
        let tid = match c.party {
            Party::Thread(t) => t,
            Party::Driver => return,
        };
        let mut wakers = Vec::new();
        {
            let mut g = self.lock();
            g.threads[tid].dead = true;
            if g.threads[tid].end.is_none() {
                g.threads[tid].end = Some(end);
            }
            if let Some(p) = g.threads[tid].proc_ {
                // every thread of the process goes with it
                for t in g.threads.iter_mut() {
                    if t.proc_ == Some(p) {
                        t.dead = true;
                    }
                }
                g.proc_gone(p, &mut wakers);
            }
        }
        for w in wakers {
            w.wake();
        }
    }

    pub(crate) fn thread_is_dead(&self, c: &Cur) -> bool {
        match c.party {
            Party::Thread(t) => self.lock().threads[t].dead,
            Party::Driver => false,
        }
    }

    fn step_thread(&self, tid: usize) {
        let gate = {
            let mut g = self.lock();
            g.threads[tid].state = ThState::Running;
            g.threads[tid].gate.clone()
        };
        gate.open();
        self.driver_gate.pass();
    }

    /// Block the calling controlled thread for `ns` of simulated time.
    pub(crate) fn thread_sleep(&self, c: &Cur, ns: u64) {
        let tid = match c.party {
            Party::Thread(t) => t,
            Party::Driver => panic!("simkit: sleep() on the driver thread"),
        };
        let deadline = {
            let mut g = self.lock();
            let deadline = g.now.saturating_add(ns);
            g.seq += 1;
            let seq = g.seq;
            g.timers.insert((deadline, seq), TimerTarget::Thread(tid));
            deadline
        };
        loop {
            self.thread_yield(c, Some(BlockedOn::Until(deadline)));
            if self.lock().now >= deadline {
                return;
            }
        }
    }

    // ----- processes ------------------------------------------------------

    pub(crate) fn spawn_process(
        self: &Arc<World>,
        program: &str,
        args: Vec<std::ffi::OsString>,
    ) -> io::Result<(usize, usize, usize)> {
        let (prog, pidx, stdin_pipe, stdout_pipe) = {
            let mut g = self.lock();
            let prog = match g.programs.get(program) {
                Some(p) => p.clone(),
                None => {
                    return Err(io::Error::new(
                        io::ErrorKind::NotFound,
                        format!("simkit: no such program {:?}", program),
                    ))
                }
            };
            let cap = g.cfg.pipe_cap;
            let stdin_pipe = g.new_pipe(cap);
            let stdout_pipe = g.new_pipe(cap);
            let pidx = g.procs.len();
            g.procs.push(ProcSlot {
                pid: pidx as u32 + 1,
                tid: usize::MAX,
                alive: true,
                stdin_pipe,
                stdout_pipe,
            });
            g.event("spawn", pidx as u64 + 1, 0);
            *g.stats.entry("proc_spawned").or_insert(0) += 1;
            (prog, pidx, stdin_pipe, stdout_pipe)
        };
        let world = self.clone();
        let tid = self.spawn_thread_inner(
            &format!("child{}", pidx + 1),
            Some(pidx),
            Box::new(move || {
                crate::shim::child::thread_setup(&world, stdin_pipe, stdout_pipe);
                prog(args);
            }),
        );
        self.lock().procs[pidx].tid = tid;
        Ok((pidx, stdin_pipe, stdout_pipe))
    }

    /// Kill a process: immediate in its effects. The thread itself unwinds the
    /// next time the driver reaps it.
    pub(crate) fn kill_process(&self, pidx: usize) -> io::Result<()> {
        let mut wakers = Vec::new();
        let r = {
            let mut g = self.lock();
            if !g.procs[pidx].alive {
                let (n, d) = g.cfg.kill_dead_err;
                g.event("kill_dead", pidx as u64 + 1, 0);
                *g.stats.entry("kill_of_dead_child").or_insert(0) += 1;
                if g.chooser.coin(n, d) {
                    Err(io::Error::new(
                        io::ErrorKind::InvalidInput,
                        "invalid argument: can't kill an exited process",
                    ))
                } else {
                    Ok(())
                }
            } else {
                g.event("kill", pidx as u64 + 1, 0);
                *g.stats.entry("kill_of_live_child").or_insert(0) += 1;
                let tid = g.procs[pidx].tid;
                if tid != usize::MAX {
                    g.threads[tid].dead = true;
                }
                for t in g.threads.iter_mut() {
                    if t.proc_ == Some(pidx) {
                        t.dead = true;
                    }
                }
                g.proc_gone(pidx, &mut wakers);
                Ok(())
            }
        };
        for w in wakers {
            w.wake();
        }
        r
    }

    pub(crate) fn proc_alive(&self, pidx: usize) -> bool {
        self.lock().procs[pidx].alive
    }

    pub fn procs_spawned(&self) -> usize {
        self.lock().procs.len()
    }

    // ----- driver ---------------------------------------------------------

    /// Run `main` to completion under the simulated scheduler.
    pub fn run<T: 'static>(
        self: &Arc<World>,
        main: impl Future<Output = T> + 'static,
    ) -> (RunReport, Option<T>) {
        let prev = CUR.with(|c| {
            c.borrow_mut().replace(Cur {
                world: self.clone(),
                party: Party::Driver,
                gate: None,
            })
        });
        NEW_TASKS.with(|n| n.borrow_mut().clear());

        let out: std::rc::Rc<RefCell<Option<T>>> = std::rc::Rc::new(RefCell::new(None));
        let out2 = out.clone();
        let mut tasks: Vec<TaskEntry> = Vec::new();
        tasks.push(TaskEntry {
            fut: Some(Box::pin(async move {
                let v = main.await;
                *out2.borrow_mut() = Some(v);
            })),
            flag: Arc::new(TaskFlag {
                ready: AtomicBool::new(true),
            }),
            ctl: None,
        });
        self.lock().task_count = 1;

        let mut end = RunEnd::Completed;
        let mut main_done_at: Option<u64> = None;
        loop {
            // New tasks registered by the last step.
            let new: Vec<NewTask> = NEW_TASKS.with(|n| std::mem::take(&mut *n.borrow_mut()));
            for t in new {
                let flag = t.ctl.flag.clone();
                tasks.push(TaskEntry {
                    fut: Some(t.fut),
                    flag,
                    ctl: Some(t.ctl),
                });
                let mut g = self.lock();
                g.task_count = tasks.len();
                g.event("task_spawn", tasks.len() as u64 - 1, 0);
            }
            // Reap killed threads: they unwind without touching simulated state.
            loop {
                let z = {
                    let g = self.lock();
                    g.threads.iter().position(|t| {
                        t.dead && !matches!(t.state, ThState::Finished | ThState::Running)
                    })
                };
                match z {
                    Some(tid) => self.step_thread(tid),
                    None => break,
                }
            }

            let main_done = tasks[0].fut.is_none();
            if main_done && main_done_at.is_none() {
                main_done_at = Some(self.lock().steps);
            }

            // Who can run?
            let mut runnable: Vec<Rn> = Vec::new();
            for (i, t) in tasks.iter().enumerate() {
                if t.fut.is_some() && t.flag.ready.load(Ordering::SeqCst) {
                    runnable.push(Rn::Task(i));
                }
            }
            {
                let g = self.lock();
                for (i, t) in g.threads.iter().enumerate() {
                    if t.dead {
                        continue;
                    }
                    let ok = match t.state {
                        ThState::Runnable => true,
                        ThState::Blocked(b) => g.unblocked(b),
                        _ => false,
                    };
                    if ok {
                        runnable.push(Rn::Thread(i));
                    }
                }
            }

            if runnable.is_empty() {
                // Advance the clock to the next live timer.
                let fired = self.fire_next_timer();
                if fired {
                    continue;
                }
                if !main_done {
                    end = RunEnd::Deadlock;
                }
                break;
            }

            {
                let g = self.lock();
                if g.steps >= g.cfg.step_cap {
                    if !main_done {
                        end = RunEnd::StepCap;
                    }
                    break;
                }
                if let Some(at) = main_done_at {
                    if g.steps - at >= g.cfg.drain_steps {
                        break;
                    }
                }
            }

            let pick = {
                let mut g = self.lock();
                g.steps += 1;
                g.choose_next(&mut runnable)
            };
            match pick {
                Rn::Task(i) => {
                    self.lock().event("run_task", i as u64, 0);
                    let cancel = tasks[i]
                        .ctl
                        .as_ref()
                        .map(|c| c.cancel.load(Ordering::SeqCst))
                        .unwrap_or(false);
                    if cancel {
                        // Dropping the future runs its destructors (kill-on-drop).
                        let fut = tasks[i].fut.take();
                        drop(fut);
                        self.lock().event("task_cancelled", i as u64, 0);
                        let cb = tasks[i].ctl.as_ref().unwrap().on_cancel.lock().unwrap().take();
                        if let Some(cb) = cb {
                            cb();
                        }
                        continue;
                    }
                    tasks[i].flag.ready.store(false, Ordering::SeqCst);
                    let waker = Waker::from(tasks[i].flag.clone());
                    let mut cx = Context::from_waker(&waker);
                    let fut = tasks[i].fut.as_mut().unwrap();
                    if let Poll::Ready(()) = fut.as_mut().poll(&mut cx) {
                        tasks[i].fut = None;
                        self.lock().event("task_done", i as u64, 0);
                    }
                }
                Rn::Thread(t) => {
                    self.lock().event("run_thread", t as u64, 0);
                    self.step_thread(t);
                }
            }
        }

        // Teardown. First drop every remaining task (kill-on-drop runs here),
        // then kill and reap every thread that is still alive, then join.
        let live_at_teardown = {
            let g = self.lock();
            g.threads
                .iter()
                .filter(|t| !t.dead && t.state != ThState::Finished)
                .count()
        };
        for t in tasks.iter_mut().rev() {
            t.fut = None;
        }
        drop(tasks);
        NEW_TASKS.with(|n| n.borrow_mut().clear());
        loop {
            let z = {
                let mut g = self.lock();
                let z = g
                    .threads
                    .iter()
                    .position(|t| !matches!(t.state, ThState::Finished | ThState::Running));
                if let Some(tid) = z {
                    g.threads[tid].dead = true;
                }
                z
            };
            match z {
                Some(tid) => self.step_thread(tid),
                None => break,
            }
        }
        let joins: Vec<_> = {
            let mut g = self.lock();
            g.threads.iter_mut().filter_map(|t| t.join.take()).collect()
        };
        for j in joins {
            let _ = j.join();
        }

        CUR.with(|c| *c.borrow_mut() = prev);

        let g = self.lock();
        let report = RunReport {
            end,
            digest: g.digest.0,
            choices: g.chooser.record.clone(),
            real_decisions: g.chooser.real_decisions,
            nonzero_choices: g.chooser.nonzero,
            sim_ns: g.now,
            steps: g.steps,
            stats: g.stats.iter().map(|(k, v)| (k.to_string(), *v)).collect(),
            log: g.log.clone(),
            thread_ends: g
                .threads
                .iter()
                .map(|t| (t.name.clone(), t.end.clone().unwrap_or(ThreadEnd::Killed)))
                .collect(),
            live_at_teardown,
        };
        drop(g);
        let v = out.borrow_mut().take();
        (report, v)
    }

    fn fire_next_timer(&self) -> bool {
        loop {
            let (target, deadline) = {
                let mut g = self.lock();
                let key = match g.timers.keys().next().copied() {
                    Some(k) => k,
                    None => return false,
                };
                let t = g.timers.remove(&key).unwrap();
                (t, key.0)
            };
            match target {
                TimerTarget::Waker(cell) => {
                    if cell.cancelled.load(Ordering::SeqCst) {
                        continue;
                    }
                    {
                        let mut g = self.lock();
                        if deadline > g.now {
                            g.now = deadline;
                        }
                        g.event("timer_fire", deadline, 0);
                        *g.stats.entry("timer_fired").or_insert(0) += 1;
                    }
                    cell.fired.store(true, Ordering::SeqCst);
                    let w = cell.waker.lock().unwrap().take();
                    if let Some(w) = w {
                        w.wake();
                    }
                    return true;
                }
                TimerTarget::Thread(tid) => {
                    let mut g = self.lock();
                    if g.threads[tid].dead || g.threads[tid].state == ThState::Finished {
                        continue;
                    }
                    if deadline > g.now {
                        g.now = deadline;
                    }
                    g.event("timer_thread", deadline, tid as u64);
                    return true;
                }
            }
        }
    }
}

fn classify_payload(p: Box<dyn Any + Send>) -> ThreadEnd {
    if p.is::<SimKilled>() {
        ThreadEnd::Killed
    } else if let Some(e) = p.downcast_ref::<SimExit>() {
        ThreadEnd::Exit(e.0)
    } else if p.is::<SimAbort>() {
        ThreadEnd::Abort
    } else if let Some(s) = p.downcast_ref::<String>() {
        ThreadEnd::Panicked(s.clone())
    } else if let Some(s) = p.downcast_ref::<&'static str>() {
        ThreadEnd::Panicked(s.to_string())
    } else {
        ThreadEnd::Panicked("<non-string payload>".to_string())
    }
}

/// Called by a seam when it finds its thread dead: unwind, unless an unwind is
/// already in progress (a destructor calling a seam), in which case the seam
/// just returns and does nothing.
pub(crate) fn die_if_dead_now() {
    if !std::thread::panicking() {
        std::panic::resume_unwind(Box::new(SimKilled));
    }
}

impl Inner {
    pub(crate) fn event(&mut self, name: &'static str, a: u64, b: u64) {
        self.digest.str(name);
        self.digest.u64(a);
        self.digest.u64(b);
        if self.cfg.keep_log && self.log.len() < 20_000 {
            self.log
                .push(format!("t={} {} {} {}", self.now, name, a, b));
        }
    }

    pub(crate) fn new_pipe(&mut self, cap: usize) -> usize {
        self.pipes.push(Pipe {
            buf: VecDeque::new(),
            cap: cap.max(1),
            reader_open: true,
            writer_open: true,
            read_waker: None,
            write_waker: None,
        });
        self.pipes.len() - 1
    }

    fn unblocked(&self, b: BlockedOn) -> bool {
        match b {
            BlockedOn::PipeReadable(p) => {
                let p = &self.pipes[p];
                !p.buf.is_empty() || !p.writer_open
            }
            BlockedOn::PipeWritable(p, need) => {
                let p = &self.pipes[p];
                p.cap - p.buf.len().min(p.cap) >= need.min(p.cap) || !p.reader_open
            }
            BlockedOn::Until(t) => self.now >= t,
        }
    }

    /// The process is gone (exit, abort, kill): its ends of both pipes close.
    fn proc_gone(&mut self, pidx: usize, wakers: &mut Vec<Waker>) {
        if !self.procs[pidx].alive {
            return;
        }
        self.procs[pidx].alive = false;
        let (i, o) = (self.procs[pidx].stdin_pipe, self.procs[pidx].stdout_pipe);
        self.close_end(i, true, wakers);
        self.close_end(o, false, wakers);
    }

    pub(crate) fn close_end(&mut self, pipe: usize, reader: bool, wakers: &mut Vec<Waker>) {
        let p = &mut self.pipes[pipe];
        if reader {
            p.reader_open = false;
        } else {
            p.writer_open = false;
        }
        if let Some(w) = p.read_waker.take() {
            wakers.push(w);
        }
        if let Some(w) = p.write_waker.take() {
            wakers.push(w);
        }
    }

    /// Non-blocking pipe read; `None` means "would block".
    pub(crate) fn pipe_try_read(
        &mut self,
        pipe: usize,
        buf: &mut [u8],
        wakers: &mut Vec<Waker>,
    ) -> Option<io::Result<usize>> {
        if buf.is_empty() {
            return Some(Ok(0));
        }
        let avail = self.pipes[pipe].buf.len().min(buf.len());
        if avail == 0 {
            if !self.pipes[pipe].writer_open {
                self.event("pipe_eof", pipe as u64, 0);
                *self.stats.entry("pipe_eof").or_insert(0) += 1;
                return Some(Ok(0));
            }
            return None;
        }
        // POSIX: a pipe read returns what is available, up to the request.
        if avail < buf.len() {
            *self.stats.entry("partial_read").or_insert(0) += 1;
        }
        let take = avail;
        let p = &mut self.pipes[pipe];
        for b in buf.iter_mut().take(take) {
            *b = p.buf.pop_front().unwrap();
        }
        if let Some(w) = p.write_waker.take() {
            wakers.push(w);
        }
        self.event("pipe_read", pipe as u64, take as u64);
        Some(Ok(take))
    }

    /// One transfer into a pipe; `None` means "would block".
    ///
    /// POSIX semantics: a write of at most PIPE_BUF bytes is atomic (all of it
    /// or nothing); a larger write moves what fits. On a blocking descriptor
    /// the caller keeps going until everything is written (see `PipeEnd::write`);
    /// on a non-blocking one (the async side) a partial count is returned, and
    /// how much of the available room is used is a seeded decision.
    pub(crate) fn pipe_try_write(
        &mut self,
        pipe: usize,
        data: &[u8],
        blocking: bool,
        wakers: &mut Vec<Waker>,
    ) -> Option<io::Result<usize>> {
        if !self.pipes[pipe].reader_open {
            self.event("pipe_epipe", pipe as u64, 0);
            *self.stats.entry("epipe").or_insert(0) += 1;
            return Some(Err(io::Error::new(
                io::ErrorKind::BrokenPipe,
                "Broken pipe (os error 32)",
            )));
        }
        if data.is_empty() {
            return Some(Ok(0));
        }
        let room = self.pipes[pipe].cap - self.pipes[pipe].buf.len().min(self.pipes[pipe].cap);
        let put = if data.len() <= self.cfg.pipe_buf.min(self.pipes[pipe].cap) {
            if room < data.len() {
                *self.stats.entry("pipe_full").or_insert(0) += 1;
                return None;
            }
            data.len()
        } else {
            let can = room.min(data.len());
            if can == 0 {
                *self.stats.entry("pipe_full").or_insert(0) += 1;
                return None;
            }
            let (n, d) = self.cfg.short_io;
            let less = if blocking || n == 0 {
                0
            } else {
                self.chooser.pick_rare(can as u32, n, d) as usize
            };
            if less != 0 {
                *self.stats.entry("short_write").or_insert(0) += 1;
            }
            if can - less < data.len() {
                *self.stats.entry("partial_write").or_insert(0) += 1;
            }
            can - less
        };
        let p = &mut self.pipes[pipe];
        p.buf.extend(&data[..put]);
        if let Some(w) = p.read_waker.take() {
            wakers.push(w);
        }
        self.event("pipe_write", pipe as u64, put as u64);
        Some(Ok(put))
    }

    /// Pick the next party to run. `runnable` is reordered so that index 0 is
    /// the party that ran last (if it can still run): the default choice is
    /// "no context switch".
    fn choose_next(&mut self, runnable: &mut Vec<Rn>) -> Rn {
        if let Some(last) = self.policy.last {
            if let Some(pos) = runnable.iter().position(|r| *r == last) {
                let r = runnable.remove(pos);
                runnable.insert(0, r);
            }
        }
        let n = runnable.len() as u32;
        let steps = self.steps;
        let policy = self.cfg.policy;
        let ps = &mut self.policy;
        let rl: &Vec<Rn> = runnable;
        let idx = self.chooser.pick_with(n, |rng| match policy {
            Policy::Uniform => rng.below(n as u64) as u32,
            Policy::Sticky(k) => {
                if rng.chance(1, k.max(1) as u64) {
                    rng.below(n as u64) as u32
                } else {
                    0
                }
            }
            Policy::Pct(d) => {
                for r in rl.iter() {
                    if !ps.prio.contains_key(r) {
                        let p = 1000 + ps.rng.below(1_000_000) as i64;
                        ps.prio.insert(*r, p);
                    }
                }
                // At a change point the party that would run drops to the bottom.
                let best = |ps: &PolicyState| {
                    let mut bi = 0usize;
                    for (i, r) in rl.iter().enumerate() {
                        if ps.prio[r] > ps.prio[&rl[bi]] {
                            bi = i;
                        }
                    }
                    bi
                };
                if let Some(cp) = ps.change_points.iter().position(|c| *c == steps) {
                    let b = best(ps);
                    ps.prio.insert(rl[b], (d as i64) - cp as i64);
                }
                best(ps) as u32
            }
            Policy::Starve(v) => {
                if ps.victim.is_none() {
                    ps.victim = Some(rl[(v as usize) % rl.len()]);
                }
                let victim = ps.victim.unwrap();
                let others: Vec<usize> = (0..rl.len()).filter(|i| rl[*i] != victim).collect();
                if others.is_empty() || rng.chance(1, 16) {
                    rng.below(n as u64) as u32
                } else {
                    others[rng.below(others.len() as u64) as usize] as u32
                }
            }
        });
        let r = runnable[idx as usize];
        if idx != 0 && self.policy.last.is_some() {
            *self.stats.entry("context_switch_forced").or_insert(0) += 1;
        }
        self.policy.last = Some(r);
        r
    }
}

// ---------------------------------------------------------------------------
// Pipe ends

/// One end of a simulated pipe. Owning ends close on drop; the ends a child
/// process sees do not (the process table closes them when the process ends).
pub struct PipeEnd {
    pub(crate) world: Arc<World>,
    pub(crate) id: usize,
    pub(crate) reader: bool,
    pub(crate) owning: bool,
}

impl PipeEnd {
    pub(crate) fn new(world: &Arc<World>, id: usize, reader: bool, owning: bool) -> PipeEnd {
        PipeEnd {
            world: world.clone(),
            id,
            reader,
            owning,
        }
    }
}

impl Drop for PipeEnd {
    fn drop(&mut self) {
        if self.owning {
            let mut wakers = Vec::new();
            {
                let mut g = self.world.lock();
                g.close_end(self.id, self.reader, &mut wakers);
                g.event("pipe_close", self.id as u64, self.reader as u64);
            }
            for w in wakers {
                w.wake();
            }
        }
    }
}

fn dead_io() -> io::Error {
    io::Error::new(io::ErrorKind::Other, "simkit: process is dead")
}

impl io::Read for PipeEnd {
    fn read(&mut self, buf: &mut [u8]) -> io::Result<usize> {
        if discard_io() {
            return Ok(0);
        }
        let c = cur().expect("simkit: pipe read outside a world");
        if self.world.thread_is_dead(&c) {
            die_if_dead_now();
            return Err(dead_io());
        }
        self.world.thread_yield(&c, None);
        loop {
            if self.world.thread_is_dead(&c) {
                die_if_dead_now();
                return Err(dead_io());
            }
            let mut wakers = Vec::new();
            let r = self.world.lock().pipe_try_read(self.id, buf, &mut wakers);
            for w in wakers {
                w.wake();
            }
            match r {
                Some(r) => return r,
                None => self
                    .world
                    .thread_yield(&c, Some(BlockedOn::PipeReadable(self.id))),
            }
        }
    }
}

impl io::Write for PipeEnd {
    /// Blocking write: like write(2) on a blocking pipe it returns only when
    /// every byte has been transferred (or the reader is gone).
    fn write(&mut self, data: &[u8]) -> io::Result<usize> {
        if discard_io() {
            return Ok(data.len());
        }
        let c = cur().expect("simkit: pipe write outside a world");
        if self.world.thread_is_dead(&c) {
            die_if_dead_now();
            return Err(dead_io());
        }
        self.world.thread_yield(&c, None);
        let mut done = 0usize;
        loop {
            if self.world.thread_is_dead(&c) {
                die_if_dead_now();
                return Err(dead_io());
            }
            let mut wakers = Vec::new();
            let r = self
                .world
                .lock()
                .pipe_try_write(self.id, &data[done..], true, &mut wakers);
            for w in wakers {
                w.wake();
            }
            match r {
                Some(Ok(k)) => {
                    done += k;
                    let cost = self.world.lock().cfg.child_io_cost_ns;
                    if cost > 0 {
                        self.world.stat("slow_pipe_transfer");
                        self.world.thread_sleep(&c, cost);
                    }
                    if done >= data.len() {
                        return Ok(done);
                    }
                    self.world
                        .thread_yield(&c, Some(BlockedOn::PipeWritable(self.id, 1)));
                }
                Some(Err(e)) => {
                    return if done > 0 { Ok(done) } else { Err(e) };
                }
                None => {
                    // An atomic (<= PIPE_BUF) write needs room for all of it.
                    let rest = data.len() - done;
                    let need = if rest <= self.world.lock().cfg.pipe_buf { rest } else { 1 };
                    self.world
                        .thread_yield(&c, Some(BlockedOn::PipeWritable(self.id, need)))
                }
            }
        }
    }

    fn flush(&mut self) -> io::Result<()> {
        Ok(())
    }
}

impl futures_io::AsyncRead for PipeEnd {
    fn poll_read(
        self: Pin<&mut Self>,
        cx: &mut Context<'_>,
        buf: &mut [u8],
    ) -> Poll<io::Result<usize>> {
        let mut wakers = Vec::new();
        let r = {
            let mut g = self.world.lock();
            let r = g.pipe_try_read(self.id, buf, &mut wakers);
            if r.is_none() {
                g.pipes[self.id].read_waker = Some(cx.waker().clone());
            }
            r
        };
        for w in wakers {
            w.wake();
        }
        match r {
            Some(r) => Poll::Ready(r),
            None => Poll::Pending,
        }
    }
}

impl futures_io::AsyncWrite for PipeEnd {
    fn poll_write(
        self: Pin<&mut Self>,
        cx: &mut Context<'_>,
        data: &[u8],
    ) -> Poll<io::Result<usize>> {
        let mut wakers = Vec::new();
        let r = {
            let mut g = self.world.lock();
            let r = g.pipe_try_write(self.id, data, false, &mut wakers);
            if r.is_none() {
                g.pipes[self.id].write_waker = Some(cx.waker().clone());
            }
            r
        };
        for w in wakers {
            w.wake();
        }
        match r {
            Some(r) => Poll::Ready(r),
            None => Poll::Pending,
        }
    }

    fn poll_flush(self: Pin<&mut Self>, _cx: &mut Context<'_>) -> Poll<io::Result<()>> {
        Poll::Ready(Ok(()))
    }

    fn poll_close(self: Pin<&mut Self>, _cx: &mut Context<'_>) -> Poll<io::Result<()>> {
        let mut wakers = Vec::new();
        self.world
            .lock()
            .close_end(self.id, self.reader, &mut wakers);
        for w in wakers {
            w.wake();
        }
        Poll::Ready(Ok(()))
    }
}

// ---------------------------------------------------------------------------
// Futures for tasks

/// Completes after `ns` of simulated time.
pub struct Sleep {
    ns: u64,
    cell: Option<Arc<TimerCell>>,
}

pub fn sleep_ns(ns: u64) -> Sleep {
    Sleep { ns, cell: None }
}

impl Future for Sleep {
    type Output = ();
    fn poll(mut self: Pin<&mut Self>, cx: &mut Context<'_>) -> Poll<()> {
        if self.cell.is_none() {
            if self.ns == 0 {
                return Poll::Ready(());
            }
            let w = cur_world();
            self.cell = Some(w.add_waker_timer(self.ns));
        }
        let cell = self.cell.as_ref().unwrap();
        if cell.fired.load(Ordering::SeqCst) {
            Poll::Ready(())
        } else {
            *cell.waker.lock().unwrap() = Some(cx.waker().clone());
            Poll::Pending
        }
    }
}

impl Drop for Sleep {
    fn drop(&mut self) {
        if let Some(c) = &self.cell {
            c.cancelled.store(true, Ordering::SeqCst);
        }
    }
}

pub struct JoinThreads {
    world: Arc<World>,
    tids: Vec<usize>,
}

impl Future for JoinThreads {
    type Output = ();
    fn poll(self: Pin<&mut Self>, cx: &mut Context<'_>) -> Poll<()> {
        let mut g = self.world.lock();
        if self
            .tids
            .iter()
            .all(|t| g.threads[*t].state == ThState::Finished)
        {
            Poll::Ready(())
        } else {
            g.thread_exit_waker = Some(cx.waker().clone());
            Poll::Pending
        }
    }
}

/// Yield to the scheduler once.
pub struct YieldNow(bool);

pub fn yield_now() -> YieldNow {
    YieldNow(false)
}

impl Future for YieldNow {
    type Output = ();
    fn poll(mut self: Pin<&mut Self>, cx: &mut Context<'_>) -> Poll<()> {
        if self.0 {
            Poll::Ready(())
        } else {
            self.0 = true;
            cx.waker().wake_by_ref();
            Poll::Pending
        }
    }
}
