//! Copies cli/src/config.rs of the tree under verification into OUT_DIR with
//! every *path* that names the real file system or the real wall clock
//! re-routed to the simulator, so that an edit of config.rs that calls
//! `std::fs::rename(..)` or `std::fs::File::create(..)` by full path (instead
//! of through the imports the cfg hooks cover) still runs against the
//! simulated machine and not against the real disk.
//!
//! This is a textual rewrite of the harness's *copy* only; /repo is not touched.
use std::{env, fs, path::PathBuf};

fn main() {
    let manifest = PathBuf::from(env::var("CARGO_MANIFEST_DIR").unwrap());
    let src = manifest.join("../../work/repo/cli/src/config.rs");
    println!("cargo:rerun-if-changed={}", src.display());
    println!("cargo:rerun-if-changed=build.rs");
    let text = fs::read_to_string(&src).expect("read config.rs of the tree under verification");
    let mut out = String::new();
    // Path::exists() would ask the real disk.
    out.push_str("#[allow(unused_imports)]\nuse simkit::shim::fs::SimPathExt as _;\n");
    for line in text.lines() {
        let t = line.trim_start();
        // Lines of the guard-off twins are configured out anyway; leave them alone.
        let l = line
            .replace("std::fs::", "simkit::shim::fs::")
            .replace("std::time::SystemTime", "simkit::shim::time::SystemTime")
            .replace("std::time::UNIX_EPOCH", "simkit::shim::time::UNIX_EPOCH")
            .replace("std::env::temp_dir()", "tempfile::env_temp_dir()")
            .replace("std::thread::sleep", "simkit::shim::time::sleep");
        // println!/eprintln! go through the simulator: inside a simulated sandbox
        // child, stdout is the pipe that carries the frames.
        let l = reroute_print(&l)
            .replace("std::io::stderr()", "simkit::shim::child::stderr()")
            .replace("io::stderr()", "simkit::shim::child::stderr()")
            .replace(".try_exists()", ".sim_try_exists()")
            .replace(".exists()", ".sim_exists()")
            // (the first replacement leaves "child::stderr()", which the second one does not match)
            ;
        // `use std::fs;` / `use std::fs as x;` / `fs` inside a `use std::{..}` group
        let l = if t.starts_with("use std::fs;") || t.starts_with("use std::fs as ") {
            l.replace("use std::fs", "use simkit::shim::fs")
        } else {
            l
        };
        out.push_str(&l);
        out.push('\n');
    }
    let dst = PathBuf::from(env::var("OUT_DIR").unwrap()).join("config.rs");
    fs::write(dst, out).unwrap();
}

/// `println!(` -> `simkit::sim_println!(`, `eprintln!(` -> `simkit::sim_eprintln!(`
/// (whole macro names only).
fn reroute_print(line: &str) -> String {
    let mut out = String::new();
    let mut rest = line;
    while let Some(i) = rest.find("println!(") {
        let before = &rest[..i];
        let prev = before.chars().last();
        let is_e = prev == Some('e')
            && !before[..before.len() - 1]
                .chars()
                .last()
                .map(|c| c.is_alphanumeric() || c == '_')
                .unwrap_or(false);
        let ident_char = prev.map(|c| c.is_alphanumeric() || c == '_').unwrap_or(false);
        if is_e {
            out.push_str(&before[..before.len() - 1]);
            out.push_str("simkit::sim_eprintln!(");
        } else if ident_char {
            out.push_str(before);
            out.push_str("println!(");
        } else {
            out.push_str(before);
            out.push_str("simkit::sim_println!(");
        }
        rest = &rest[i + "println!(".len()..];
    }
    out.push_str(rest);
    out
}
