//! C20 — Currency cache is replaced atomically or not at all.
//!
//! Real code under simulation: cli/src/config.rs (load, force_refresh_currency,
//! load_live_currency, cached, read_if_current, download_to_file) and the
//! rink_core loader/evaluator. Stubs: std::fs, SystemTime, curl, tempfile, dirs.

use crate::config;
use serde::{Deserialize, Serialize};
use simkit::machine::{
    self as mach, Conc, CrashPoint, Disk, Errno, FsFault, Machine, OpKind, ProcState, Server, SimCrash,
};
use simkit::runner::{Budget, Harness, Outcome, Tier, Violation};
use simkit::{Chooser, Rng};
use std::collections::BTreeMap;
use std::path::PathBuf;
use std::time::Duration;

const T0_NS: u64 = 1_700_000_000_000_000_000;
const CACHE_PATH: &str = "/home/u/.cache/rink/currency.json";
const CACHE_DIR: &str = "/home/u/.cache/rink";

#[derive(Serialize, Deserialize, Clone, Debug, PartialEq)]
pub enum CacheState {
    Absent,
    /// Readable, version v, written 60 s ago.
    Fresh(u32),
    /// Readable, version v, written 2 h ago.
    Stale(u32),
    /// Readable, version v, mtime one hour in the future.
    Future(u32),
    FreshGarbage,
    StaleGarbage,
    StaleEmpty,
    /// A valid document cut after this permille of its length, written 2 h ago
    /// (what a torn write by something other than rink would leave).
    StaleTruncated(u32, u32),
    /// A valid document with one bit flipped at this permille of its length.
    StaleBitflip(u32, u32),
}

#[derive(Serialize, Deserialize, Clone, Debug, PartialEq)]
pub enum Entry {
    /// `load_live_currency`: what every start-up does for currency, without
    /// the definitions load.
    Startup,
    /// The whole `load(&config)` followed by queries on the context.
    StartupFull,
    /// `--fetch-currency`.
    Fetch,
    /// Start-up with `[limits] enabled = true` (`repl::interactive_sandboxed`):
    /// the process loads its own context, then starts the sandbox child, which
    /// loads the configuration again (`RinkService::create`) before it answers
    /// the handshake; two queries are then put through the sandbox.
    StartupSandboxed,
}

#[derive(Serialize, Deserialize, Clone, Debug, PartialEq)]
pub struct Cfg {
    pub enabled: bool,
    pub fetch_on_startup: bool,
    pub cache_duration_s: u64,
    pub timeout_ms: u64,
    pub no_cache_dir: bool,
}

#[derive(Serialize, Deserialize, Clone, Debug, PartialEq)]
pub struct ProcRun {
    /// Clock change before this run, seconds (may be negative).
    pub gap_s: i64,
    pub entry: Entry,
    pub server: Vec<Server>,
    pub faults: Vec<FsFault>,
    pub crash: Option<(u32, Option<u32>)>,
}

#[derive(Serialize, Deserialize, Clone, Debug, PartialEq)]
pub struct Scenario {
    pub initial: CacheState,
    pub cfg: Cfg,
    pub runs: Vec<ProcRun>,
    /// Sweep the crash point over every step of this run (index into `runs`).
    pub sweep_run: Option<usize>,
    /// Size class of the documents: 0 small, 1 ~7 KB, 2 ~40 KB.
    pub doc_size: u32,
    pub short_read_pct: u64,
    /// A second rink process on the same cache directory, running at the same
    /// time as one of `runs`.
    #[serde(default)]
    pub pair: Option<Pair>,
    /// stderr cannot be written (a full device, a pipe whose reader is gone):
    /// a diagnostic about a failed refresh must not be what stops rink.
    #[serde(default)]
    pub stderr_unwritable: bool,
}

#[derive(Serialize, Deserialize, Clone, Debug, PartialEq)]
pub struct Pair {
    /// Index into `runs` of the process this one runs concurrently with.
    pub with_run: usize,
    /// The second process (`gap_s` is ignored: both start at the same instant).
    pub b: ProcRun,
    /// Probability (percent) of a context switch before each step.
    pub switch_pct: u64,
}

// ----- documents -------------------------------------------------------------------

/// The USD rate that encodes a version: last digit odd, so the printed
/// number never loses trailing zeros.
fn rate_of(version: u32) -> String {
    format!("1.{:04}", 1001 + 2 * (version % 4000))
}

/// A currency document of version `v`: valid JSON in the format the endpoint serves.
pub fn document(v: u32, size_class: u32) -> Vec<u8> {
    // Lengths differ from version to version (in both directions), so that a
    // later document can be shorter than what an earlier, failed transfer left
    // behind somewhere.
    let pad = match size_class {
        0 => (v as usize * 37) % 150,
        1 => 4_000 + (v as usize * 1_231) % 4_000,
        _ => 30_000 + (v as usize * 7_919) % 20_000,
    };
    let filler: String = (0..pad).map(|i| (b'a' + ((i + v as usize) % 26) as u8) as char).collect();
    let s = format!(
        "[\n\t{{\n\t\t\"name\": \"USD\",\n\t\t\"doc\": \"version {v} {filler}\",\n\t\t\"category\": \"currencies\",\n\t\t\"type\": \"unit\",\n\t\t\"expr\": \"(1 / {rate}) EUR\"\n\t}},\n\t{{\n\t\t\"name\": \"JPY\",\n\t\t\"doc\": null,\n\t\t\"category\": \"currencies\",\n\t\t\"type\": \"unit\",\n\t\t\"expr\": \"(1 / 170.{v4:04}) EUR\"\n\t}}\n]\n",
        v = v,
        filler = filler,
        rate = rate_of(v),
        v4 = v % 10_000
    );
    s.into_bytes()
}

fn error_page(status: u32) -> Vec<u8> {
    // Some error pages are longer than a small document, some shorter.
    let filler = "<!-- padding -->".repeat(((status as usize) % 7) * 40);
    format!(
        "<html><head><title>{0}</title></head><body><h1>{0} error</h1><p>this is not currency data</p>{1}</body></html>\n",
        status, filler
    )
    .into_bytes()
}

const GARBAGE: &[u8] = b"{ this is not json ]]] \x00\x01";

/// A complete 200 response that is not currency data (a captive portal, a
/// misconfigured endpoint).
fn portal_page(k: u32) -> Vec<u8> {
    let filler = "<p>please log in to use this network</p>".repeat(1 + (k as usize % 5) * 30);
    format!("<!doctype html><html><body><h1>Welcome</h1>{}</body></html>\n", filler).into_bytes()
}

/// Body ids: < 100_000 are document versions; 100_000 + status are error
/// pages; >= 200_000 are non-currency pages served with status 200.
fn body_bytes(id: u32, size_class: u32) -> Vec<u8> {
    if id >= 200_000 {
        portal_page(id - 200_000)
    } else if id >= 100_000 {
        error_page(id - 100_000)
    } else {
        document(id, size_class)
    }
}

/// Every body id a scenario mentions (server scripts and the initial cache).
fn body_ids(sc: &Scenario) -> Vec<u32> {
    let mut ids = Vec::new();
    match &sc.initial {
        CacheState::Fresh(v)
        | CacheState::Stale(v)
        | CacheState::Future(v)
        | CacheState::StaleTruncated(v, _)
        | CacheState::StaleBitflip(v, _) => ids.push(*v),
        _ => {}
    }
    for r in sc.runs.iter().chain(sc.pair.iter().map(|p| &p.b)) {
        for s in &r.server {
            if let Server::Respond { body, .. } = s {
                ids.push(*body);
            }
        }
    }
    ids.sort();
    ids.dedup();
    ids
}

fn versions(sc: &Scenario) -> Vec<u32> {
    body_ids(sc).into_iter().filter(|b| *b < 100_000).collect()
}

fn portal_ids(sc: &Scenario) -> Vec<u32> {
    body_ids(sc).into_iter().filter(|b| *b >= 200_000).collect()
}

// ----- executing one history --------------------------------------------------------

#[derive(Clone, Debug)]
enum ProcResult {
    /// Startup: Ok(contents) / Err(text)
    Contents(Result<Vec<u8>, String>),
    /// StartupFull: Ok((unit answer, Option<USD answer>)) / Err
    Loaded(Result<(String, Result<String, String>), String>),
    /// Fetch: Ok(message) / Err
    Fetched(Result<String, String>),
    /// StartupSandboxed: Ok((unit answer, USD answer)) through the sandbox / Err
    Sandboxed(Result<(String, String), String>),
    Crashed,
    Hung,
    Panicked(String),
}

#[derive(Clone, Debug)]
struct RunObs {
    before: Option<Vec<u8>>,
    after: Option<Vec<u8>>,
    result: ProcResult,
    completed_200: Vec<u32>,
    cut_but_ok: Vec<(u32, u32)>,
    performed: u32,
    faults_fired_read_side: bool,
    faults_fired_write_side: bool,
    start_ns: u64,
    end_ns: u64,
    steps: Vec<(u32, OpKind, u32)>,
    leftover_temp_files: usize,
    /// Every distinct state of the cache path during this run, in order (the
    /// first is `before`): what a reader or a kill at that instant would find.
    seen: Vec<Option<Vec<u8>>>,
    /// The process that ran concurrently with this one, if any.
    partner: Option<Box<RunObs>>,
    faults_configured: bool,
    switches: u64,
}

struct HistoryOut {
    obs: Vec<RunObs>,
    digest: u64,
    choices: Vec<u32>,
    stats: BTreeMap<String, u64>,
    log: Vec<String>,
    real_decisions_nonzero: u64,
}

fn make_config(cfg: &Cfg) -> config::Config {
    let mut c = config::Config::default();
    c.currency.enabled = cfg.enabled;
    c.currency.fetch_on_startup = cfg.fetch_on_startup;
    c.currency.endpoint = "http://sim.invalid/data/currency.json".to_owned();
    c.currency.cache_duration = Duration::from_secs(cfg.cache_duration_s);
    c.currency.timeout = Duration::from_millis(cfg.timeout_ms);
    c
}

fn initial_disk(sc: &Scenario) -> Disk {
    let mut d = Disk::new();
    let p = PathBuf::from(CACHE_PATH);
    let hour = 3_600_000_000_000u64;
    match &sc.initial {
        CacheState::Absent => {}
        CacheState::Fresh(v) => d.put(&p, &document(*v, sc.doc_size), T0_NS - 60_000_000_000),
        CacheState::Stale(v) => d.put(&p, &document(*v, sc.doc_size), T0_NS - 2 * hour),
        CacheState::Future(v) => d.put(&p, &document(*v, sc.doc_size), T0_NS + hour),
        CacheState::FreshGarbage => d.put(&p, GARBAGE, T0_NS - 60_000_000_000),
        CacheState::StaleGarbage => d.put(&p, GARBAGE, T0_NS - 2 * hour),
        CacheState::StaleEmpty => d.put(&p, b"", T0_NS - 2 * hour),
        CacheState::StaleTruncated(v, pm) => {
            let doc = document(*v, sc.doc_size);
            let n = (doc.len() as u64 * (*pm as u64).min(999) / 1000) as usize;
            d.put(&p, &doc[..n.max(1)], T0_NS - 2 * hour)
        }
        CacheState::StaleBitflip(v, pm) => {
            let mut doc = document(*v, sc.doc_size);
            let i = ((doc.len() as u64 * (*pm as u64).min(999) / 1000) as usize).min(doc.len() - 1);
            doc[i] ^= 0x10;
            d.put(&p, &doc, T0_NS - 2 * hour)
        }
    }
    d
}

fn result_code(r: &ProcResult) -> u64 {
    match r {
        ProcResult::Contents(Ok(_)) => 1,
        ProcResult::Contents(Err(_)) => 2,
        ProcResult::Loaded(Ok(_)) => 3,
        ProcResult::Loaded(Err(_)) => 4,
        ProcResult::Fetched(Ok(_)) => 5,
        ProcResult::Fetched(Err(_)) => 6,
        ProcResult::Sandboxed(Ok(_)) => 10,
        ProcResult::Sandboxed(Err(_)) => 11,
        ProcResult::Crashed => 7,
        ProcResult::Hung => 8,
        ProcResult::Panicked(_) => 9,
    }
}

// ----- the sandboxed start-up ------------------------------------------------------

/// What `cli/src/service.rs` is to the sandbox: `create` loads the
/// configuration (and with it the currency cache) exactly as RinkService does,
/// `handle` evaluates one line.
struct SimRinkService {
    ctx: std::sync::Mutex<rink_core::Context>,
}

impl rink_sandbox::Service for SimRinkService {
    type Req = String;
    type Res = Result<String, String>;
    type Config = Cfg;

    fn program() -> Option<PathBuf> {
        Some("rink-service".into())
    }
    fn args(_config: &Cfg) -> Vec<std::ffi::OsString> {
        vec!["--service".into()]
    }
    fn create(config: Cfg) -> Result<Self, std::io::Error> {
        let ctx = config::load(&make_config(&config)).unwrap();
        Ok(SimRinkService {
            ctx: std::sync::Mutex::new(ctx),
        })
    }
    fn handle(&self, request: String) -> Result<String, String> {
        let mut ctx = self.ctx.lock().unwrap();
        rink_core::one_line(&mut ctx, &request)
    }
    fn timeout(_config: &Cfg) -> Duration {
        Duration::from_secs(10)
    }
}

/// The machine travels to the thread of whichever process needs it.
type MachineSlot = std::sync::Arc<std::sync::Mutex<Option<Machine>>>;

fn service_main(slot: MachineSlot) {
    struct GiveBack(MachineSlot);
    impl Drop for GiveBack {
        fn drop(&mut self) {
            if let Some(m) = mach::uninstall() {
                *self.0.lock().unwrap_or_else(|e| e.into_inner()) = Some(m);
            }
        }
    }
    let m = slot.lock().unwrap_or_else(|e| e.into_inner()).take();
    match m {
        Some(m) => {
            mach::install(m);
        }
        // No machine (a second child while the first still holds it): the
        // child cannot even read its configuration.
        None => return,
    }
    let _back = GiveBack(slot);
    let alloc = rink_sandbox::Alloc::new(usize::MAX);
    rink_sandbox::become_child::<SimRinkService, _>(&alloc);
}

/// The real parent.rs / child.rs / frame.rs between this process and a child
/// that runs the real `config::load` over the same simulated disk. The child's
/// stdout is the pipe that carries the frames, as in the real thing.
fn sandboxed_conversation(cfg: &Cfg) -> Result<(String, String), String> {
    use simkit::world::RunEnd;
    use simkit::{World, WorldCfg};
    // The fault plan and the kill point of this run are the parent's; the
    // child is another process.
    let (parent_steps, parent_faults, parent_counts) = mach::with(|m| {
        let f = std::mem::take(&mut m.faults);
        m.crash = None;
        m.event("sandbox_child_start", 0, 0);
        (m.trace.len(), f, m.op_counts.clone())
    });
    let machine = mach::uninstall().expect("machine");
    let slot: MachineSlot = std::sync::Arc::new(std::sync::Mutex::new(Some(machine)));
    let world = World::new(
        WorldCfg {
            step_cap: 400_000,
            ..WorldCfg::default()
        },
        Chooser::replay(Vec::new()),
    );
    let slot2 = slot.clone();
    world.register_program(
        "rink-service",
        std::sync::Arc::new(move |_args| service_main(slot2.clone())),
    );
    let cfg2 = cfg.clone();
    let main = async move {
        let sandbox = rink_sandbox::Sandbox::<SimRinkService>::new(cfg2)
            .await
            .map_err(|e| format!("Sandbox::new: {}", e))?;
        let mut answers = Vec::new();
        for q in ["3 foot -> meter", "1 EUR -> USD"] {
            match sandbox.execute(q.to_string()).await {
                Ok(resp) => answers.push(match resp.result {
                    Ok(s) => s,
                    Err(s) => format!("ERR {}", s),
                }),
                Err(e) => return Err(format!("`{}` through the sandbox: {}", q, e)),
            }
        }
        drop(sandbox);
        Ok((answers[0].clone(), answers[1].clone()))
    };
    let (report, out) = world.run(main);
    let machine = slot
        .lock()
        .unwrap_or_else(|e| e.into_inner())
        .take()
        .expect("the machine did not come back from the sandbox child");
    mach::install(machine);
    mach::with(|m| {
        // Kill-point sweeps address the parent's own steps only, and which of
        // its faults fired is judged on its own operations.
        m.trace.truncate(parent_steps);
        m.faults = parent_faults;
        m.op_counts = parent_counts;
        m.event("sandbox_conversation_end", report.steps, matches!(report.end, RunEnd::Completed) as u64);
        m.stat("sandboxed_startups");
    });
    match (report.end, out) {
        (RunEnd::Completed, Some(r)) => r,
        (end, _) => Err(format!(
            "the conversation with the sandbox child never finished ({:?}): the parent waits for a frame that does not come",
            end
        )),
    }
}

/// One process from its entry point to its end, on the current thread's machine.
fn run_entry(entry: Entry, cfg: &Cfg) -> ProcResult {
    let cfg2 = make_config(cfg);
    let cfg_copy = cfg.clone();
    let r = std::panic::catch_unwind(std::panic::AssertUnwindSafe(move || match entry {
        Entry::Startup => {
            if cfg2.currency.enabled {
                ProcResult::Contents(
                    config::h_load_live_currency(&cfg2.currency)
                        .map(|s| s.into_bytes())
                        .map_err(|e| format!("{:#}", e)),
                )
            } else {
                ProcResult::Contents(Err("currency disabled".into()))
            }
        }
        Entry::StartupFull => ProcResult::Loaded(match config::load(&cfg2) {
            Ok(mut ctx) => {
                let unit = rink_core::one_line(&mut ctx, "3 foot -> meter")
                    .unwrap_or_else(|e| format!("ERR {}", e));
                let usd = rink_core::one_line(&mut ctx, "1 EUR -> USD");
                Ok((unit, usd))
            }
            Err(e) => Err(format!("{:#}", e)),
        }),
        Entry::Fetch => ProcResult::Fetched(
            config::force_refresh_currency(&cfg2.currency).map_err(|e| format!("{:#}", e)),
        ),
        Entry::StartupSandboxed => match config::load(&cfg2) {
            // `interactive_sandboxed` loads a context of its own first
            Err(e) => ProcResult::Sandboxed(Err(format!("load() failed in the parent: {:#}", e))),
            Ok(_ctx) => ProcResult::Sandboxed(sandboxed_conversation(&cfg_copy)),
        },
    }));
    match r {
        Ok(v) => v,
        Err(p) => {
            if p.is::<SimCrash>() {
                if mach::with(|m| m.hung) {
                    ProcResult::Hung
                } else {
                    ProcResult::Crashed
                }
            } else if let Some(s) = p.downcast_ref::<String>() {
                ProcResult::Panicked(s.clone())
            } else if let Some(s) = p.downcast_ref::<&'static str>() {
                ProcResult::Panicked(s.to_string())
            } else {
                ProcResult::Panicked("<panic>".into())
            }
        }
    }
}

fn run_history(sc: &Scenario, chooser: Chooser, keep_log: bool) -> HistoryOut {
    let mut m = Machine::new(initial_disk(sc), T0_NS, chooser);
    m.keep_log = keep_log;
    m.short_read_pct = sc.short_read_pct;
    m.watch_path = Some(simkit::machine::norm(&PathBuf::from(CACHE_PATH)));
    m.stderr_broken = sc.stderr_unwritable;
    if sc.cfg.no_cache_dir {
        m.cache_dir = None;
    }
    // documents the server may serve
    for id in body_ids(sc) {
        m.bodies.insert(id, body_bytes(id, sc.doc_size));
    }
    let prev = mach::install(m);
    let mut obs = Vec::new();
    for run in &sc.runs {
        let (before, start_ns) = mach::with(|m| {
            m.new_process();
            m.clock_ns = (m.clock_ns as i128 + run.gap_s as i128 * 1_000_000_000).max(1) as u64;
            m.server = run.server.clone();
            m.faults = run.faults.clone();
            m.crash = run.crash.map(|(step, partial)| CrashPoint { step, partial });
            m.event("process_start", 0, 0);
            (
                m.disk.read(&PathBuf::from(CACHE_PATH)).map(|b| b.to_vec()),
                m.clock_ns,
            )
        });
        let pair_here = sc.pair.as_ref().filter(|p| p.with_run == obs.len());
        let (result, result_b) = match pair_here {
            None => (run_entry(run.entry.clone(), &sc.cfg), None),
            Some(p) => {
                mach::with(|m| {
                    m.conc = Some(Conc {
                        parked: ProcState {
                            faults: p.b.faults.clone(),
                            crash: p.b.crash.map(|(step, partial)| CrashPoint { step, partial }),
                            server: p.b.server.clone(),
                            ..Default::default()
                        },
                        current: 0,
                        finished: [false, false],
                        switch_pct: p.switch_pct,
                        switches: 0,
                    });
                    m.event("second_process_start", 0, 0);
                });
                let entry_b = p.b.entry.clone();
                let cfg_b = sc.cfg.clone();
                let hb = simkit::spawn_os_thread("process-b".into(), 16 << 20, move || {
                    mach::conc_wait_turn(1);
                    let r = run_entry(entry_b, &cfg_b);
                    mach::conc_finish(1);
                    r
                });
                let ra = run_entry(run.entry.clone(), &sc.cfg);
                mach::conc_finish(0);
                let rb = hb.join().expect("process b thread");
                (ra, Some(rb))
            }
        };
        let o = mach::with(|m| {
            let after = m.disk.read(&PathBuf::from(CACHE_PATH)).map(|b| b.to_vec());
            let mut h = simkit::rng::Fnv::default();
            h.bytes(after.as_deref().unwrap_or(b"<absent>"));
            m.event("process_end", result_code(&result), h.0);
            if let Some(rb) = &result_b {
                m.event("second_process_end", result_code(rb), h.0);
            }
            let leftovers = m
                .disk
                .list(&PathBuf::from(CACHE_DIR))
                .iter()
                .filter(|p| p.as_path() != PathBuf::from(CACHE_PATH).as_path())
                .count();
            let seen = m.watch_log.clone();
            let end_ns = m.clock_ns;
            let switches = m.conc.as_ref().map(|c| c.switches).unwrap_or(0);
            let mk = |result: ProcResult,
                      faults: &Vec<FsFault>,
                      op_counts: &BTreeMap<OpKind, u32>,
                      http: &simkit::machine::HttpStats,
                      trace: &Vec<(u32, OpKind, u32)>| {
                // a fault fired if its (op, nth) was reached
                let fired: Vec<OpKind> = faults
                    .iter()
                    .filter(|f| op_counts.get(&f.op).copied().unwrap_or(0) > f.nth)
                    .map(|f| f.op)
                    .collect();
                let read_side = fired
                    .iter()
                    .any(|k| matches!(k, OpKind::Open | OpKind::Read | OpKind::Metadata | OpKind::Seek));
                let write_side = fired.iter().any(|k| {
                    !matches!(k, OpKind::Open | OpKind::Read | OpKind::Metadata | OpKind::Seek)
                });
                RunObs {
                    before: before.clone(),
                    after: after.clone(),
                    result,
                    completed_200: http.completed_200_bodies.clone(),
                    cut_but_ok: http.cut_but_ok_200.clone(),
                    performed: http.performed,
                    faults_fired_read_side: read_side,
                    faults_fired_write_side: write_side,
                    start_ns,
                    end_ns,
                    steps: trace.clone(),
                    leftover_temp_files: leftovers,
                    seen: seen.clone(),
                    partner: None,
                    faults_configured: !faults.is_empty(),
                    switches,
                }
            };
            let mut oa = mk(result.clone(), &m.faults, &m.op_counts, &m.http, &m.trace);
            if let (Some(rb), Some(c)) = (&result_b, m.conc.as_ref()) {
                let p = &c.parked;
                oa.partner = Some(Box::new(mk(rb.clone(), &p.faults, &p.op_counts, &p.http, &p.trace)));
            }
            oa
        });
        obs.push(o);
    }
    let m = mach::uninstall().unwrap();
    if let Some(p) = prev {
        mach::install(p);
    }
    HistoryOut {
        obs,
        digest: m.digest.0,
        choices: m.chooser.record.clone(),
        stats: m.stats.iter().map(|(k, v)| (k.to_string(), *v)).collect(),
        log: m.log,
        real_decisions_nonzero: m.chooser.nonzero,
    }
}

// ----- oracle --------------------------------------------------------------------

fn describe(b: &Option<Vec<u8>>, sc: &Scenario) -> String {
    match b {
        None => "<absent>".into(),
        Some(x) => {
            if x.as_slice() == GARBAGE {
                return "<the unreadable file that was there>".into();
            }
            for v in versions(sc) {
                if *x == document(v, sc.doc_size) {
                    return format!("<complete document v{}>", v);
                }
            }
            for id in portal_ids(sc) {
                if *x == body_bytes(id, sc.doc_size) {
                    return format!("<complete non-currency page {} served with status 200>", id);
                }
            }
            for v in versions(sc) {
                let d = document(v, sc.doc_size);
                if !x.is_empty() && x.len() < d.len() && d[..x.len()] == x[..] {
                    return format!("<PREFIX of document v{}: {} of {} bytes>", v, x.len(), d.len());
                }
            }
            if x.is_empty() {
                return "<empty file>".into();
            }
            format!(
                "<{} bytes starting {:?}>",
                x.len(),
                String::from_utf8_lossy(&x[..x.len().min(40)])
            )
        }
    }
}

/// Bodies that may legitimately be installed because of what this process
/// received: every completed 200 body, and a close-delimited body that lost
/// nothing but trailing white space (still the complete document; a tree that
/// checks the document before installing it will, rightly, install it).
fn acceptable_of(sc: &Scenario, o: &RunObs) -> Vec<Vec<u8>> {
    let mut acceptable: Vec<Vec<u8>> = o
        .completed_200
        .iter()
        .map(|b| body_bytes(*b, sc.doc_size))
        .collect();
    for (b, n) in &o.cut_but_ok {
        let full = body_bytes(*b, sc.doc_size);
        let got = &full[..(*n as usize).min(full.len())];
        if full[got.len()..].iter().all(|c| c.is_ascii_whitespace()) && !got.is_empty() {
            acceptable.push(got.to_vec());
        }
    }
    acceptable
}

/// O1 at every instant: each state the cache path went through during the run
/// is the previous contents or a complete new body.
fn seen_violation(sc: &Scenario, tag: &str, o: &RunObs, acceptable: &[Vec<u8>]) -> Option<Violation> {
    for (k, st) in o.seen.iter().enumerate() {
        let ok = *st == o.before || st.as_ref().map(|a| acceptable.iter().any(|n| n == a)).unwrap_or(false);
        if !ok {
            return Some(Violation {
                clause: "cache-not-atomic".into(),
                detail: format!(
                    "{}: while the run was under way (state #{} of the cache path) the cache file was {}; before the run it was {}; a reader, or a kill, at that instant finds neither the previous nor a complete new file",
                    tag,
                    k,
                    describe(st, sc),
                    describe(&o.before, sc)
                ),
            });
        }
    }
    None
}

/// Two processes at once: only what the property states for any circumstances
/// is demanded - the file is always the previous or a complete new one, what a
/// process uses is one of those, a readable cache is fallen back to, and a
/// refresh that reported success leaves a complete new file.
fn oracle_pair(sc: &Scenario, ri: usize, a: &RunObs, b: &RunObs) -> Option<Violation> {
    let pair = sc.pair.as_ref().unwrap();
    let tag = format!(
        "process run #{} ({:?}) together with a second process ({:?}), {} context switches",
        ri, sc.runs[ri].entry, pair.b.entry, a.switches
    );
    let mut acceptable = acceptable_of(sc, a);
    acceptable.extend(acceptable_of(sc, b));
    let after_ok =
        a.after == a.before || a.after.as_ref().map(|x| acceptable.iter().any(|n| n == x)).unwrap_or(false);
    if !after_ok {
        return Some(Violation {
            clause: "cache-not-atomic".into(),
            detail: format!(
                "{}: cache file was {} before, is {} after both ended; completed 200 bodies: {:?} and {:?}",
                tag,
                describe(&a.before, sc),
                describe(&a.after, sc),
                a.completed_200,
                b.completed_200
            ),
        });
    }
    if let Some(v) = seen_violation(sc, &tag, a, &acceptable) {
        return Some(v);
    }
    let readable = a
        .before
        .as_ref()
        .map(|x| versions(sc).into_iter().any(|v| *x == document(v, sc.doc_size)))
        .unwrap_or(false);
    let mut some_refresh_succeeded = false;
    for (who, o) in [("first", a), ("second", b)] {
        match &o.result {
            ProcResult::Panicked(m) => {
                return Some(Violation {
                    clause: "panic".into(),
                    detail: format!("{}: the {} process panicked: {}", tag, who, m),
                })
            }
            ProcResult::Hung => {
                return Some(Violation {
                    clause: "hang".into(),
                    detail: format!("{}: the {} process never finishes (a transfer that stalled with no timeout to bound it, or a wait for a lock nobody releases)", tag, who),
                })
            }
            ProcResult::Crashed => continue,
            _ => {}
        }
        let clean = !o.faults_configured;
        match &o.result {
            ProcResult::Contents(Ok(c)) if sc.cfg.enabled => {
                if !(a.before.as_ref() == Some(c) || acceptable.iter().any(|n| n == c)) {
                    return Some(Violation {
                        clause: "served-wrong-contents".into(),
                        detail: format!(
                            "{}: the {} process obtained {} as currency data; cache before: {}, completed 200 bodies: {:?} and {:?}",
                            tag,
                            who,
                            describe(&Some(c.clone()), sc),
                            describe(&a.before, sc),
                            a.completed_200,
                            b.completed_200
                        ),
                    });
                }
            }
            ProcResult::Contents(Err(e)) if sc.cfg.enabled => {
                if readable && clean && !sc.cfg.no_cache_dir {
                    return Some(Violation {
                        clause: "no-stale-fallback".into(),
                        detail: format!(
                            "{}: a cache file existed ({}) but the {} process got no currency data: {}",
                            tag,
                            describe(&a.before, sc),
                            who,
                            e
                        ),
                    });
                }
            }
            ProcResult::Loaded(Err(e)) => {
                return Some(Violation {
                    clause: "does-not-start".into(),
                    detail: format!("{}: load() failed in the {} process: {}", tag, who, e),
                })
            }
            ProcResult::Loaded(Ok((unit, _))) => {
                if !unit.contains("0.9144") {
                    return Some(Violation {
                        clause: "does-not-start".into(),
                        detail: format!("{}: `3 foot -> meter` answered {:?} in the {} process", tag, unit, who),
                    });
                }
            }
            // The only refresh that is known to have succeeded is one that says
            // so. With a second process about, a transfer that completed is not
            // enough: the other process may legitimately get in the way of what
            // follows (a tree that sweeps old temp files, say), and then this is
            // a failed refresh, of which the property asks only that rink still
            // starts and falls back.
            ProcResult::Fetched(Ok(_)) => {
                some_refresh_succeeded = true;
            }
            _ => {}
        }
    }
    if some_refresh_succeeded {
        let ok = a.after.as_ref().map(|x| acceptable.iter().any(|n| n == x)).unwrap_or(false);
        if !ok {
            return Some(Violation {
                clause: "fetch-reported-success-without-new-cache".into(),
                detail: format!(
                    "{}: --fetch-currency reported success, but the cache holds {} and not a new document",
                    tag,
                    describe(&a.after, sc)
                ),
            });
        }
    }
    None
}

fn oracle(sc: &Scenario, obs: &[RunObs]) -> Option<Violation> {
    for (ri, o) in obs.iter().enumerate() {
        let run = &sc.runs[ri];
        if let Some(b) = &o.partner {
            if let Some(v) = oracle_pair(sc, ri, o, b) {
                return Some(v);
            }
            continue;
        }
        let tag = format!(
            "process run #{} ({:?}{})",
            ri,
            run.entry,
            match run.crash {
                Some((s, None)) => format!(", killed before step {}", s),
                Some((s, Some(p))) => format!(", killed inside step {} after {}‰ of the write", s, p),
                None => String::new(),
            }
        );
        let new_bodies: Vec<Vec<u8>> = o
            .completed_200
            .iter()
            .map(|b| body_bytes(*b, sc.doc_size))
            .collect();
        // A close-delimited body that lost nothing but trailing white space is
        // still the complete document (a tree that checks the document before
        // installing it will, rightly, install it).
        let acceptable: Vec<Vec<u8>> = acceptable_of(sc, o);
        // O1 atomic replacement
        let after_ok = o.after == o.before
            || o
                .after
                .as_ref()
                .map(|a| acceptable.iter().any(|n| n == a))
                .unwrap_or(false);
        if !after_ok {
            return Some(Violation {
                clause: "cache-not-atomic".into(),
                detail: format!(
                    "{}: cache file was {} before, is {} afterwards; bodies of 200 responses that completed in this run: {:?}",
                    tag,
                    describe(&o.before, sc),
                    describe(&o.after, sc),
                    o.completed_200
                ),
            });
        }
        if let Some(v) = seen_violation(sc, &tag, o, &acceptable) {
            return Some(v);
        }
        // panics and hangs
        match &o.result {
            ProcResult::Panicked(m) => {
                return Some(Violation {
                    clause: "panic".into(),
                    detail: format!("{}: rink panicked: {}", tag, m),
                })
            }
            ProcResult::Hung => {
                return Some(Violation {
                    clause: "hang".into(),
                    detail: format!("{}: rink never finishes (a transfer that stalled with no timeout to bound it, or a wait for a lock nobody releases)", tag),
                })
            }
            _ => {}
        }
        // O5 termination, generously: the property promises that rink still starts,
        // not a deadline; what must not happen is a start-up that waits far beyond
        // the configured transfer timeout (a transfer without any timeout is
        // reported as "hang" above).
        let budget = (o.performed as u64 + 1) * sc.cfg.timeout_ms * 1_000_000 + 30_000_000_000;
        if o.end_ns.saturating_sub(o.start_ns) > budget && !matches!(o.result, ProcResult::Crashed) {
            return Some(Violation {
                clause: "slow-start".into(),
                detail: format!(
                    "{}: took {} ms of simulated time with a {} ms transfer timeout",
                    tag,
                    (o.end_ns - o.start_ns) / 1_000_000,
                    sc.cfg.timeout_ms
                ),
            });
        }
        if matches!(o.result, ProcResult::Crashed) {
            continue;
        }
        // The newest completed 200 body - but only if it is currency data: a tree
        // may (or may not) refuse to install a 200 response that is something else.
        let newest = match o.completed_200.last() {
            Some(id) if *id < 100_000 => new_bodies.last().cloned(),
            _ => None,
        };
        let clean = !o.faults_fired_read_side && !o.faults_fired_write_side;
        // O4': a refresh that completed with no local error must be persisted
        if let (Some(n), true) = (&newest, clean) {
            if o.after.as_ref() != Some(n) && !sc.cfg.no_cache_dir {
                return Some(Violation {
                    clause: "refresh-not-persisted".into(),
                    detail: format!(
                        "{}: a 200 response completed and nothing failed locally, but the cache holds {} instead of the new document",
                        tag,
                        describe(&o.after, sc)
                    ),
                });
            }
        }
        match &o.result {
            ProcResult::Contents(r) => {
                if !sc.cfg.enabled {
                    continue;
                }
                match r {
                    Ok(c) => {
                        let allowed = o.before.as_ref() == Some(c) || acceptable.iter().any(|n| n == c);
                        if !allowed {
                            return Some(Violation {
                                clause: "served-wrong-contents".into(),
                                detail: format!(
                                    "{}: start-up obtained {} as currency data; cache before: {}, completed 200 bodies: {:?}",
                                    tag,
                                    describe(&Some(c.clone()), sc),
                                    describe(&o.before, sc),
                                    o.completed_200
                                ),
                            });
                        }
                        if let (Some(n), true) = (&newest, clean) {
                            if c != n {
                                return Some(Violation {
                                    clause: "refresh-not-visible".into(),
                                    detail: format!(
                                        "{}: the refresh succeeded but start-up used {}",
                                        tag,
                                        describe(&Some(c.clone()), sc)
                                    ),
                                });
                            }
                        }
                    }
                    Err(e) => {
                        // Failing is only legitimate when there is nothing readable to
                        // fall back to (an unreadable cache may be refused: then only
                        // "still starts" applies).
                        let readable = o
                            .before
                            .as_ref()
                            .map(|b| versions(sc).into_iter().any(|v| *b == document(v, sc.doc_size)))
                            .unwrap_or(false);
                        if readable && !o.faults_fired_read_side && !sc.cfg.no_cache_dir {
                            return Some(Violation {
                                clause: "no-stale-fallback".into(),
                                detail: format!(
                                    "{}: a cache file existed ({}) but start-up got no currency data: {}",
                                    tag,
                                    describe(&o.before, sc),
                                    e
                                ),
                            });
                        }
                        if newest.is_some() && clean && !sc.cfg.no_cache_dir {
                            return Some(Violation {
                                clause: "refresh-not-visible".into(),
                                detail: format!("{}: the refresh succeeded but start-up failed: {}", tag, e),
                            });
                        }
                    }
                }
            }
            ProcResult::Loaded(r) => match r {
                Err(e) => {
                    return Some(Violation {
                        clause: "does-not-start".into(),
                        detail: format!("{}: load() failed: {}", tag, e),
                    })
                }
                Ok((unit, usd)) => {
                    if !unit.contains("0.9144") {
                        return Some(Violation {
                            clause: "does-not-start".into(),
                            detail: format!("{}: `3 foot -> meter` answered {:?}", tag, unit),
                        });
                    }
                    if !sc.cfg.enabled || sc.cfg.no_cache_dir {
                        continue;
                    }
                    // Which version must the context hold?
                    let version_of =
                        |bytes: &Vec<u8>| versions(sc).into_iter().find(|v| *bytes == document(*v, sc.doc_size));
                    let expect: Option<u32> = if let (Some(n), true) = (&newest, clean) {
                        version_of(n)
                    } else if !o.faults_fired_read_side {
                        // falls back to (or simply uses) what was there, if readable
                        // (a close-delimited body that lost only trailing white
                        // space is a complete document and may have been installed)
                        match (&o.before, acceptable.is_empty()) {
                            // nothing new arrived: what was there must be used
                            (Some(b), true) => version_of(b),
                            // a 200 response completed (currency data or not) and may
                            // have been installed: either is acceptable; not pinned
                            _ => None,
                        }
                    } else {
                        None
                    };
                    if let Some(v) = expect {
                        let want = rate_of(v);
                        let ok = usd.as_ref().map(|s| s.contains(&want)).unwrap_or(false);
                        if !ok {
                            return Some(Violation {
                                clause: if newest.is_some() {
                                    "refresh-not-visible".into()
                                } else {
                                    "no-stale-fallback".into()
                                },
                                detail: format!(
                                    "{}: the context should hold currency version {} (1 EUR = {} USD) but `1 EUR -> USD` answered {:?}",
                                    tag, v, want, usd
                                ),
                            });
                        }
                    }
                }
            },
            ProcResult::Fetched(r) => match r {
                Ok(_) => {
                    let ok = o
                        .after
                        .as_ref()
                        .map(|a| acceptable.iter().any(|n| n == a))
                        .unwrap_or(false);
                    if !ok {
                        return Some(Violation {
                            clause: "fetch-reported-success-without-new-cache".into(),
                            detail: format!(
                                "{}: --fetch-currency reported success but the cache holds {}",
                                tag,
                                describe(&o.after, sc)
                            ),
                        });
                    }
                }
                Err(e) => {
                    if newest.is_some() && clean && !sc.cfg.no_cache_dir {
                        return Some(Violation {
                            clause: "refresh-not-persisted".into(),
                            detail: format!("{}: the transfer completed but --fetch-currency failed: {}", tag, e),
                        });
                    }
                }
            },
            // "Rink still starts ... and answers non-currency queries", with
            // sandboxing enabled too.
            ProcResult::Sandboxed(r) => match r {
                Err(e) => {
                    return Some(Violation {
                        clause: "does-not-start".into(),
                        detail: format!("{}: with `[limits] enabled = true` rink does not get as far as answering a query: {}", tag, e),
                    })
                }
                Ok((unit, _usd)) => {
                    if !unit.contains("0.9144") {
                        return Some(Violation {
                            clause: "does-not-start".into(),
                            detail: format!("{}: `3 foot -> meter` through the sandbox answered {:?}", tag, unit),
                        });
                    }
                }
            },
            _ => {}
        }
    }
    None
}

// ----- harness -------------------------------------------------------------------

pub struct C20;

fn gen_server(rng: &mut Rng, version: u32, doc_len: u32) -> Server {
    let latency = *rng.pick(&[100_000u64, 1_000_000, 3_000_000]);
    let max_chunk = *rng.pick(&[16384u32, 16384, 4096, 1400, 100]);
    match rng.below(12) {
        0 | 1 | 2 | 3 => Server::Respond {
            status: 200,
            body: version,
            content_length: rng.chance(3, 4),
            cut_after: None,
            reset: false,
            stall_after: None,
            latency_ns: latency,
            max_chunk,
        },
        4 => Server::Respond {
            // Truncated body, orderly close. With a Content-Length libcurl reports
            // error 18; without one (a close-delimited body, or a connection closed
            // inside the response headers: cut after 0 bytes) it reports success
            // with the prefix delivered - observed with real libcurl 7.88.1
            // (hunts/c20: `repro.sh close/3000`, `repro.sh hdrcut/30`).
            status: 200,
            body: version,
            content_length: rng.chance(1, 2),
            cut_after: Some(if rng.chance(1, 6) { 0 } else { rng.below(doc_len as u64) as u32 }),
            reset: false,
            stall_after: None,
            latency_ns: latency,
            max_chunk,
        },
        5 => Server::Respond {
            // connection reset mid-body
            status: 200,
            body: version,
            content_length: rng.chance(1, 2),
            cut_after: Some(rng.below(doc_len as u64) as u32),
            reset: true,
            stall_after: None,
            latency_ns: latency,
            max_chunk,
        },
        6 => Server::Respond {
            // stall mid-body past the timeout
            status: 200,
            body: version,
            content_length: true,
            cut_after: None,
            reset: false,
            stall_after: Some(rng.below(doc_len as u64) as u32),
            latency_ns: latency,
            max_chunk,
        },
        7 | 8 => {
            let st = *rng.pick(&[301u32, 302, 304, 400, 403, 404, 429, 500, 502, 503]);
            Server::Respond {
                status: st,
                body: 100_000 + st,
                content_length: true,
                cut_after: None,
                reset: false,
                stall_after: None,
                latency_ns: latency,
                max_chunk,
            }
        }
        9 => {
            if rng.chance(1, 2) {
                Server::Stall
            } else {
                // status 200, complete, but not currency data
                Server::Respond {
                    status: 200,
                    body: 200_000 + rng.below(5) as u32,
                    content_length: rng.chance(1, 2),
                    cut_after: None,
                    reset: false,
                    stall_after: None,
                    latency_ns: latency,
                    max_chunk,
                }
            }
        }
        10 => Server::Refuse,
        _ => {
            if rng.chance(1, 2) {
                Server::DnsFail
            } else {
                // a non-200 status carrying what looks like a real document
                Server::Respond {
                    status: *rng.pick(&[203u32, 206, 500]),
                    body: version,
                    content_length: true,
                    cut_after: None,
                    reset: false,
                    stall_after: None,
                    latency_ns: latency,
                    max_chunk,
                }
            }
        }
    }
}

fn gen_fault(rng: &mut Rng) -> FsFault {
    let (op, errs): (OpKind, &[Errno]) = match rng.below(9) {
        0 => (OpKind::CreateDirAll, &[Errno::EACCES, Errno::EROFS, Errno::ENOSPC]),
        1 => (OpKind::CreateTemp, &[Errno::EACCES, Errno::ENOSPC, Errno::EROFS, Errno::EMFILE]),
        2 | 3 => (
            OpKind::Write,
            &[Errno::ENOSPC, Errno::EIO, Errno::ShortWrite, Errno::EINTR, Errno::EDQUOT],
        ),
        4 => (OpKind::SyncAll, &[Errno::EIO, Errno::ENOSPC]),
        5 => (OpKind::Rename, &[Errno::EXDEV, Errno::EACCES, Errno::EIO]),
        6 => (OpKind::Open, &[Errno::EACCES, Errno::EMFILE]),
        7 => (OpKind::TryClone, &[Errno::EMFILE]),
        _ => (OpKind::Metadata, &[Errno::EIO]),
    };
    FsFault {
        op,
        nth: if op == OpKind::Write { rng.below(4) as u32 } else { rng.below(2) as u32 },
        err: *rng.pick(errs),
    }
}

impl Harness for C20 {
    type Scenario = Scenario;

    fn property(&self) -> &'static str {
        "C20"
    }

    fn level(&self) -> &'static str {
        "fault_enumeration"
    }

    fn budget(&self, tier: Tier) -> Budget {
        match tier {
            Tier::Quick => Budget {
                runs: 40_000,
                soft_s: 70,
            },
            Tier::Thorough => Budget {
                runs: 1_000_000,
                soft_s: 900,
            },
        }
    }

    fn generate(&self, rng: &mut Rng, _tier: Tier, _index: u64) -> Scenario {
        let v0 = rng.below(8) as u32;
        let initial = match rng.below(11) {
            9 => CacheState::StaleTruncated(v0, 1 + rng.below(998) as u32),
            10 => CacheState::StaleBitflip(v0, rng.below(999) as u32),
            0 | 1 => CacheState::Absent,
            2 => CacheState::Fresh(v0),
            3 | 4 => CacheState::Stale(v0),
            5 => CacheState::Future(v0),
            6 => CacheState::FreshGarbage,
            7 => CacheState::StaleGarbage,
            _ => CacheState::StaleEmpty,
        };
        let cfg = Cfg {
            enabled: !rng.chance(1, 16),
            fetch_on_startup: !rng.chance(1, 6),
            cache_duration_s: *rng.pick(&[0u64, 3600, 3600]),
            timeout_ms: *rng.pick(&[5u64, 2000]),
            no_cache_dir: rng.chance(1, 40),
        };
        let doc_size = *rng.pick(&[0u32, 0, 1, 1, 2]);
        let doc_len = document(9, doc_size).len() as u32;
        // The full load() costs ~40 ms: one history in eight uses it.
        let full = rng.chance(1, 8);
        let nruns = 1 + rng.below(4) as usize;
        let mut runs = Vec::new();
        let mut version = 10 + rng.below(8) as u32;
        for i in 0..nruns {
            // The endpoint changes once an hour: one run in three is served the
            // document the previous run was (or should have been) served.
            if i == 0 || !rng.chance(1, 3) {
                version += 1;
            }
            let entry = if full && (i == 0 || rng.chance(1, 3)) {
                if rng.chance(1, 3) {
                    Entry::StartupSandboxed
                } else {
                    Entry::StartupFull
                }
            } else if rng.chance(1, 3) {
                Entry::Fetch
            } else {
                Entry::Startup
            };
            let mut server = vec![gen_server(rng, version, doc_len)];
            if rng.chance(1, 8) {
                version += 1;
                server.push(gen_server(rng, version, doc_len));
            }
            let mut faults = Vec::new();
            if rng.chance(1, 4) {
                faults.push(gen_fault(rng));
                if rng.chance(1, 4) {
                    faults.push(gen_fault(rng));
                }
            }
            runs.push(ProcRun {
                gap_s: *rng.pick(&[1i64, 60, 3000, 4000, 86_400, -7200, 0]),
                entry,
                server,
                faults,
                crash: None,
            });
        }
        // A follow-up start with the server down, soon after: shows what the
        // previous run left behind to the next start.
        if rng.chance(1, 2) {
            runs.push(ProcRun {
                gap_s: *rng.pick(&[1i64, 60, 4000]),
                entry: if full && rng.chance(1, 2) {
                    Entry::StartupFull
                } else {
                    Entry::Startup
                },
                server: vec![if rng.chance(1, 2) { Server::Refuse } else { Server::Stall }],
                faults: Vec::new(),
                crash: None,
            });
        }
        // Crash-point sweep over one of the runs that talk to the server.
        let sweep_run = if rng.chance(3, 4) {
            let cands: Vec<usize> = (0..runs.len()).collect();
            Some(*rng.pick(&cands))
        } else {
            None
        };
        let short_read_pct = *rng.pick(&[0u64, 0, 20]);
        // One history in six has a second rink process on the same cache
        // directory at the same time as one of the runs.
        let pair = if rng.chance(1, 6) {
            let with_run = rng.below(runs.len() as u64) as usize;
            if runs[with_run].entry == Entry::StartupSandboxed {
                // one thing at a time: the sandboxed start-up has a child of its own
                runs[with_run].entry = Entry::StartupFull;
            }
            version += 1;
            let entry = if full && rng.chance(1, 4) {
                Entry::StartupFull
            } else if rng.chance(1, 2) {
                Entry::Fetch
            } else {
                Entry::Startup
            };
            let mut faults = Vec::new();
            if rng.chance(1, 6) {
                faults.push(gen_fault(rng));
            }
            let crash = if rng.chance(1, 8) {
                Some((
                    rng.below(14) as u32,
                    if rng.chance(1, 2) { Some(*rng.pick(&[1u32, 500, 999])) } else { None },
                ))
            } else {
                None
            };
            Some(Pair {
                with_run,
                b: ProcRun {
                    gap_s: 0,
                    entry,
                    server: vec![gen_server(rng, version, doc_len)],
                    faults,
                    crash,
                },
                switch_pct: *rng.pick(&[3u64, 15, 15, 50]),
            })
        } else {
            None
        };
        Scenario {
            initial,
            cfg,
            runs,
            sweep_run,
            doc_size,
            short_read_pct,
            pair,
            stderr_unwritable: rng.chance(1, 12),
        }
    }

    fn execute(&self, sc: &Scenario, chooser: Chooser, keep_log: bool) -> Outcome {
        let mut base_sc = sc.clone();
        base_sc.sweep_run = None;
        let base = run_history(&base_sc, chooser, keep_log);
        let mut stats = base.stats.clone();
        let bump = |stats: &mut BTreeMap<String, u64>, k: &str, n: u64| {
            if n > 0 {
                *stats.entry(k.to_string()).or_insert(0) += n;
            }
        };
        let mut violation = oracle(&base_sc, &base.obs);
        let mut digest = base.digest;
        let mut variants = 0u64;
        let mut history: Vec<String> = Vec::new();
        history.push(format!(
            "initial cache: {:?}; config: {:?}{}",
            sc.initial,
            sc.cfg,
            if sc.stderr_unwritable { "; stderr cannot be written" } else { "" }
        ));
        for (ri, o) in base.obs.iter().enumerate() {
            history.push(format!(
                "run #{} gap={}s {:?} server={:?} faults={:?} crash={:?} -> {} ; cache {} -> {} ; {} steps, {} transfer(s), completed 200 bodies {:?}",
                ri,
                sc.runs[ri].gap_s,
                sc.runs[ri].entry,
                sc.runs[ri].server,
                sc.runs[ri].faults,
                sc.runs[ri].crash,
                match &o.result {
                    ProcResult::Contents(Ok(c)) => format!("Ok(contents {})", describe(&Some(c.clone()), sc)),
                    ProcResult::Contents(Err(e)) => format!("Err({})", e.lines().next().unwrap_or("")),
                    ProcResult::Loaded(Ok((u, usd))) => format!("Ok(ctx: {:?}, {:?})", u, usd),
                    ProcResult::Loaded(Err(e)) => format!("Err({})", e),
                    ProcResult::Fetched(Ok(m)) => format!("Ok({})", m.split(" after ").next().unwrap_or("")),
                    ProcResult::Fetched(Err(e)) => format!("Err({})", e.lines().next().unwrap_or("")),
                    ProcResult::Sandboxed(r) => format!("sandboxed {:?}", r),
                    ProcResult::Crashed => "KILLED".into(),
                    ProcResult::Hung => "HUNG".into(),
                    ProcResult::Panicked(m) => format!("PANIC {}", m),
                },
                describe(&o.before, sc),
                describe(&o.after, sc),
                o.steps.len(),
                o.performed,
                o.completed_200,
            ));
            if let (Some(b), Some(p)) = (&o.partner, &sc.pair) {
                history.push(format!(
                    "   at the same time, a second process: {:?} server={:?} faults={:?} crash={:?} -> {} ; {} steps, {} transfer(s), completed 200 bodies {:?}; {} context switches; the cache path went through {} states",
                    p.b.entry,
                    p.b.server,
                    p.b.faults,
                    p.b.crash,
                    match &b.result {
                        ProcResult::Contents(Ok(c)) => format!("Ok(contents {})", describe(&Some(c.clone()), sc)),
                        ProcResult::Contents(Err(e)) => format!("Err({})", e.lines().next().unwrap_or("")),
                        ProcResult::Loaded(Ok((u, usd))) => format!("Ok(ctx: {:?}, {:?})", u, usd),
                        ProcResult::Loaded(Err(e)) => format!("Err({})", e),
                        ProcResult::Fetched(Ok(m)) => format!("Ok({})", m.split(" after ").next().unwrap_or("")),
                        ProcResult::Fetched(Err(e)) => format!("Err({})", e.lines().next().unwrap_or("")),
                        ProcResult::Sandboxed(r) => format!("sandboxed {:?}", r),
                        ProcResult::Crashed => "KILLED".into(),
                        ProcResult::Hung => "HUNG".into(),
                        ProcResult::Panicked(m) => format!("PANIC {}", m),
                    },
                    b.steps.len(),
                    b.performed,
                    b.completed_200,
                    o.switches,
                    o.seen.len(),
                ));
                bump(&mut stats, "two_process_runs", 1);
                bump(&mut stats, "process_runs", 1);
                if o.performed > 0 && b.performed > 0 {
                    bump(&mut stats, "both_processes_transferred", 1);
                }
                if matches!(b.result, ProcResult::Crashed) || matches!(o.result, ProcResult::Crashed) {
                    bump(&mut stats, "two_process_run_with_kill", 1);
                }
            }
            if o.seen.len() >= 3 {
                bump(&mut stats, "cache_replaced_twice_in_one_run", 1);
            }
            bump(&mut stats, "process_runs", 1);
            match sc.runs[ri].entry {
                Entry::Startup => bump(&mut stats, "entry_startup", 1),
                Entry::StartupFull => bump(&mut stats, "entry_startup_full_load", 1),
                Entry::Fetch => bump(&mut stats, "entry_fetch_currency", 1),
                Entry::StartupSandboxed => bump(&mut stats, "entry_startup_sandboxed", 1),
            }
            if o.after != o.before {
                bump(&mut stats, "cache_replaced", 1);
            }
            if o.leftover_temp_files > 0 {
                bump(&mut stats, "leftover_temp_files_seen", 1);
            }
            if matches!(o.result, ProcResult::Contents(Ok(_))) && o.completed_200.is_empty() && o.performed > 0 {
                bump(&mut stats, "stale_fallback_taken", 1);
            }
        }
        if violation.is_none() {
            if let Some(r) = sc.sweep_run {
                if r < base.obs.len() && sc.runs[r].crash.is_none() {
                    let all_steps = base.obs[r].steps.clone();
                    // Long transfers (hundreds of chunks) are thinned: the first
                    // 30 steps, the last 60 and every k-th in between.
                    let n = all_steps.len();
                    let stride = ((n.saturating_sub(90)) / 60).max(1);
                    let steps: Vec<(u32, OpKind, u32)> = all_steps
                        .iter()
                        .enumerate()
                        .filter(|(i, _)| n <= 150 || *i < 30 || *i + 60 >= n || (*i - 30) % stride == 0)
                        .map(|(_, s)| *s)
                        .collect();
                    // Crash variants run the cheap start-up path everywhere: what a
                    // kill leaves behind is judged on the cache bytes (O1) and on what
                    // the following start reads, not on the 40 ms definitions load.
                    let mut lite_sc = base_sc.clone();
                    for run in lite_sc.runs.iter_mut().chain(lite_sc.pair.iter_mut().map(|p| &mut p.b)) {
                        if run.entry == Entry::StartupFull || run.entry == Entry::StartupSandboxed {
                            run.entry = Entry::Startup;
                        }
                    }
                    'sweep: for (idx, kind, len) in steps.iter() {
                        let mut points: Vec<(u32, Option<u32>)> = vec![(*idx, None)];
                        if *kind == OpKind::Write && *len > 1 {
                            points.push((*idx, Some(1)));
                            points.push((*idx, Some(500)));
                            points.push((*idx, Some(999)));
                        }
                        for cp in points {
                            let mut v = lite_sc.clone();
                            v.runs[r].crash = Some(cp);
                            let out = run_history(&v, Chooser::replay(base.choices.clone()), false);
                            variants += 1;
                            digest = simkit::rng::mix(digest, out.digest);
                            for (k, n) in &out.stats {
                                if k.starts_with("crash") {
                                    bump(&mut stats, k, *n);
                                }
                            }
                            if out.obs.iter().any(|o| o.leftover_temp_files > 0) {
                                bump(&mut stats, "leftover_temp_files_seen", 1);
                            }
                            if let Some(mut viol) = oracle(&v, &out.obs) {
                                viol.detail = format!(
                                    "[crash sweep: run #{} killed at step {} ({:?}{})] {}",
                                    r,
                                    cp.0,
                                    kind,
                                    match cp.1 {
                                        Some(p) => format!(", {}‰ written", p),
                                        None => String::new(),
                                    },
                                    viol.detail
                                );
                                violation = Some(viol);
                                break 'sweep;
                            }
                            // probes: where did the kill land?
                            if *kind == OpKind::Rename {
                                bump(&mut stats, "crash_at_rename", 1);
                            }
                            if *kind == OpKind::HttpChunk {
                                bump(&mut stats, "crash_between_chunks", 1);
                            }
                            if *kind == OpKind::SyncAll {
                                bump(&mut stats, "crash_between_last_write_and_rename", 1);
                            }
                        }
                    }
                }
            }
        }
        bump(&mut stats, "crash_variants_executed", variants);
        if sc.stderr_unwritable {
            bump(&mut stats, "histories_with_unwritable_stderr", 1);
        }
        let any_fault = sc.pair.is_some() || sc.stderr_unwritable || sc.runs.iter().any(|r| {
            !r.faults.is_empty()
                || r.crash.is_some()
                || r.server.iter().any(|s| {
                    !matches!(
                        s,
                        Server::Respond {
                            status: 200,
                            cut_after: None,
                            stall_after: None,
                            ..
                        }
                    )
                })
        });
        Outcome {
            violation,
            digest,
            choices: base.choices,
            stats,
            sim_ns: base.obs.last().map(|o| o.end_ns).unwrap_or(T0_NS).saturating_sub(T0_NS),
            history,
            nontrivial: any_fault || variants > 0 || base.real_decisions_nonzero > 0,
            log: base.log,
        }
    }

    fn shrink(&self, sc: &Scenario) -> Vec<Scenario> {
        let mut out = Vec::new();
        // 1. turn a sweep into one explicit crash point
        if let Some(r) = sc.sweep_run {
            if r < sc.runs.len() {
                for step in 0..80u32 {
                    for partial in [None, Some(500u32), Some(1), Some(999)] {
                        let mut c = sc.clone();
                        c.sweep_run = None;
                        c.runs[r].crash = Some((step, partial));
                        out.push(c);
                    }
                }
                let mut c = sc.clone();
                c.sweep_run = None;
                out.insert(0, c);
            }
            return out;
        }
        // 2. drop the second process, or make it simpler
        if let Some(p) = &sc.pair {
            let mut c = sc.clone();
            c.pair = None;
            out.push(c);
            if !p.b.faults.is_empty() {
                let mut c = sc.clone();
                c.pair.as_mut().unwrap().b.faults.clear();
                out.push(c);
            }
            if p.b.crash.is_some() {
                let mut c = sc.clone();
                c.pair.as_mut().unwrap().b.crash = None;
                out.push(c);
            }
            if p.b.entry == Entry::StartupFull {
                let mut c = sc.clone();
                c.pair.as_mut().unwrap().b.entry = Entry::Startup;
                out.push(c);
            }
            if p.switch_pct != 15 {
                let mut c = sc.clone();
                c.pair.as_mut().unwrap().switch_pct = 15;
                out.push(c);
            }
        }
        // 2b. drop process runs (the second process stays with its partner)
        if sc.runs.len() > 1 {
            for i in 0..sc.runs.len() {
                let mut c = sc.clone();
                c.runs.remove(i);
                if let Some(p) = c.pair.as_mut() {
                    if p.with_run == i {
                        continue;
                    }
                    if p.with_run > i {
                        p.with_run -= 1;
                    }
                }
                out.push(c);
            }
        }
        for (i, r) in sc.runs.iter().enumerate() {
            // drop faults, extra server responses, the crash
            if !r.faults.is_empty() {
                for k in 0..r.faults.len() {
                    let mut c = sc.clone();
                    c.runs[i].faults.remove(k);
                    out.push(c);
                }
            }
            if r.server.len() > 1 {
                let mut c = sc.clone();
                c.runs[i].server.truncate(1);
                out.push(c);
            }
            if r.crash.is_some() {
                let mut c = sc.clone();
                c.runs[i].crash = None;
                out.push(c);
                if let Some((s, Some(_))) = r.crash {
                    let mut c = sc.clone();
                    c.runs[i].crash = Some((s, None));
                    out.push(c);
                }
            }
            if r.gap_s != 1 {
                let mut c = sc.clone();
                c.runs[i].gap_s = 1;
                out.push(c);
            }
            if r.entry == Entry::StartupFull || r.entry == Entry::StartupSandboxed {
                let mut c = sc.clone();
                c.runs[i].entry = Entry::Startup;
                out.push(c);
            }
            // simpler server behaviour
            for (k, s) in r.server.iter().enumerate() {
                if let Server::Respond {
                    status,
                    body,
                    content_length,
                    cut_after,
                    reset,
                    stall_after,
                    latency_ns,
                    max_chunk,
                } = s
                {
                    if *latency_ns != 100_000 || *max_chunk != 16384 {
                        let mut c = sc.clone();
                        c.runs[i].server[k] = Server::Respond {
                            status: *status,
                            body: *body,
                            content_length: *content_length,
                            cut_after: *cut_after,
                            reset: *reset,
                            stall_after: *stall_after,
                            latency_ns: 100_000,
                            max_chunk: 16384,
                        };
                        out.push(c);
                    }
                }
            }
        }
        if sc.doc_size > 0 {
            let mut c = sc.clone();
            c.doc_size -= 1;
            // cut/stall offsets stay valid: they are clamped to the body length
            out.push(c);
        }
        if sc.short_read_pct != 0 {
            let mut c = sc.clone();
            c.short_read_pct = 0;
            out.push(c);
        }
        if sc.stderr_unwritable {
            let mut c = sc.clone();
            c.stderr_unwritable = false;
            out.push(c);
        }
        if sc.initial != CacheState::Absent {
            let mut c = sc.clone();
            c.initial = CacheState::Absent;
            out.push(c);
        }
        let dflt = Cfg {
            enabled: true,
            fetch_on_startup: true,
            cache_duration_s: 3600,
            timeout_ms: 2000,
            no_cache_dir: false,
        };
        if sc.cfg != dflt {
            let mut c = sc.clone();
            c.cfg = dflt;
            out.push(c);
        }
        out
    }

    fn key(&self, sc: &Scenario) -> String {
        format!(
            "{:?};{}",
            sc.initial,
            sc.runs
                .iter()
                .enumerate()
                .map(|(i, r)| format!(
                    "{:?}{}{}{}",
                    r.entry,
                    if r.crash.is_some() { "+kill" } else { "" },
                    if r.faults.is_empty() { "" } else { "+fsfault" },
                    match &sc.pair {
                        Some(p) if p.with_run == i => format!(
                            "||{:?}{}{}",
                            p.b.entry,
                            if p.b.crash.is_some() { "+kill" } else { "" },
                            if p.b.faults.is_empty() { "" } else { "+fsfault" }
                        ),
                        _ => String::new(),
                    }
                ))
                .collect::<Vec<_>>()
                .join(",")
        )
    }

    fn label(&self, sc: &Scenario) -> String {
        let full = sc
            .runs
            .iter()
            .any(|r| r.entry == Entry::StartupFull || r.entry == Entry::StartupSandboxed);
        format!(
            "{}{}{}",
            if full { "with-full-load" } else { "lite" },
            if sc.sweep_run.is_some() { "+crash-sweep" } else { "" },
            if sc.pair.is_some() { "+two-processes" } else { "" }
        )
    }

    fn rule(&self) -> String {
        "One evaluation = one seeded history of 1..5 process runs (start-up via load_live_currency, full load(), --fetch-currency, or - one full-load run in three - \
         a start-up with sandboxing enabled: load(), then the real sandbox parent/child code with a child that runs load() again before its handshake and answers two queries) \
         of the real cli/src/config.rs over one persistent simulated file system, from a seeded prior cache state \
         {absent, fresh, stale, mtime in the future, unreadable fresh/stale, empty, truncated, one bit flipped}, with per-run server behaviour \
         {200 complete with/without Content-Length, 200 complete but not currency data, 200 cut after k bytes (close or reset), stall mid-body, 3xx/4xx/5xx with error page, \
         non-200 with a real document, stall, refused, DNS failure}, seeded chunking, file-system faults (EACCES/ENOSPC/EROFS/EIO/EXDEV/EINTR/EDQUOT/EMFILE/short write \
         at a chosen call), clock jumps between runs, and - for 3 of 4 histories - a crash sweep: the history is re-executed once for \
         every file-system/transfer step of one chosen run (and three times for each write: 1, 500 and 999 permille written) with the process killed there. \
         After every run (killed or not) the cache bytes are compared with the previous bytes and the bodies of 200 responses that completed, \
         and so is every state the cache path went through while the run was under way. One history in six adds a second rink process \
         (start-up, full load or --fetch-currency, with its own server behaviour, faults and kill point) that runs at the same time as one of the runs \
         on the same cache directory: both execute the real code on their own threads, one at a time, and before every file-system or transfer step \
         the seeded chooser decides whether the other process runs first. \
         Non-trivial = any fault, non-200/cut/stalled response, kill, or non-default chunking decision; distinct = distinct digest over \
         (scenario, every step of every execution including all crash variants)."
            .into()
    }

    fn assumptions(&self) -> Vec<String> {
        vec![
            "Crash model is process kill (what C20 states): completed operations persist, rename is atomic; power loss / lost page cache is not modelled".into(),
            "The simulated endpoint sends an ETag with every 200 response and answers a matching If-None-Match with 304 and no body (counted as 'this document confirmed'); one run in three is served the document the previous run was served".into(),
            "The curl stand-in reproduces libcurl's documented outcomes (18 short body, 23 short callback count, 28 timeout incl. paused transfer, 56 reset, 7 refused, 6 DNS, error-page bodies delivered to the callback)".into(),
            "One history in twelve runs with an unwritable stderr (ENOSPC on every write): eprintln! then panics as std's does, a writeln! to io::stderr() returns the error".into(),
            "std::fs::File stand-in: advisory locks (lock, lock_shared, try_lock, unlock) with flock(2) semantics: a lock belongs to the open file description, goes with its last handle or its process; a blocking lock lets the other process run".into(),
            "tempfile stand-in: O_EXCL create with unique names, persist = rename(2), drop = unlink; /tmp is a different file system (rename across gives EXDEV)".into(),
            "A close-delimited 200 body cut by an orderly close (or a connection closed inside the response headers) is reported as success by libcurl with the prefix (or nothing) delivered; it is generated, and the prefix must not reach the cache".into(),
            "Two rink processes at once (not in the property's quantifier, covered by its 'whatever happens'): one file-system or transfer step is atomic with respect to the other process; only the clauses that hold for any circumstances are demanded of such a run (previous-or-complete-new file at every instant, contents used are one of those, readable cache is fallen back to, a --fetch-currency that reported success leaves a complete new file)".into(),
        ]
    }

    fn real_vs_stub(&self) -> serde_json::Value {
        serde_json::json!({
            "cli/src/config.rs (load, force_refresh_currency, load_live_currency, try_load_currency, cached, read_if_current, download_to_file)": "real",
            "rink_core loader + evaluator on the bundled definitions (full-load runs)": "real",
            "std::fs, SystemTime": "stub (simkit in-memory FS, virtual clock)",
            "curl, tempfile, dirs": "stub (stand-in crates with the same call surface)",
            "cli/src/main.rs argument dispatch": "stub (the harness calls load / force_refresh_currency as main does)",
            "sandbox/src/{parent,child,frame}.rs between rink and its sandbox child (sandboxed start-ups)": "real",
            "cli/src/service.rs, cli/src/repl.rs (sandboxed start-ups)": "stub (a Service whose create() calls the real config::load as RinkService does; two fixed queries)",
        })
    }

    fn expected_probes(&self) -> Vec<&'static str> {
        vec![
            "crash_fired",
            "crash_inside_write",
            "crash_at_rename",
            "crash_between_chunks",
            "crash_between_last_write_and_rename",
            "fs_fault_fired",
            "http_timeout",
            "http_partial",
            "http_reset",
            "http_refused",
            "http_write_callback_pause",
            "http_write_callback_short",
            "stale_fallback_taken",
            "cache_replaced",
            "entry_startup_full_load",
            "entry_fetch_currency",
            "leftover_temp_files_seen",
            "entry_startup_sandboxed",
            "histories_with_unwritable_stderr",
            "stderr_write_failed",
            "two_process_runs",
            "process_switch",
            "both_processes_transferred",
            "cache_replaced_twice_in_one_run",
            "two_process_run_with_kill",
        ]
    }
}
