//! Harness binary for C20 (currency cache). usage: h-cache C20 <master|worker|replay|digests|one> [...]
#![allow(unexpected_cfgs)]

#[allow(dead_code)]
#[path = "../../../work/repo/cli/src/style_ser.rs"]
pub(crate) mod style_ser;

/// The real cli/src/config.rs, compiled from the tree under verification,
/// plus thin accessors for its private entry points.
#[allow(dead_code, unused_imports)]
pub(crate) mod config {
    // build.rs copies work/repo/cli/src/config.rs here, re-routing full-path
    // uses of std::fs / SystemTime to the simulator.
    include!(concat!(env!("OUT_DIR"), "/config.rs"));

    /// What every start-up path does for currency, without the 40 ms
    /// definitions load: exactly `try_load_currency`'s first half.
    pub fn h_load_live_currency(config: &Currency) -> Result<String> {
        load_live_currency(config)
    }
}

mod c20;

fn main() {
    let args: Vec<String> = std::env::args().collect();
    if args.len() < 3 {
        eprintln!("usage: h-cache C20 <master|worker|replay|digests|one> [--tier ..] [--seed ..]");
        std::process::exit(2);
    }
    let code = match args[1].as_str() {
        "C20" => simkit::runner::main_for(&c20::C20, &args[2], &args[3..]),
        other => {
            eprintln!("unknown property {}", other);
            2
        }
    };
    std::process::exit(code);
}
