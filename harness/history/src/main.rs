//! Harness binary for C15 (query histories on one context under a virtual clock).
#![allow(unexpected_cfgs)]

mod c15;

fn main() {
    let args: Vec<String> = std::env::args().collect();
    if args.len() < 3 {
        eprintln!("usage: h-history C15 <master|worker|replay|digests|one> [--tier ..] [--seed ..]");
        std::process::exit(2);
    }
    if args[1] == "C15" && args[2] == "probe" {
        std::process::exit(c15::probe_main());
    }
    if args[1] == "C15" && args[2] == "run-one" {
        std::process::exit(c15::run_one_main());
    }
    if args[1] == "time" {
        c15::timing();
        return;
    }
    let code = match args[1].as_str() {
        "C15" => simkit::runner::main_for(&c15::C15, &args[2], &args[3..]),
        other => {
            eprintln!("unknown property {}", other);
            2
        }
    };
    std::process::exit(code);
}
