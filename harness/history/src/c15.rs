//! C15 — Queries are pure; only `ans` carries state between them.
//!
//! Real code under simulation: rink_core::eval (helpers.rs), Context,
//! the parser and evaluator, on the bundled definitions + currency snapshot.
//! Simulated: the wall clock (`Context::update_time` seam), the history
//! driver and the per-step reference model.

use chrono::{DateTime, Local, TimeZone};
use rink_core::output::{QueryError, QueryReply};
use rink_core::parsing::text_query;
use rink_core::types::Number;
use rink_core::{ast::Query, Context};
use serde::{Deserialize, Serialize};
use simkit::rng::Fnv;
use simkit::runner::{Budget, Harness, Outcome, Tier, Violation};
use simkit::{Chooser, Rng};
use std::cell::RefCell;
use std::collections::BTreeMap;

#[derive(Serialize, Deserialize, Clone, Debug, PartialEq)]
pub enum Step {
    Query(String),
    /// Move the clock by this many milliseconds (negative: backwards).
    Clock(i64),
    /// Turn `save_previous_result` on or off.
    Flag(bool),
}

#[derive(Serialize, Deserialize, Clone, Debug, PartialEq)]
pub struct Scenario {
    /// Milliseconds since the epoch at the start of the history.
    pub start_ms: i64,
    pub flag_at_start: bool,
    pub steps: Vec<Step>,
    /// Compare a full Debug dump of the context with a pristine one afterwards.
    pub deep_check: bool,
    /// Also evaluate the k-th query (modulo their number) on a context that has
    /// never evaluated anything, and compare.
    #[serde(default)]
    pub probe_step: Option<u32>,
}

static CURRENCY_SNAPSHOT: &str = include_str!(concat!(
    env!("CARGO_MANIFEST_DIR"),
    "/../../work/repo/core/tests/currency.snapshot.json"
));

fn fresh_context() -> Context {
    let mut ctx = rink_core::simple_context().expect("bundled definitions");
    if let Some(base) = rink_core::CURRENCY_FILE {
        // Failure to load the snapshot would be a harness problem, not a verdict.
        ctx.load_currency(CURRENCY_SNAPSHOT, base)
            .expect("currency snapshot loads");
    }
    ctx
}

fn at(ms: i64) -> DateTime<Local> {
    Local.timestamp_millis_opt(ms).single().expect("valid instant")
}

/// Debug dump of a context with the per-query state normalised away.
fn dump_hash(ctx: &mut Context) -> (u64, usize) {
    let (now, prev, flag) = (ctx.now, ctx.previous_result.take(), ctx.save_previous_result);
    ctx.set_time(at(0));
    ctx.save_previous_result = false;
    let s = format!("{:?}", ctx);
    ctx.set_time(now);
    ctx.previous_result = prev;
    ctx.save_previous_result = flag;
    let mut f = Fnv::default();
    f.bytes(s.as_bytes());
    (f.0, s.len())
}

struct WorkerState {
    reference: Context,
    uses: u32,
    pristine_dump: (u64, usize),
}

thread_local! {
    static STATE: RefCell<Option<WorkerState>> = const { RefCell::new(None) };
}

fn render(r: &Result<QueryReply, QueryError>) -> (serde_json::Value, String) {
    match r {
        Ok(v) => (
            serde_json::json!({"ok": serde_json::to_value(v).unwrap()}),
            format!("{}", v),
        ),
        Err(e) => (
            serde_json::json!({"err": serde_json::to_value(e).unwrap()}),
            format!("ERR {}", e),
        ),
    }
}

fn num_text(n: &Option<Number>) -> String {
    match n {
        None => "<none>".into(),
        Some(n) => serde_json::to_string(n).unwrap_or_else(|_| "<number>".into()),
    }
}

fn short(s: &str) -> String {
    let s = s.replace('\n', " ");
    if s.chars().count() > 110 {
        let t: String = s.chars().take(110).collect();
        format!("{}…", t)
    } else {
        s
    }
}

/// What `ans` may hold after a query that was answered with `got`, given that
/// it held `alt` before (second component: the statement leaves it open).
fn after(
    alt: &Option<Number>,
    got: &Result<QueryReply, QueryError>,
    flag: bool,
    plain: bool,
) -> Vec<(Option<Number>, bool)> {
    match got {
        Ok(QueryReply::Number(parts)) if flag && plain => match &parts.raw_value {
            Some(raw) => vec![(Some(raw.clone()), false)],
            None => vec![(alt.clone(), false)],
        },
        Ok(QueryReply::Number(parts)) if flag => {
            // A numeric reply to something that is not a plain expression (`x ->`
            // with nothing after the arrow): the statement can be read either way.
            let mut v = vec![(alt.clone(), false)];
            if let Some(raw) = &parts.raw_value {
                v.push((Some(raw.clone()), false));
            }
            v
        }
        Ok(QueryReply::Duration(d)) if flag && plain => {
            // A result in seconds is rendered as a duration breakdown; whether it
            // counts as "numeric result" is left open by the statement: accept both.
            let mut v = vec![(alt.clone(), true)];
            if let Some(raw) = &d.raw.raw_value {
                v.push((Some(raw.clone()), true));
            }
            v
        }
        _ => vec![(alt.clone(), false)],
    }
}

/// Evaluate `query` on `ctx` (touched only through `&self` and two public
/// fields) once per alternative of the model, and return the alternatives whose
/// reply equals the observed one, each mapped to what `ans` may be afterwards,
/// plus all expected texts.
#[allow(clippy::too_many_arguments)]
fn judge(
    ctx: &mut Context,
    model: &[Option<Number>],
    query: &Query,
    now: DateTime<Local>,
    flag: bool,
    plain: bool,
    got: &Result<QueryReply, QueryError>,
    got_json: &serde_json::Value,
    got_text: &str,
) -> (Vec<(Option<Number>, bool)>, Vec<String>) {
    let mut matched: Vec<(Option<Number>, bool)> = Vec::new();
    let mut expected_texts = Vec::new();
    for alt in model {
        ctx.previous_result = alt.clone();
        ctx.set_time(now);
        let want = ctx.eval_query(query);
        let (want_json, want_text) = render(&want);
        if want_json == *got_json && want_text == got_text {
            matched.extend(after(alt, got, flag, plain));
        }
        expected_texts.push(want_text);
    }
    ctx.previous_result = None;
    (matched, expected_texts)
}

#[derive(Serialize, Deserialize)]
struct ProbeRequest {
    /// Each alternative in the form `Number`'s derived `Deserialize` accepts
    /// (its `Serialize` goes through a display-oriented form that does not
    /// round-trip), or null.
    alts: Vec<serde_json::Value>,
    now_ms: i64,
    line: String,
}

fn wire(n: &Option<Number>) -> Option<serde_json::Value> {
    use rink_core::types::Numeric;
    match n {
        None => Some(serde_json::Value::Null),
        Some(n) => {
            let value = match &n.value {
                Numeric::Rational(r) => serde_json::json!({ "Rational": r }),
                Numeric::Float(f) if f.is_finite() => serde_json::json!({ "Float": f }),
                Numeric::Float(_) => return None,
            };
            Some(serde_json::json!({ "value": value, "unit": n.unit }))
        }
    }
}

#[derive(Serialize, Deserialize)]
struct ProbeReply {
    replies: Vec<(serde_json::Value, String)>,
}

/// `h-history C15 probe`: one request on stdin, one reply on stdout, from a
/// context built in this brand-new process.
pub fn probe_main() -> i32 {
    let mut input = String::new();
    if std::io::Read::read_to_string(&mut std::io::stdin(), &mut input).is_err() {
        return 2;
    }
    let req: ProbeRequest = match serde_json::from_str(&input) {
        Ok(r) => r,
        Err(_) => return 2,
    };
    let mut replies = Vec::new();
    for alt in &req.alts {
        let alt: Option<Number> = if alt.is_null() {
            None
        } else {
            match serde_json::from_value(alt.clone()) {
                Ok(n) => Some(n),
                Err(_) => return 2,
            }
        };
        // A new context for every alternative: nothing has been evaluated on it.
        let mut ctx = fresh_context();
        ctx.previous_result = alt;
        ctx.set_time(at(req.now_ms));
        let mut iter = text_query::TokenIterator::new(req.line.trim()).peekable();
        let query = text_query::parse_query(&mut iter);
        replies.push(render(&ctx.eval_query(&query)));
    }
    println!("{}", serde_json::to_string(&ProbeReply { replies }).unwrap());
    0
}

/// The reply of a *fresh process* (fresh context, fresh statics and
/// thread-locals) for each alternative of the model. None: the helper process
/// could not be run (the caller falls back to an in-process fresh context).
fn pristine_process_eval(
    model: &[Option<Number>],
    now_ms: i64,
    line: &str,
) -> Option<Vec<(serde_json::Value, String)>> {
    use std::io::Write;
    use std::process::{Command, Stdio};
    let exe = std::env::current_exe().ok()?;
    let mut child = Command::new(exe)
        .args(["C15", "probe"])
        .env("TZ", "UTC")
        .env("RUST_BACKTRACE", "0")
        .stdin(Stdio::piped())
        .stdout(Stdio::piped())
        .stderr(Stdio::null())
        .spawn()
        .ok()?;
    let req = ProbeRequest {
        alts: model.iter().map(wire).collect::<Option<Vec<_>>>()?,
        now_ms,
        line: line.to_string(),
    };
    child
        .stdin
        .take()?
        .write_all(serde_json::to_string(&req).ok()?.as_bytes())
        .ok()?;
    let out = child.wait_with_output().ok()?;
    if !out.status.success() {
        return None;
    }
    let rep: ProbeReply = serde_json::from_slice(&out.stdout).ok()?;
    if rep.replies.len() != model.len() {
        return None;
    }
    Some(rep.replies)
}

/// Judge the observed reply against a pristine evaluation: a fresh process if
/// possible, else a fresh in-process context.
#[allow(clippy::too_many_arguments)]
fn judge_pristine(
    model: &[Option<Number>],
    query: &Query,
    line: &str,
    now: DateTime<Local>,
    now_ms: i64,
    flag: bool,
    plain: bool,
    got: &Result<QueryReply, QueryError>,
    got_json: &serde_json::Value,
    got_text: &str,
    bump: &dyn Fn(&str),
) -> (Vec<(Option<Number>, bool)>, Vec<String>) {
    match pristine_process_eval(model, now_ms, line) {
        Some(replies) => {
            bump("pristine_eval_in_fresh_process");
            let mut matched = Vec::new();
            let mut texts = Vec::new();
            for (alt, (j, t)) in model.iter().zip(replies.into_iter()) {
                if j == *got_json && t == got_text {
                    matched.extend(after(alt, got, flag, plain));
                }
                texts.push(t);
            }
            (matched, texts)
        }
        None => {
            bump("pristine_eval_in_process_fallback");
            let mut p = fresh_context();
            judge(&mut p, model, query, now, flag, plain, got, got_json, got_text)
        }
    }
}

fn run_history(sc: &Scenario, fresh_reference: bool) -> (Option<Violation>, Vec<String>, u64, BTreeMap<String, u64>) {
    let stats: RefCell<BTreeMap<String, u64>> = RefCell::new(BTreeMap::new());
    let bump = |k: &str| *stats.borrow_mut().entry(k.to_string()).or_insert(0) += 1;
    let (violation, history, digest) = STATE.with(|st| {
        let mut st = st.borrow_mut();
        let rebuild = match st.as_ref() {
            None => true,
            Some(s) => fresh_reference || s.uses >= 64,
        };
        if rebuild {
            let mut reference = fresh_context();
            let pristine_dump = match st.as_ref() {
                Some(s) => s.pristine_dump,
                None => dump_hash(&mut reference),
            };
            *st = Some(WorkerState {
                reference,
                uses: 0,
                pristine_dump,
            });
        }
        let st = st.as_mut().unwrap();
        st.uses += 1;
        let reference = &mut st.reference;

        // The context under test: fresh for every history, so a run is a pure
        // function of its scenario.
        let mut live = fresh_context();
        live.save_previous_result = sc.flag_at_start;
        let mut flag = sc.flag_at_start;
        let mut now_ms = sc.start_ms;
        // The model: the set of values `ans` may legitimately hold (almost
        // always one; two after a reply the statement leaves open).
        let mut model: Vec<Option<Number>> = vec![None];
        let mut history = Vec::new();
        let mut digest = Fnv::default();
        let mut violation: Option<Violation> = None;
        let query_steps: Vec<usize> = sc
            .steps
            .iter()
            .enumerate()
            .filter(|(_, s)| matches!(s, Step::Query(_)))
            .map(|(i, _)| i)
            .collect();
        let probe_at: Option<usize> = match sc.probe_step {
            Some(k) if !query_steps.is_empty() => Some(query_steps[k as usize % query_steps.len()]),
            _ => None,
        };

        for (i, step) in sc.steps.iter().enumerate() {
            match step {
                Step::Clock(d) => {
                    now_ms += *d;
                    if *d < 0 {
                        bump("clock_jump_back");
                    } else {
                        bump("clock_advance");
                    }
                    history.push(format!("#{} clock {:+} ms", i, d));
                }
                Step::Flag(f) => {
                    flag = *f;
                    live.save_previous_result = *f;
                    bump("flag_toggle");
                    history.push(format!("#{} save_previous_result = {}", i, f));
                }
                Step::Query(line) => {
                    let now = at(now_ms);
                    Context::sim_set_clock(Some(now));
                    let got = rink_core::eval(&mut live, line);
                    Context::sim_set_clock(None);
                    let (got_json, got_text) = render(&got);
                    digest.str(&got_text);

                    // Reference: the reply a fresh context gives for the same previous answer.
                    let mut iter = text_query::TokenIterator::new(line.trim()).peekable();
                    let query = text_query::parse_query(&mut iter);
                    let plain = matches!(query, Query::Expr(_));
                    let (mut matched, mut expected_texts) =
                        judge(reference, &model, &query, now, flag, plain, &got, &got_json, &got_text);
                    if matched.iter().any(|(_, d)| *d) {
                        bump("duration_reply_both_accepted");
                    }
                    if matched.is_empty() {
                        // The shared reference disagrees. Arbitrate with a context that has
                        // never evaluated anything: only that makes the verdict a pure
                        // function of this history.
                        bump("arbitrated_with_pristine_context");
                        let (m2, e2) = judge_pristine(
                            &model, &query, line, now, now_ms, flag, plain, &got, &got_json, &got_text, &bump,
                        );
                        if m2.is_empty() {
                            expected_texts = e2;
                        } else {
                            // The reference had drifted (state leaked through &self in an
                            // earlier history); replace it and go on with the pristine verdict.
                            bump("shared_reference_had_drifted");
                            *reference = fresh_context();
                            matched = m2;
                        }
                    }
                    if !matched.is_empty() && probe_at == Some(i) {
                        // Pristine probe: the same query in a brand-new process (fresh
                        // context, fresh statics and thread-locals). State that leaks
                        // between queries through shared references, a thread-local or a
                        // static (a cache, a memo) shows here even when the in-process
                        // reference context leaks in exactly the same way.
                        bump("pristine_probe");
                        let (m3, e3) = judge_pristine(
                            &model, &query, line, now, now_ms, flag, plain, &got, &got_json, &got_text, &bump,
                        );
                        if m3.is_empty() {
                            matched.clear();
                            expected_texts = e3;
                        }
                    }
                    let matched: Vec<Option<Number>> = matched.into_iter().map(|(m, _)| m).collect();
                    reference.previous_result = None;
                    match &got {
                        Ok(QueryReply::Number(_)) => bump("reply_number"),
                        Ok(QueryReply::Date(_)) => bump("reply_date"),
                        Ok(QueryReply::Duration(_)) => bump("reply_duration"),
                        Ok(QueryReply::Def(_)) => bump("reply_def"),
                        Ok(QueryReply::Conversion(_)) => bump("reply_conversion"),
                        Ok(QueryReply::Substance(_)) => bump("reply_substance"),
                        Ok(QueryReply::UnitList(_)) => bump("reply_unit_list"),
                        Ok(_) => bump("reply_command"),
                        Err(_) => bump("reply_error"),
                    }
                    let uses_ans = line.contains("ans") || line.contains("ANS") || line.contains('_');
                    if uses_ans {
                        bump("query_uses_ans");
                        if model.iter().any(|m| m.is_some()) {
                            bump("query_uses_ans_while_set");
                        }
                    }
                    history.push(format!(
                        "#{} [{}] {:?} -> {}",
                        i,
                        if flag { "ans on" } else { "ans off" },
                        line,
                        short(&got_text)
                    ));
                    if matched.is_empty() {
                        violation = Some(Violation {
                            clause: "reply-differs-from-fresh-context".into(),
                            detail: format!(
                                "step {} {:?} (clock {} ms, ans model {}): replied {:?}, a fresh context with the same previous answer replies {:?}",
                                i,
                                line,
                                now_ms,
                                model.iter().map(num_text).collect::<Vec<_>>().join(" | "),
                                short(&got_text),
                                expected_texts.iter().map(|t| short(t)).collect::<Vec<_>>()
                            ),
                        });
                        break;
                    }
                    // dedupe
                    let mut next: Vec<Option<Number>> = Vec::new();
                    for m in matched {
                        if !next.iter().any(|x| *x == m) {
                            next.push(m);
                        }
                    }
                    // The stored previous result must be one the model allows.
                    if !next.iter().any(|m| *m == live.previous_result) {
                        violation = Some(Violation {
                            clause: "ans-state-wrong".into(),
                            detail: format!(
                                "after step {} {:?} (feature {}), the stored previous result is {} but the statement allows only {}",
                                i,
                                line,
                                if flag { "on" } else { "off" },
                                num_text(&live.previous_result),
                                next.iter().map(num_text).collect::<Vec<_>>().join(" | ")
                            ),
                        });
                        break;
                    }
                    // Narrow the model to what the context actually holds.
                    next.retain(|m| *m == live.previous_result);
                    model = next;
                    if live.now != now {
                        violation = Some(Violation {
                            clause: "clock-not-updated".into(),
                            detail: format!(
                                "after step {} {:?} the context's clock is {} but the (simulated) wall clock is {}",
                                i, line, live.now, now
                            ),
                        });
                        break;
                    }
                    if live.save_previous_result != flag || !live.use_humanize {
                        violation = Some(Violation {
                            clause: "settings-changed".into(),
                            detail: format!("step {} {:?} changed the context's settings", i, line),
                        });
                        break;
                    }
                }
            }
        }
        // VERIF_C15_NO_DUMP=1 (experiments only): skip the dump comparison to see
        // what the per-step checks catch on their own.
        if violation.is_none() && sc.deep_check && std::env::var_os("VERIF_C15_NO_DUMP").is_none() {
            bump("deep_check");
            let d = dump_hash(&mut live);
            if d != st.pristine_dump {
                violation = Some(Violation {
                    clause: "database-changed".into(),
                    detail: format!(
                        "after the history the Debug dump of the context (clock/ans/flag normalised) differs from a pristine context's: {} bytes hash {:016x} vs {} bytes hash {:016x}",
                        d.1, d.0, st.pristine_dump.1, st.pristine_dump.0
                    ),
                });
            }
        }
        (violation, history, digest.0)
    });
    let stats = stats.into_inner();
    (violation, history, digest, stats)
}

pub struct C15;

fn uniq(rng: &mut Rng, i: usize) -> u64 {
    (i as u64 + 1) * 1000 + rng.below(900) + 1
}

fn gen_query(rng: &mut Rng, i: usize, weights: &[u64; 10]) -> String {
    let n = uniq(rng, i);
    let m = 2 + rng.below(17);
    match rng.weighted(weights) {
        // plain numeric expressions with unique values
        0 => match rng.below(10) {
            0 => format!("{}", n),
            1 => format!("{} + {}", n, m),
            2 => format!("{} m", n),
            3 => format!("{} kg * {}", n, m),
            4 => format!("3 foot + {} inch", n),
            5 => format!("{}/{}", n, m),
            6 => format!("sqrt({} m^2)", n),
            7 => format!("{} km / hour", n),
            8 => format!("{}%", n),
            _ => format!("{}.5e3 W", n),
        },
        // uses of ans / ANS / _
        1 => match rng.below(14) {
            0 => "ans".to_string(),
            1 => format!("ans + {}", m),
            2 => format!("ANS * {}", m),
            3 => format!("_ / {}", m),
            4 => format!("{} * _", m),
            5 => "ans -> inch".to_string(),
            6 => "ans m".to_string(),
            7 => "sqrt(ans)".to_string(),
            8 => "-ans".to_string(),
            9 => "ans^2".to_string(),
            10 => "1/ans".to_string(),
            11 => "ans + ANS + _".to_string(),
            12 => "ans -> digits 20".to_string(),
            _ => "ans - ans".to_string(),
        },
        // conversions
        2 => match rng.below(9) {
            0 => format!("{} foot -> meter", n),
            1 => format!("{} km -> mile, foot", n),
            2 => format!("{} -> hex", n),
            3 => format!("{}/7 -> digits 30", n),
            4 => format!("{} degC -> degF", m),
            5 => format!("{} m -> fraction", n),
            6 => format!("{} USD -> EUR", n),
            7 => format!("{} s -> hour, minute, second", n),
            _ => format!("{} -> scientific", n),
        },
        // definition look-ups
        3 => (*rng.pick(&["foot", "kilogram", "c", "speed", "pi", "lightyear", "USD", "gallon", "hbar"])).to_string(),
        // commands
        4 => (*rng.pick(&[
            "units for energy",
            "units for length",
            "factorize velocity",
            "factorize area",
            "search spd",
            "search feet",
        ]))
        .to_string(),
        // substances
        5 => (*rng.pick(&["water", "density of water", "gold", "molar_mass of gold", "air"])).to_string(),
        // date results
        6 => match rng.below(6) {
            0 => "now".to_string(),
            1 => format!("now + {} hour", m),
            2 => "#2020-01-01# - now".to_string(),
            3 => "#jan 01, 1970#".to_string(),
            4 => "now -> \"US/Pacific\"".to_string(),
            _ => format!("now - {} day", m),
        },
        // results in seconds
        7 => match rng.below(4) {
            0 => format!("{} s", n),
            1 => format!("{} hours", m),
            2 => format!("{} minute + {} s", m, n),
            _ => format!("{} m / ({} m/s)", n, m),
        },
        // failing queries of each class
        8 => (*rng.pick(&[
            "1 +",
            "asdfqwer",
            "1 m + 1 s",
            "1/0",
            "",
            "3 foot -> kg",
            "(((",
            "#not a date#",
            "ans ans ans ->",
            "sqrt(1 m)",
            "1 ->",
        ]))
        .to_string(),
        // things that look like `ans` but are not
        _ => (*rng.pick(&["answer", "ans_", "_ans", "Ans", "anshin", "__"])).to_string(),
    }
}

impl Harness for C15 {
    type Scenario = Scenario;

    fn property(&self) -> &'static str {
        "C15"
    }

    fn budget(&self, tier: Tier) -> Budget {
        match tier {
            Tier::Quick => Budget {
                runs: 7_000,
                soft_s: 60,
            },
            Tier::Thorough => Budget {
                runs: 400_000,
                soft_s: 900,
            },
        }
    }

    fn generate(&self, rng: &mut Rng, tier: Tier, _index: u64) -> Scenario {
        let mut weights = [5u64, 5, 3, 2, 1, 1, 2, 2, 3, 1];
        for w in weights.iter_mut() {
            if rng.chance(1, 5) {
                *w = 0;
            }
        }
        if weights[0] == 0 && weights[1] == 0 {
            weights[0] = 3;
            weights[1] = 3;
        }
        let max = match tier {
            Tier::Quick => 16,
            Tier::Thorough => {
                if rng.chance(1, 8) {
                    60
                } else {
                    16
                }
            }
        };
        let n = 1 + rng.below(max) as usize;
        let mut steps = Vec::new();
        for i in 0..n {
            if rng.chance(1, 6) {
                steps.push(Step::Clock(*rng.pick(&[
                    1i64,
                    1000,
                    3_600_000,
                    86_400_000 * 400,
                    -1000,
                    -86_400_000,
                ])));
            }
            if rng.chance(1, 8) {
                steps.push(Step::Flag(rng.chance(1, 2)));
            }
            steps.push(Step::Query(gen_query(rng, i, &weights)));
        }
        Scenario {
            start_ms: *rng.pick(&[1_470_166_240_000i64, 1_700_000_000_123, 946_684_799_999, 4_102_444_800_000]),
            flag_at_start: !rng.chance(1, 5),
            steps,
            deep_check: rng.chance(1, 8),
            // Biased to late steps: leaked state needs earlier queries to exist.
            probe_step: if rng.chance(3, 4) {
                let nq = n as u32;
                Some(if rng.chance(1, 2) { nq - 1 } else { rng.below(nq as u64) as u32 })
            } else {
                None
            },
        }
    }

    fn execute(&self, sc: &Scenario, chooser: Chooser, _keep_log: bool) -> Outcome {
        let (violation, history, digest, stats) = run_history(sc, chooser.is_replay());
        let nontrivial = sc.steps.iter().filter(|s| matches!(s, Step::Query(_))).count() > 1;
        Outcome {
            violation,
            digest,
            choices: Vec::new(),
            stats,
            sim_ns: {
                let total: i64 = sc
                    .steps
                    .iter()
                    .map(|s| match s {
                        Step::Clock(d) => d.abs(),
                        _ => 0,
                    })
                    .sum();
                (total as u64).saturating_mul(1_000_000)
            },
            history,
            nontrivial,
            log: Vec::new(),
        }
    }

    fn shrink(&self, sc: &Scenario) -> Vec<Scenario> {
        let mut out = Vec::new();
        if sc.steps.len() > 1 {
            if sc.steps.len() > 8 {
                let mut c = sc.clone();
                c.steps.truncate(sc.steps.len() / 2);
                out.push(c);
                let mut c = sc.clone();
                c.steps.drain(..sc.steps.len() / 2);
                out.push(c);
            }
            for i in 0..sc.steps.len() {
                let mut c = sc.clone();
                c.steps.remove(i);
                out.push(c);
            }
        }
        for (i, s) in sc.steps.iter().enumerate() {
            match s {
                Step::Clock(d) if *d != 1000 => {
                    let mut c = sc.clone();
                    c.steps[i] = Step::Clock(1000);
                    out.push(c);
                }
                Step::Query(q) if q != "1" && !q.contains("ans") && !q.contains('_') && !q.contains("ANS") => {
                    let mut c = sc.clone();
                    c.steps[i] = Step::Query("1".into());
                    out.push(c);
                }
                Step::Query(q) if q != "ans" && (q.contains("ans") || q.contains('_') || q.contains("ANS")) => {
                    let mut c = sc.clone();
                    c.steps[i] = Step::Query("ans".into());
                    out.push(c);
                }
                _ => {}
            }
        }
        if !sc.flag_at_start {
            let mut c = sc.clone();
            c.flag_at_start = true;
            out.push(c);
        }
        if sc.probe_step.is_some() {
            let mut c = sc.clone();
            c.probe_step = None;
            out.push(c);
        }
        if sc.deep_check {
            let mut c = sc.clone();
            c.deep_check = false;
            out.push(c);
        }
        if sc.start_ms != 1_470_166_240_000 {
            let mut c = sc.clone();
            c.start_ms = 1_470_166_240_000;
            out.push(c);
        }
        out
    }

    fn key(&self, sc: &Scenario) -> String {
        sc.steps
            .iter()
            .filter_map(|s| match s {
                Step::Query(q) => Some(q.clone()),
                _ => None,
            })
            .collect::<Vec<_>>()
            .join(" ; ")
    }

    fn label(&self, sc: &Scenario) -> String {
        if sc.deep_check {
            "with-database-dump-check".into()
        } else {
            "per-step-checks".into()
        }
    }

    fn rule(&self) -> String {
        "One evaluation = one seeded history of 1..16 (thorough: up to 60) queries on one fresh Context (bundled definitions + currency snapshot) \
         driven only through rink_core::eval under a virtual wall clock, interleaved with clock advances, backward clock jumps and toggles of \
         save_previous_result. Queries come from a per-history weighted pool: plain numeric expressions with unique values, uses of ans/ANS/_ in every \
         operand position and as conversion source, conversions (unit, list, base, digits, temperature, currency), definition look-ups, units for / \
         factorize / search, substances, date results, results in seconds, failing queries of each error class, the empty line, and names that merely \
         resemble ans. After every query the reply (JSON and text) is compared with the reply of a separate context that is only touched through &self \
         with previous_result preset from the model, and the stored previous result, clock and settings are compared with the model; in 3 histories of 4 \
         one seeded query is also evaluated on a context that has never evaluated anything (pristine probe), a disagreement with the shared reference is \
         arbitrated by such a context, and 1 history in 8 also compares a full Debug dump of the context with a pristine one. Non-trivial = at least two queries; distinct = distinct digest of (scenario, all replies)."
            .into()
    }

    fn assumptions(&self) -> Vec<String> {
        vec![
            "No concurrency or I/O exists here: the simulator contributes the clock seam, the history generator, the per-step reference model and replay/minimisation".into(),
            "The reference context is rebuilt from text every 64 histories and for every replay; between rebuilds it is only touched through &self and two public fields".into(),
            "A reply in seconds (rendered as a duration breakdown) may or may not count as a 'numeric result': the model accepts both until the next use of ans disambiguates".into(),
            "Seeded sampling: a clean batch is evidence, not proof".into(),
        ]
    }

    fn real_vs_stub(&self) -> serde_json::Value {
        serde_json::json!({
            "rink_core::eval (helpers.rs), Context, parser, evaluator, bundled definitions.units / currency.units / datepatterns.txt": "real",
            "wall clock (Local::now in Context::update_time)": "simulated (thread-local seam)",
            "frontends (cli/src/repl.rs, rink-js)": "stub (the harness calls rink_core::eval as they do)",
        })
    }

    fn expected_probes(&self) -> Vec<&'static str> {
        vec![
            "reply_number",
            "reply_error",
            "reply_conversion",
            "reply_def",
            "reply_date",
            "reply_duration",
            "reply_command",
            "reply_substance",
            "query_uses_ans_while_set",
            "clock_jump_back",
            "flag_toggle",
            "deep_check",
            "pristine_probe",
            "duration_reply_both_accepted",
        ]
    }
}

/// Cost probe (debugging aid): ./target/release/h-history time
pub fn timing() {
    let t = std::time::Instant::now();
    let defs = rink_core::loader::gnu_units::parse_str(rink_core::DEFAULT_FILE.unwrap());
    println!("parse definitions {:?}", t.elapsed());
    let t = std::time::Instant::now();
    let mut c2 = Context::new();
    c2.load(defs).unwrap();
    println!("load parsed defs {:?}", t.elapsed());
    let t = std::time::Instant::now();
    let mut ctx = rink_core::simple_context().unwrap();
    println!("simple_context {:?}", t.elapsed());
    let t = std::time::Instant::now();
    ctx.load_currency(CURRENCY_SNAPSHOT, rink_core::CURRENCY_FILE.unwrap()).unwrap();
    println!("load_currency {:?}", t.elapsed());
    let t = std::time::Instant::now();
    let d = dump_hash(&mut ctx);
    println!("dump_hash {:?} {:?}", t.elapsed(), d);
    let t = std::time::Instant::now();
    for _ in 0..100 {
        let _ = rink_core::eval(&mut ctx, "3 foot + 2 inch -> meter");
    }
    println!("100 evals {:?}", t.elapsed());
    for q in ["factorize velocity", "factorize acceleration", "factorize area", "units for length", "density of water", "molar_mass of gold", "air", "gold", "search spd"] {
        let t = std::time::Instant::now();
        for _ in 0..10 {
            let _ = rink_core::eval(&mut ctx, q);
        }
        println!("10 x {:?} {:?}", q, t.elapsed());
    }
}
