//! C15 — Queries are pure; only `ans` carries state between them.
//!
//! Real code under simulation: rink_core::eval (helpers.rs), Context,
//! the parser and evaluator, on the bundled definitions + currency snapshot.
//! Simulated: the wall clock (`Context::update_time` seam), the history
//! driver and the reference model.
//!
//! Three things are compared with the context under test ("live"):
//!  1. a small model of `ans`, clock and settings (pure bookkeeping, independent
//!     of rink): catches wrong storing/clearing of `ans`, a stale clock, changed
//!     settings;
//!  2. an in-process reference context driven through the same `rink_core::eval`
//!     with `ans`, flag and clock preset from the model before every query:
//!     catches replies that depend on anything else the live context carries;
//!  3. a brand-new OS process that evaluates only a seeded *subset* of the
//!     history on one fresh context (again with `ans` preset from the model):
//!     catches state that leaks between queries outside the context — a cache
//!     behind a shared reference, a thread-local, a static — which 2. cannot
//!     see because the reference follows the same history in the same process.

use chrono::{DateTime, Local, TimeZone};
use rink_core::output::{QueryError, QueryReply};
use rink_core::parsing::text_query;
use rink_core::types::Number;
use rink_core::{ast::Query, Context};
use serde::{Deserialize, Serialize};
use simkit::rng::Fnv;
use simkit::runner::{Budget, Harness, Outcome, Tier, Violation};
use simkit::{Chooser, Rng};
use std::cell::RefCell;
use std::collections::BTreeMap;

#[derive(Serialize, Deserialize, Clone, Debug, PartialEq)]
pub enum Step {
    Query(String),
    /// Move the clock by this many milliseconds (negative: backwards).
    Clock(i64),
    /// Turn `save_previous_result` on or off.
    Flag(bool),
}

#[derive(Serialize, Deserialize, Clone, Debug, PartialEq)]
pub struct Scenario {
    /// Milliseconds since the epoch at the start of the history.
    pub start_ms: i64,
    pub flag_at_start: bool,
    pub steps: Vec<Step>,
    /// Compare a full Debug dump of the context with a pristine one afterwards.
    pub deep_check: bool,
    /// Per step: include this query in the subset evaluated by a fresh process.
    #[serde(default)]
    pub probe: Vec<bool>,
}

static CURRENCY_SNAPSHOT: &str = include_str!(concat!(
    env!("CARGO_MANIFEST_DIR"),
    "/../../work/repo/core/tests/currency.snapshot.json"
));

fn fresh_context() -> Context {
    let mut ctx = rink_core::simple_context().expect("bundled definitions");
    if let Some(base) = rink_core::CURRENCY_FILE {
        // Failure to load the snapshot would be a harness problem, not a verdict.
        ctx.load_currency(CURRENCY_SNAPSHOT, base)
            .expect("currency snapshot loads");
    }
    ctx
}

fn at(ms: i64) -> DateTime<Local> {
    Local.timestamp_millis_opt(ms).single().expect("valid instant")
}

/// Debug dump of a context with the per-query state normalised away.
fn dump_hash(ctx: &mut Context) -> (u64, usize) {
    let (now, prev, flag) = (ctx.now, ctx.previous_result.take(), ctx.save_previous_result);
    ctx.set_time(at(0));
    ctx.save_previous_result = false;
    let s = format!("{:?}", ctx);
    ctx.set_time(now);
    ctx.previous_result = prev;
    ctx.save_previous_result = flag;
    let mut f = Fnv::default();
    f.bytes(s.as_bytes());
    (f.0, s.len())
}

struct WorkerState {
    reference: Context,
    uses: u32,
    pristine_dump: (u64, usize),
}

thread_local! {
    static STATE: RefCell<Option<WorkerState>> = const { RefCell::new(None) };
}

type Rendered = (serde_json::Value, String);

fn render(r: &Result<QueryReply, QueryError>) -> Rendered {
    // The text is what the CLI shows. The JSON form (what rink-js and the web
    // frontend use) is compared too, but serialising it can panic inside
    // rink-core for a non-finite float (`log2(0)`): that is a defect of another
    // property, so here it only yields a marker that is the same for every
    // context that panics in the same way.
    let text = match r {
        Ok(v) => format!("{}", v),
        Err(e) => format!("ERR {}", e),
    };
    let json = std::panic::catch_unwind(std::panic::AssertUnwindSafe(|| match r {
        Ok(v) => serde_json::json!({"ok": serde_json::to_value(v).unwrap()}),
        Err(e) => serde_json::json!({"err": serde_json::to_value(e).unwrap()}),
    }))
    .unwrap_or_else(|_| serde_json::json!({ "json_serialisation_panicked": text }));
    (json, text)
}

/// Equality of stored answers: floats by bit pattern (NaN is a value `ans`
/// can hold, and NaN != NaN).
fn same_number(a: &Option<Number>, b: &Option<Number>) -> bool {
    use rink_core::types::Numeric;
    match (a, b) {
        (None, None) => true,
        (Some(a), Some(b)) => {
            a.unit == b.unit
                && match (&a.value, &b.value) {
                    (Numeric::Float(x), Numeric::Float(y)) => x.to_bits() == y.to_bits(),
                    (x, y) => x == y,
                }
        }
        _ => false,
    }
}

fn num_text(n: &Option<Number>) -> String {
    match n {
        None => "<none>".into(),
        // Debug, not Serialize: serialising a non-finite float panics in rink-core.
        Some(n) => format!("{:?} {:?}", n.value, n.unit),
    }
}

fn short(s: &str) -> String {
    let s = s.replace('\n', " ");
    if s.chars().count() > 110 {
        let t: String = s.chars().take(110).collect();
        format!("{}…", t)
    } else {
        s
    }
}

/// `rink_core::eval`, with a panic of the evaluator turned into a reply of its
/// own kind. A panic is a defect of another property (totality); for this one
/// it only matters that a fresh context panics in the same way.
fn eval_catching(ctx: &mut Context, line: &str) -> (Option<Result<QueryReply, QueryError>>, Rendered) {
    // Rendering is part of what every frontend does with a reply, and it can
    // panic too (a non-finite float reaching BigRat::from(f64)).
    let r = std::panic::catch_unwind(std::panic::AssertUnwindSafe(|| {
        let r = rink_core::eval(ctx, line);
        let rendered = render(&r);
        (r, rendered)
    }));
    match r {
        Ok((r, rendered)) => (Some(r), rendered),
        Err(p) => {
            let msg = if let Some(s) = p.downcast_ref::<String>() {
                s.clone()
            } else if let Some(s) = p.downcast_ref::<&'static str>() {
                s.to_string()
            } else {
                "<panic>".to_string()
            };
            (None, (serde_json::json!({ "panic": msg }), format!("PANIC {}", msg)))
        }
    }
}

/// The frontend entry point on a context whose carried state is preset: this
/// is "the reply a fresh context would give for the same previous answer"
/// provided nothing but `ans`, flag and clock is carried by the context.
fn eval_preset(
    ctx: &mut Context,
    alt: &Option<Number>,
    flag: bool,
    now: DateTime<Local>,
    line: &str,
) -> Rendered {
    ctx.previous_result = alt.clone();
    ctx.save_previous_result = flag;
    ctx.use_humanize = true;
    Context::sim_set_clock(Some(now));
    let (_, rendered) = eval_catching(ctx, line);
    Context::sim_set_clock(None);
    rendered
}

/// What `ans` may hold after a query that was answered with `got`, given that
/// it held `alt` before (second component: the statement leaves it open).
fn after(
    alt: &Option<Number>,
    got: &Result<QueryReply, QueryError>,
    flag: bool,
    plain: bool,
) -> Vec<(Option<Number>, bool)> {
    match got {
        Ok(QueryReply::Number(parts)) if flag && plain => match &parts.raw_value {
            Some(raw) => vec![(Some(raw.clone()), false)],
            None => vec![(alt.clone(), false)],
        },
        Ok(QueryReply::Number(parts)) if flag => {
            // A numeric reply to something that is not a plain expression (`x ->`
            // with nothing after the arrow): the statement can be read either way.
            let mut v = vec![(alt.clone(), false)];
            if let Some(raw) = &parts.raw_value {
                v.push((Some(raw.clone()), false));
            }
            v
        }
        Ok(QueryReply::Duration(d)) if flag && plain => {
            // A result in seconds is rendered as a duration breakdown; whether it
            // counts as "numeric result" is left open by the statement: accept both.
            let mut v = vec![(alt.clone(), true)];
            if let Some(raw) = &d.raw.raw_value {
                v.push((Some(raw.clone()), true));
            }
            v
        }
        _ => vec![(alt.clone(), false)],
    }
}

// ----- fresh-process evaluation -------------------------------------------------

#[derive(Serialize, Deserialize, Clone)]
struct ProbeItem {
    /// Each alternative of the model in the form `Number`'s derived
    /// `Deserialize` accepts (its `Serialize` goes through a display-oriented
    /// form that does not round-trip), or null.
    alts: Vec<serde_json::Value>,
    now_ms: i64,
    flag: bool,
    line: String,
}

#[derive(Serialize, Deserialize)]
struct ProbeRequest {
    items: Vec<ProbeItem>,
}

#[derive(Serialize, Deserialize)]
struct ProbeReply {
    /// Per item, per alternative.
    replies: Vec<Vec<Rendered>>,
}

fn wire(n: &Option<Number>) -> Option<serde_json::Value> {
    use rink_core::types::Numeric;
    match n {
        None => Some(serde_json::Value::Null),
        Some(n) => {
            let value = match &n.value {
                Numeric::Rational(r) => serde_json::json!({ "Rational": r }),
                // Bit pattern, not a decimal: serde_json's default float parsing
                // may be off by one ulp, which would change the value under test.
                Numeric::Float(f) => serde_json::json!({ "FloatBits": f.to_bits() }),
            };
            Some(serde_json::json!({ "value": value, "unit": n.unit }))
        }
    }
}

fn unwire(v: &serde_json::Value) -> Result<Option<Number>, ()> {
    use rink_core::types::{BigRat, Dimensionality, Numeric};
    if v.is_null() {
        return Ok(None);
    }
    let unit: Dimensionality = serde_json::from_value(v.get("unit").ok_or(())?.clone()).map_err(|_| ())?;
    let value = v.get("value").ok_or(())?;
    let value = if let Some(r) = value.get("Rational") {
        let r: BigRat = serde_json::from_value(r.clone()).map_err(|_| ())?;
        Numeric::Rational(r)
    } else {
        let bits = value.get("FloatBits").and_then(|b| b.as_u64()).ok_or(())?;
        Numeric::Float(f64::from_bits(bits))
    };
    Ok(Some(Number { value, unit }))
}

/// `h-history C15 probe`: one request on stdin, one reply on stdout. All items
/// are evaluated in order on ONE context built in this brand-new process.
pub fn probe_main() -> i32 {
    let mut input = String::new();
    if std::io::Read::read_to_string(&mut std::io::stdin(), &mut input).is_err() {
        return 2;
    }
    let req: ProbeRequest = match serde_json::from_str(&input) {
        Ok(r) => r,
        Err(_) => return 2,
    };
    let mut ctx = fresh_context();
    let mut replies = Vec::new();
    for item in &req.items {
        let mut per_alt = Vec::new();
        for alt in &item.alts {
            let alt: Option<Number> = match unwire(alt) {
                Ok(n) => n,
                Err(()) => return 2,
            };
            per_alt.push(eval_preset(
                &mut ctx,
                &alt,
                item.flag,
                at(item.now_ms),
                &item.line,
            ));
        }
        replies.push(per_alt);
    }
    println!("{}", serde_json::to_string(&ProbeReply { replies }).unwrap());
    0
}

/// Replies of a *fresh process* (fresh context, fresh statics and
/// thread-locals). None: the helper process could not be run.
fn fresh_process_eval(items: &[ProbeItem]) -> Option<Vec<Vec<Rendered>>> {
    use std::io::Write;
    use std::process::{Command, Stdio};
    let exe = std::env::current_exe().ok()?;
    let mut child = Command::new(exe)
        .args(["C15", "probe"])
        .env("TZ", "UTC")
        .env("RUST_BACKTRACE", "0")
        .stdin(Stdio::piped())
        .stdout(Stdio::piped())
        .stderr(Stdio::null())
        .spawn()
        .ok()?;
    let req = ProbeRequest {
        items: items.to_vec(),
    };
    child
        .stdin
        .take()?
        .write_all(serde_json::to_string(&req).ok()?.as_bytes())
        .ok()?;
    let out = child.wait_with_output().ok()?;
    if !out.status.success() {
        return None;
    }
    let rep: ProbeReply = serde_json::from_slice(&out.stdout).ok()?;
    if rep.replies.len() != items.len() {
        return None;
    }
    Some(rep.replies)
}

#[derive(Serialize, Deserialize)]
struct OneRun {
    violation: Option<Violation>,
    history: Vec<String>,
    digest: u64,
    stats: BTreeMap<String, u64>,
}

/// `h-history C15 run-one`: a scenario on stdin, its outcome on stdout.
pub fn run_one_main() -> i32 {
    let mut input = String::new();
    if std::io::Read::read_to_string(&mut std::io::stdin(), &mut input).is_err() {
        return 2;
    }
    let sc: Scenario = match serde_json::from_str(&input) {
        Ok(s) => s,
        Err(_) => return 2,
    };
    let (violation, history, digest, stats) = run_history(&sc, true);
    println!(
        "{}",
        serde_json::to_string(&OneRun {
            violation,
            history,
            digest,
            stats
        })
        .unwrap()
    );
    0
}

#[allow(clippy::type_complexity)]
fn run_one_in_fresh_process(
    sc: &Scenario,
) -> Option<(Option<Violation>, Vec<String>, u64, BTreeMap<String, u64>)> {
    use std::io::Write;
    use std::process::{Command, Stdio};
    let exe = std::env::current_exe().ok()?;
    let mut child = Command::new(exe)
        .args(["C15", "run-one"])
        .env("TZ", "UTC")
        .env("RUST_BACKTRACE", "0")
        .stdin(Stdio::piped())
        .stdout(Stdio::piped())
        .stderr(Stdio::null())
        .spawn()
        .ok()?;
    child
        .stdin
        .take()?
        .write_all(serde_json::to_string(sc).ok()?.as_bytes())
        .ok()?;
    let out = child.wait_with_output().ok()?;
    if !out.status.success() {
        return None;
    }
    let r: OneRun = serde_json::from_slice(&out.stdout).ok()?;
    Some((r.violation, r.history, r.digest, r.stats))
}

/// One observed query, kept for the subset probe.
struct Seen {
    step: usize,
    item: Option<ProbeItem>,
    got: Rendered,
}

fn run_history(
    sc: &Scenario,
    fresh_reference: bool,
) -> (Option<Violation>, Vec<String>, u64, BTreeMap<String, u64>) {
    let stats: RefCell<BTreeMap<String, u64>> = RefCell::new(BTreeMap::new());
    let bump = |k: &str| *stats.borrow_mut().entry(k.to_string()).or_insert(0) += 1;
    let (violation, history, digest) = STATE.with(|st| {
        let mut st = st.borrow_mut();
        let rebuild = match st.as_ref() {
            None => true,
            Some(s) => fresh_reference || s.uses >= 64,
        };
        if rebuild {
            let mut reference = fresh_context();
            let pristine_dump = match st.as_ref() {
                Some(s) => s.pristine_dump,
                None => dump_hash(&mut reference),
            };
            *st = Some(WorkerState {
                reference,
                uses: 0,
                pristine_dump,
            });
        }
        let st = st.as_mut().unwrap();
        st.uses += 1;
        let reference = &mut st.reference;

        // The context under test: fresh for every history, so a run is a pure
        // function of its scenario.
        let mut live = fresh_context();
        live.save_previous_result = sc.flag_at_start;
        let mut flag = sc.flag_at_start;
        let mut now_ms = sc.start_ms;
        // The model: the set of values `ans` may legitimately hold (almost
        // always one; two after a reply the statement leaves open).
        let mut model: Vec<Option<Number>> = vec![None];
        let mut history = Vec::new();
        let mut digest = Fnv::default();
        let mut violation: Option<Violation> = None;
        let mut seen: Vec<Seen> = Vec::new();

        for (i, step) in sc.steps.iter().enumerate() {
            match step {
                Step::Clock(d) => {
                    now_ms += *d;
                    if *d < 0 {
                        bump("clock_jump_back");
                    } else {
                        bump("clock_advance");
                    }
                    history.push(format!("#{} clock {:+} ms", i, d));
                }
                Step::Flag(f) => {
                    flag = *f;
                    live.save_previous_result = *f;
                    bump("flag_toggle");
                    history.push(format!("#{} save_previous_result = {}", i, f));
                }
                Step::Query(line) => {
                    let now = at(now_ms);
                    Context::sim_set_clock(Some(now));
                    let (got, (got_json, got_text)) = eval_catching(&mut live, line);
                    Context::sim_set_clock(None);
                    let got = match got {
                        Some(r) => r,
                        None => {
                            // The evaluator panicked: a totality defect (another
                            // property). Here it counts as a failed query.
                            bump("evaluator_panicked");
                            Err(QueryError::generic(got_text.clone()))
                        }
                    };
                    digest.str(&got_text);

                    let mut iter = text_query::TokenIterator::new(line.trim()).peekable();
                    let query = text_query::parse_query(&mut iter);
                    let plain = matches!(query, Query::Expr(_));

                    // 2. in-process reference, same entry point, state preset from the model
                    let mut matched: Vec<(Option<Number>, bool)> = Vec::new();
                    let mut expected_texts = Vec::new();
                    for alt in &model {
                        let (want_json, want_text) = eval_preset(reference, alt, flag, now, line);
                        if want_json == got_json && want_text == got_text {
                            matched.extend(after(alt, &got, flag, plain));
                        }
                        expected_texts.push(want_text);
                    }
                    reference.previous_result = None;
                    let item = model
                        .iter()
                        .map(wire)
                        .collect::<Option<Vec<_>>>()
                        .map(|alts| ProbeItem {
                            alts,
                            now_ms,
                            flag,
                            line: line.clone(),
                        });
                    if matched.is_empty() {
                        // The shared reference disagrees. Arbitrate with a fresh process
                        // (or, failing that, a fresh in-process context): only that makes
                        // the verdict a pure function of this history.
                        bump("arbitrated_with_pristine_context");
                        let replies: Vec<Rendered> = match item.as_ref().and_then(|it| fresh_process_eval(&[it.clone()])) {
                            Some(mut r) => {
                                bump("pristine_eval_in_fresh_process");
                                r.remove(0)
                            }
                            None => {
                                bump("pristine_eval_in_process_fallback");
                                let mut p = fresh_context();
                                model
                                    .iter()
                                    .map(|alt| eval_preset(&mut p, alt, flag, now, line))
                                    .collect()
                            }
                        };
                        expected_texts = replies.iter().map(|r| r.1.clone()).collect();
                        for (alt, (j, t)) in model.iter().zip(replies.iter()) {
                            if *j == got_json && *t == got_text {
                                matched.extend(after(alt, &got, flag, plain));
                            }
                        }
                        if !matched.is_empty() {
                            // The reference had drifted (state leaked in an earlier
                            // history); replace it and go on with the pristine verdict.
                            bump("shared_reference_had_drifted");
                            *reference = fresh_context();
                        }
                    }
                    if matched.iter().any(|(_, d)| *d) {
                        bump("duration_reply_both_accepted");
                    }
                    let matched: Vec<Option<Number>> = matched.into_iter().map(|(m, _)| m).collect();
                    match &got {
                        Ok(QueryReply::Number(_)) => bump("reply_number"),
                        Ok(QueryReply::Date(_)) => bump("reply_date"),
                        Ok(QueryReply::Duration(_)) => bump("reply_duration"),
                        Ok(QueryReply::Def(_)) => bump("reply_def"),
                        Ok(QueryReply::Conversion(_)) => bump("reply_conversion"),
                        Ok(QueryReply::Substance(_)) => bump("reply_substance"),
                        Ok(QueryReply::UnitList(_)) => bump("reply_unit_list"),
                        Ok(_) => bump("reply_command"),
                        Err(_) => bump("reply_error"),
                    }
                    let uses_ans = line.contains("ans") || line.contains("ANS") || line.contains('_');
                    if uses_ans {
                        bump("query_uses_ans");
                        if model.iter().any(|m| m.is_some()) {
                            bump("query_uses_ans_while_set");
                        }
                    }
                    history.push(format!(
                        "#{} [{}]{} {:?} -> {}",
                        i,
                        if flag { "ans on" } else { "ans off" },
                        if sc.probe.get(i).copied().unwrap_or(false) { " [in fresh-process subset]" } else { "" },
                        line,
                        short(&got_text)
                    ));
                    if matched.is_empty() {
                        violation = Some(Violation {
                            clause: "reply-differs-from-fresh-context".into(),
                            detail: format!(
                                "step {} {:?} (clock {} ms, ans model {}): replied {:?}, a fresh context with the same previous answer replies {:?}",
                                i,
                                line,
                                now_ms,
                                model.iter().map(num_text).collect::<Vec<_>>().join(" | "),
                                short(&got_text),
                                expected_texts.iter().map(|t| short(t)).collect::<Vec<_>>()
                            ),
                        });
                        break;
                    }
                    seen.push(Seen {
                        step: i,
                        item,
                        got: (got_json, got_text),
                    });
                    // dedupe
                    let mut next: Vec<Option<Number>> = Vec::new();
                    for m in matched {
                        if !next.iter().any(|x| same_number(x, &m)) {
                            next.push(m);
                        }
                    }
                    // 1. the stored previous result must be one the model allows
                    if !next.iter().any(|m| same_number(m, &live.previous_result)) {
                        violation = Some(Violation {
                            clause: "ans-state-wrong".into(),
                            detail: format!(
                                "after step {} {:?} (feature {}), the stored previous result is {} but the statement allows only {}",
                                i,
                                line,
                                if flag { "on" } else { "off" },
                                num_text(&live.previous_result),
                                next.iter().map(num_text).collect::<Vec<_>>().join(" | ")
                            ),
                        });
                        break;
                    }
                    // Narrow the model to what the context actually holds.
                    next.retain(|m| same_number(m, &live.previous_result));
                    model = next;
                    if live.now != now {
                        violation = Some(Violation {
                            clause: "clock-not-updated".into(),
                            detail: format!(
                                "after step {} {:?} the context's clock is {} but the (simulated) wall clock is {}",
                                i, line, live.now, now
                            ),
                        });
                        break;
                    }
                    if live.save_previous_result != flag || !live.use_humanize {
                        violation = Some(Violation {
                            clause: "settings-changed".into(),
                            detail: format!(
                                "step {} {:?} changed the context's settings (save_previous_result {} -> {}, use_humanize true -> {})",
                                i, line, flag, live.save_previous_result, live.use_humanize
                            ),
                        });
                        break;
                    }
                }
            }
        }
        // 3. the subset probe in a fresh process
        if violation.is_none() {
            let subset: Vec<&Seen> = seen
                .iter()
                .filter(|s| sc.probe.get(s.step).copied().unwrap_or(false) && s.item.is_some())
                .collect();
            if !subset.is_empty() {
                bump("fresh_process_subset_probe");
                let items: Vec<ProbeItem> = subset.iter().map(|s| s.item.clone().unwrap()).collect();
                match fresh_process_eval(&items) {
                    Some(replies) => {
                        for _ in 0..items.len() {
                            bump("queries_checked_in_fresh_process");
                        }
                        for (s, per_alt) in subset.iter().zip(replies.iter()) {
                            if !per_alt.iter().any(|(j, t)| *j == s.got.0 && *t == s.got.1) {
                                violation = Some(Violation {
                                    clause: "reply-differs-from-fresh-context".into(),
                                    detail: format!(
                                        "step {} {:?}: replied {:?}; a brand-new process that evaluated only steps {:?} of this history (same previous answer, flag and clock) replies {:?}",
                                        s.step,
                                        s.item.as_ref().unwrap().line,
                                        short(&s.got.1),
                                        subset.iter().map(|x| x.step).collect::<Vec<_>>(),
                                        per_alt.iter().map(|r| short(&r.1)).collect::<Vec<_>>()
                                    ),
                                });
                                break;
                            }
                        }
                    }
                    None => bump("fresh_process_unavailable"),
                }
            }
        }
        if violation.is_none()
            && sc.deep_check
            && std::env::var_os("VERIF_C15_NO_DUMP").is_none()
        {
            // VERIF_C15_NO_DUMP=1 (experiments only) skips this comparison to see
            // what the other checks catch on their own.
            bump("deep_check");
            let d = dump_hash(&mut live);
            if d != st.pristine_dump {
                // The representation differs from a pristine context's. That alone is
                // not a violation (a lazily built index or a correct cache is allowed):
                // what the property forbids is a different *answer*. So the context is
                // now questioned: a fixed battery plus every query of this history, with
                // ans unset and a fixed clock, against a brand-new process.
                bump("context_dump_differs_from_pristine");
                let mut questions: Vec<String> = BATTERY.iter().map(|q| q.to_string()).collect();
                for st in &sc.steps {
                    if let Step::Query(q) = st {
                        if !questions.contains(q) {
                            questions.push(q.clone());
                        }
                    }
                }
                let when = sc.start_ms;
                let items: Vec<ProbeItem> = questions
                    .iter()
                    .map(|q| ProbeItem {
                        alts: vec![serde_json::Value::Null],
                        now_ms: when,
                        flag: false,
                        line: q.clone(),
                    })
                    .collect();
                let fresh: Vec<Rendered> = match fresh_process_eval(&items) {
                    Some(r) => r.into_iter().map(|mut v| v.remove(0)).collect(),
                    None => {
                        let mut p = fresh_context();
                        questions
                            .iter()
                            .map(|q| eval_preset(&mut p, &None, false, at(when), q))
                            .collect()
                    }
                };
                for (q, want) in questions.iter().zip(fresh.iter()) {
                    let got = eval_preset(&mut live, &None, false, at(when), q);
                    if got != *want {
                        violation = Some(Violation {
                            clause: "database-changed".into(),
                            detail: format!(
                                "after the history the context differs from a pristine one (Debug dump {} bytes hash {:016x} vs {} bytes hash {:016x}) and answers differently: {:?} -> {:?}, a brand-new process answers {:?}",
                                d.1, d.0, st.pristine_dump.1, st.pristine_dump.0, q, short(&got.1), short(&want.1)
                            ),
                        });
                        break;
                    }
                }
                if violation.is_none() {
                    bump("representation_differs_but_answers_agree");
                }
            }
        }
        (violation, history, digest.0)
    });
    let stats = stats.into_inner();
    (violation, history, digest, stats)
}

pub struct C15;

fn uniq(rng: &mut Rng, i: usize) -> u64 {
    (i as u64 + 1) * 1000 + rng.below(900) + 1
}

include!(concat!(env!("OUT_DIR"), "/repo_queries.rs"));

/// Questions put to a context whose dump differs from a pristine one.
const BATTERY: [&str; 22] = [
    "foot",
    "3 foot -> meter",
    "kilogram",
    "search feet",
    "search kilogarm",
    "units for energy",
    "1 USD -> EUR",
    "water",
    "now",
    "#2000-01-01#",
    "ans",
    "_",
    "zzz",
    "kilogarm",
    "1 m + 1 s",
    "pi",
    "c",
    "12 hours",
    "100 km/hour -> mph",
    "factorize velocity",
    "gallon -> liter",
    "5 degC -> degF",
];

/// Identifiers shared by several query kinds, so that different code paths
/// (evaluation, error suggestions, search, units-for, conversions) meet the
/// same names within one history.
const WORDS: [&str; 10] = [
    "kilogarm", "metre5", "feets", "asdfqwer", "secnod", "speed", "foot", "energy", "gold", "USD",
];

fn gen_query(rng: &mut Rng, i: usize, weights: &[u64; 15]) -> String {
    let n = uniq(rng, i);
    let m = 2 + rng.below(17);
    match rng.weighted(weights) {
        // plain numeric expressions with unique values
        0 => match rng.below(12) {
            // results whose exact form is far beyond what is displayed: `ans`
            // must still be the exact value
            10 => match rng.below(5) {
                0 => format!("2^{} + {}", 280 + m, n),
                1 => format!("1/3^{}", 190 + m),
                2 => format!("googol + {}", n),
                3 => format!("(1/7)^{} m", 95 + m),
                _ => format!("{} * 10^-{}", n, 85 + m),
            },
            11 => match rng.below(3) {
                0 => format!("ans - 2^{}", 280 + m),
                1 => "ans mod 10".to_string(),
                _ => format!("ans * 3^{}", 190 + m),
            },
            0 => format!("{}", n),
            1 => format!("{} + {}", n, m),
            2 => format!("{} m", n),
            3 => format!("{} kg * {}", n, m),
            4 => format!("3 foot + {} inch", n),
            5 => format!("{}/{}", n, m),
            6 => format!("sqrt({} m^2)", n),
            7 => format!("{} km / hour", n),
            8 => format!("{}%", n),
            _ => format!("{}.5e3 W", n),
        },
        // uses of ans / ANS / _
        1 => match rng.below(14) {
            0 => "ans".to_string(),
            1 => format!("ans + {}", m),
            2 => format!("ANS * {}", m),
            3 => format!("_ / {}", m),
            4 => format!("{} * _", m),
            5 => "ans -> inch".to_string(),
            6 => "ans m".to_string(),
            7 => "sqrt(ans)".to_string(),
            8 => "-ans".to_string(),
            9 => "ans^2".to_string(),
            10 => "1/ans".to_string(),
            11 => "ans + ANS + _".to_string(),
            12 => "ans -> digits 20".to_string(),
            _ => "ans - ans".to_string(),
        },
        // conversions
        2 => match rng.below(9) {
            0 => format!("{} foot -> meter", n),
            1 => format!("{} km -> mile, foot", n),
            2 => format!("{} -> hex", n),
            3 => format!("{}/7 -> digits 30", n),
            4 => format!("{} degC -> degF", m),
            5 => format!("{} m -> fraction", n),
            6 => format!("{} USD -> EUR", n),
            7 => format!("{} s -> hour, minute, second", n),
            _ => format!("{} -> scientific", n),
        },
        // definition look-ups
        3 => (*rng.pick(&[
            "foot", "kilogram", "c", "speed", "pi", "lightyear", "USD", "gallon", "hbar", "dozen", "million",
            "percent", "half", "googol", "kilo", "mole",
        ]))
        .to_string(),
        // commands
        4 => (*rng.pick(&[
            "units for energy",
            "units for length",
            "factorize velocity",
            "factorize area",
            "search spd",
            "search feet",
        ]))
        .to_string(),
        // substances
        5 => (*rng.pick(&["water", "density of water", "gold", "molar_mass of gold", "air"])).to_string(),
        // date results and timezone conversions
        6 => match rng.below(8) {
            0 => "now".to_string(),
            1 => format!("now + {} hour", m),
            2 => "#2020-01-01# - now".to_string(),
            3 => "#jan 01, 1970#".to_string(),
            4 => "now -> \"US/Pacific\"".to_string(),
            5 => "#2000-01-01# -> UTC".to_string(),
            6 => "#2000-01-01#".to_string(),
            _ => format!("now - {} day", m),
        },
        // results in seconds
        7 => match rng.below(4) {
            0 => format!("{} s", n),
            1 => format!("{} hours", m),
            2 => format!("{} minute + {} s", m, n),
            _ => format!("{} m / ({} m/s)", n, m),
        },
        // failing queries of each class
        8 => (*rng.pick(&[
            "1 +",
            "1 m + 1 s",
            "1/0",
            "",
            "3 foot -> kg",
            "(((",
            "#not a date#",
            "ans ans ans ->",
            "sqrt(1 m)",
            "1 ->",
            "5 m -> UTC",
            "5 m -> \"US/Pacific\"",
            "3 kg -> +05:00",
            "#2000-13-45#",
        ]))
        .to_string(),
        // things that look like `ans` but are not
        9 => (*rng.pick(&["answer", "ans_", "_ans", "Ans", "anshin", "__"])).to_string(),
        // a query from the repository's own query tests, verbatim
        11 if !REPO_QUERIES.is_empty() => (*rng.pick(REPO_QUERIES)).to_string(),
        // ... or with `ans` put where its first number was
        12 if !REPO_QUERIES.is_empty() => {
            let q = *rng.pick(REPO_QUERIES);
            let digits = q.chars().take_while(|c| c.is_ascii_digit() || *c == '.').count();
            if digits > 0 {
                format!("ans{}", &q[digits..])
            } else {
                format!("ans * ({})", q)
            }
        }
        // derived SI units: results whose display unit is a choice among equals,
        // and conversions to a bare derived unit of the same dimension
        13 => {
            let k = 2 + rng.below(40);
            match rng.below(22) {
                0 => format!("{} V / {} A", k, m),
                1 => format!("{} A / {} V", k, m),
                2 => format!("{} J / {} s", k, m),
                3 => format!("{} V * {} A", k, m),
                4 => format!("{} N * {} m", k, m),
                5 => format!("{} tesla m", k),
                6 => "kg joule / s".to_string(),
                7 => format!("{} weber / m^2", k),
                8 => format!("{} C / {} V", k, m),
                9 => format!("{} N / m^2", k),
                10 => "1/ohm".to_string(),
                11 => format!("{} W s", k),
                12 => format!("{} V / {} A -> ohm", k, m),
                13 => "1/ohm -> siemens".to_string(),
                14 => format!("{} A / {} V -> siemens", k, m),
                15 => format!("{} J / {} s -> watt", k, m),
                16 => format!("{} N -> newton", k),
                17 => format!("{} kg m / s^2 -> newton", k),
                18 => format!("{} N / m^2 -> pascal", k),
                19 => format!("{} C / {} V -> farad", k, m),
                20 => format!("{} weber / {} A -> henry", k, m),
                _ => format!("{} W s -> joule", k),
            }
        }
        // date literals in every notation the bundled patterns know, well-formed
        // and not: what one literal leaves behind in the parser (a remembered
        // pattern, zone or "today") only shows in the next one
        14 => (*rng.pick(&[
            "#2020-03-01 14:00#",
            "#2020-03-01T14:00#",
            "#2020-03-01 14:00:30 +05:00#",
            "#jan 5, 2020 14:00#",
            "#jan 5, 2020 2:00 pm#",
            "#jan 5, 2020#",
            "#jan 5#",
            "#13:45#",
            "#12:00 pm#",
            "#1:30:15 am#",
            "#2020-03-01#",
            "#--03-01#",
            "#2020-060#",
            "#1 BC#",
            "#2020-02-30#",
            "#feb 30#",
            "#tomorrow#",
            "#25:00#",
            "#13:45 pm#",
            "#2020-13-01 10:00#",
            "#jan 32, 2020#",
            "#2020-03-01 24:30#",
            "#2020-03-01 14:00 +25:00#",
            "#march#",
            "#13:45# - #12:00 pm#",
            "#2020-03-01 14:00# - #jan 5, 2020 14:00#",
            "#2020-03-01 14:00# -> \"US/Pacific\"",
            "#13:45# -> UTC",
        ]))
        .to_string(),
        // one shared identifier through different kinds of query
        _ => {
            let w = *rng.pick(&WORDS);
            match rng.below(8) {
                0 => w.to_string(),
                1 => format!("{} {}", m, w),
                2 => format!("search {}", w),
                3 => format!("units for {}", w),
                4 => format!("{} m -> {}", m, w),
                5 => format!("{} {} -> m", m, w),
                6 => format!("{} of {}", w, w),
                _ => format!("1 / {}", w),
            }
        }
    }
}

#[allow(dead_code)]
fn remove_step(c: &mut Scenario, i: usize) {
    c.steps.remove(i);
    if i < c.probe.len() {
        c.probe.remove(i);
    }
}

impl Harness for C15 {
    type Scenario = Scenario;

    fn property(&self) -> &'static str {
        "C15"
    }

    fn budget(&self, tier: Tier) -> Budget {
        match tier {
            Tier::Quick => Budget {
                runs: 7_000,
                soft_s: 60,
            },
            Tier::Thorough => Budget {
                runs: 400_000,
                soft_s: 900,
            },
        }
    }

    fn generate(&self, rng: &mut Rng, tier: Tier, _index: u64) -> Scenario {
        let mut weights = [5u64, 5, 3, 2, 1, 1, 2, 2, 3, 1, 4, 4, 2, 3, 2];
        for w in weights.iter_mut() {
            if rng.chance(1, 5) {
                *w = 0;
            }
        }
        if weights[0] == 0 && weights[1] == 0 {
            weights[0] = 3;
            weights[1] = 3;
        }
        let max = match tier {
            Tier::Quick => 16,
            Tier::Thorough => {
                if rng.chance(1, 8) {
                    60
                } else {
                    16
                }
            }
        };
        let n = 1 + rng.below(max) as usize;
        let mut steps = Vec::new();
        for i in 0..n {
            if rng.chance(1, 6) {
                steps.push(Step::Clock(*rng.pick(&[
                    1i64,
                    1000,
                    3_600_000,
                    86_400_000 * 400,
                    -1000,
                    -86_400_000,
                ])));
            }
            if rng.chance(1, 8) {
                steps.push(Step::Flag(rng.chance(1, 2)));
            }
            steps.push(Step::Query(gen_query(rng, i, &weights)));
        }
        // The fresh-process subset: each query with probability 1/3, and always
        // the last one (leaked state needs earlier queries to exist); 3 histories in 4.
        let mut probe = vec![false; steps.len()];
        if rng.chance(3, 4) {
            let mut last_q = None;
            for (i, s) in steps.iter().enumerate() {
                if matches!(s, Step::Query(_)) {
                    probe[i] = rng.chance(1, 3);
                    last_q = Some(i);
                }
            }
            if let Some(i) = last_q {
                probe[i] = true;
            }
        }
        Scenario {
            start_ms: *rng.pick(&[1_470_166_240_000i64, 1_700_000_000_123, 946_684_799_999, 4_102_444_800_000]),
            flag_at_start: !rng.chance(1, 5),
            steps,
            deep_check: rng.chance(1, 8),
            probe,
        }
    }

    fn execute(&self, sc: &Scenario, chooser: Chooser, _keep_log: bool) -> Outcome {
        // Generated runs execute in the worker process (fast). Replays - the
        // minimiser's candidates, `--replay`, the determinism self-test - run in a
        // brand-new process, so that a replay file reproduces on its own even when
        // the violation involves state that lives in the process (a thread-local
        // or static) rather than in the context.
        let (violation, history, digest, mut stats) = if chooser.is_replay() {
            match run_one_in_fresh_process(sc) {
                Some(r) => r,
                None => {
                    let mut r = run_history(sc, true);
                    *r.3.entry("replay_in_process_fallback".to_string()).or_insert(0) += 1;
                    r
                }
            }
        } else {
            run_history(sc, false)
        };
        let nontrivial = sc.steps.iter().filter(|s| matches!(s, Step::Query(_))).count() > 1;
        if sc.steps.len() > 100 {
            *stats.entry("combined_history".to_string()).or_insert(0) += 1;
        }
        Outcome {
            violation,
            digest,
            choices: Vec::new(),
            stats,
            sim_ns: {
                let total: i64 = sc
                    .steps
                    .iter()
                    .map(|s| match s {
                        Step::Clock(d) => d.abs(),
                        _ => 0,
                    })
                    .sum();
                (total as u64).saturating_mul(1_000_000)
            },
            history: if history.len() > 60 {
                let mut h = history[..10].to_vec();
                h.push(format!("... {} more ...", history.len() - 40));
                h.extend_from_slice(&history[history.len() - 30..]);
                h
            } else {
                history
            },
            nontrivial,
            log: Vec::new(),
        }
    }

    fn combine(&self, earlier: &[Scenario], current: &Scenario) -> Option<Scenario> {
        // One history: the earlier ones back to back (each starting with its own
        // flag), then the current one at its own clock and with its own subset.
        let first = earlier.first().unwrap_or(current);
        let mut steps = Vec::new();
        let mut probe = Vec::new();
        let mut now = first.start_ms;
        for sc in earlier.iter().chain(std::iter::once(current)) {
            let is_current = std::ptr::eq(sc, current);
            steps.push(Step::Flag(sc.flag_at_start));
            probe.push(false);
            if is_current && sc.start_ms != now {
                steps.push(Step::Clock(sc.start_ms - now));
                probe.push(false);
                now = sc.start_ms;
            }
            for (i, st) in sc.steps.iter().enumerate() {
                if let Step::Clock(d) = st {
                    now += *d;
                }
                steps.push(st.clone());
                probe.push(is_current && sc.probe.get(i).copied().unwrap_or(false));
            }
        }
        Some(Scenario {
            start_ms: first.start_ms,
            flag_at_start: first.flag_at_start,
            steps,
            deep_check: current.deep_check,
            probe,
        })
    }

    fn shrink(&self, sc: &Scenario) -> Vec<Scenario> {
        let mut out = Vec::new();
        // Delta-debugging order: remove chunks of n/2, n/4, ... steps, then single steps.
        let n = sc.steps.len();
        if n > 1 {
            let mut chunk = n / 2;
            while chunk >= 1 {
                let mut start = 0;
                while start < n {
                    let end = (start + chunk).min(n);
                    if end - start < n {
                        let mut c = sc.clone();
                        c.steps.drain(start..end);
                        if c.probe.len() >= end {
                            c.probe.drain(start..end);
                        } else {
                            c.probe.clear();
                        }
                        out.push(c);
                    }
                    start = end;
                }
                if chunk == 1 {
                    break;
                }
                chunk /= 2;
            }
        }
        // fewer steps in the fresh-process subset
        for i in 0..sc.probe.len() {
            if sc.probe[i] {
                let mut c = sc.clone();
                c.probe[i] = false;
                out.push(c);
            }
        }
        for (i, s) in sc.steps.iter().enumerate() {
            match s {
                Step::Clock(d) if *d != 1000 => {
                    let mut c = sc.clone();
                    c.steps[i] = Step::Clock(1000);
                    out.push(c);
                }
                Step::Query(q) if q != "1" && !q.contains("ans") && !q.contains('_') && !q.contains("ANS") => {
                    let mut c = sc.clone();
                    c.steps[i] = Step::Query("1".into());
                    out.push(c);
                }
                Step::Query(q) if q != "ans" && (q.contains("ans") || q.contains('_') || q.contains("ANS")) => {
                    let mut c = sc.clone();
                    c.steps[i] = Step::Query("ans".into());
                    out.push(c);
                }
                _ => {}
            }
        }
        if !sc.flag_at_start {
            let mut c = sc.clone();
            c.flag_at_start = true;
            out.push(c);
        }
        if sc.deep_check {
            let mut c = sc.clone();
            c.deep_check = false;
            out.push(c);
        }
        if sc.start_ms != 1_470_166_240_000 {
            let mut c = sc.clone();
            c.start_ms = 1_470_166_240_000;
            out.push(c);
        }
        out
    }

    fn minimise_budget(&self) -> (u64, std::time::Duration) {
        // Replays run in a fresh process (~0.1 s each).
        (1500, std::time::Duration::from_secs(120))
    }

    fn key(&self, sc: &Scenario) -> String {
        sc.steps
            .iter()
            .filter_map(|s| match s {
                Step::Query(q) => Some(q.clone()),
                _ => None,
            })
            .collect::<Vec<_>>()
            .join(" ; ")
    }

    fn label(&self, sc: &Scenario) -> String {
        format!(
            "{}{}",
            if sc.probe.iter().any(|p| *p) {
                "with-fresh-process-subset"
            } else {
                "in-process-checks-only"
            },
            if sc.deep_check { "+database-dump" } else { "" }
        )
    }

    fn rule(&self) -> String {
        "One evaluation = one seeded history of 1..16 (thorough: up to 60) queries on one fresh Context (bundled definitions + currency snapshot) \
         driven only through rink_core::eval under a virtual wall clock, interleaved with clock advances, backward clock jumps and toggles of \
         save_previous_result. Queries come from a per-history weighted pool: plain numeric expressions with unique values, uses of ans/ANS/_ in every \
         operand position and as conversion source, conversions (unit, list, base, digits, temperature, currency, timezone), definition look-ups, units for / \
         factorize / search, substances, date results, results in seconds, failing queries of each error class, the empty line, names that merely \
         resemble ans, a small vocabulary of identifiers used through several query kinds, derived-unit algebra and conversions to bare derived units, \
         date literals in every notation the bundled patterns know (well-formed and malformed), and the ~200 queries of the repository's own core/tests/query.rs \
         (verbatim, and with ans substituted for their first number). After every query the reply (JSON and text) is compared with \
         the reply of an in-process reference context driven through the same entry point with ans, flag and clock preset from a model of ans, and the \
         stored previous result, clock and settings are compared with the model; a disagreement is arbitrated by a brand-new process. In 3 histories of 4 a seeded \
         subset of the queries (each with probability 1/3, always the last) is evaluated in order by a brand-new OS process on one fresh context with ans preset, \
         and compared; 1 history in 8 also compares a full Debug dump of the context with a pristine one. Non-trivial = at least two queries; distinct = distinct \
         digest of (scenario, all replies)."
            .into()
    }

    fn assumptions(&self) -> Vec<String> {
        vec![
            "No concurrency or I/O exists here: the simulator contributes the clock seam, the history generator, the reference model and replay/minimisation".into(),
            "'Fresh context' is realised three ways: a model of ans/clock/settings; an in-process reference with its carried state preset before every query (rebuilt every 64 histories and for every replay); a brand-new process per history for a seeded subset of the queries".into(),
            "State that leaks outside the context (thread-local, static) is only visible to the fresh-process subset, i.e. with the probability that the subset contains the affected query but not its cause".into(),
            "A reply in seconds (rendered as a duration breakdown) may or may not count as a 'numeric result': the model accepts both until the next use of ans disambiguates".into(),
            "Seeded sampling: a clean batch is evidence, not proof".into(),
        ]
    }

    fn real_vs_stub(&self) -> serde_json::Value {
        serde_json::json!({
            "rink_core::eval (helpers.rs), Context, parser, evaluator, bundled definitions.units / currency.units / datepatterns.txt": "real",
            "wall clock (Local::now in Context::update_time)": "simulated (thread-local seam)",
            "frontends (cli/src/repl.rs, rink-js)": "stub (the harness calls rink_core::eval as they do)",
        })
    }

    fn expected_probes(&self) -> Vec<&'static str> {
        vec![
            "reply_number",
            "reply_error",
            "reply_conversion",
            "reply_def",
            "reply_date",
            "reply_duration",
            "reply_command",
            "reply_substance",
            "query_uses_ans_while_set",
            "clock_jump_back",
            "flag_toggle",
            "deep_check",
            "fresh_process_subset_probe",
            "queries_checked_in_fresh_process",
            "duration_reply_both_accepted",
        ]
    }
}

/// Cost probe (debugging aid): ./target/release/h-history time x
pub fn timing() {
    let t = std::time::Instant::now();
    let mut ctx = rink_core::simple_context().unwrap();
    println!("simple_context {:?}", t.elapsed());
    let t = std::time::Instant::now();
    ctx.load_currency(CURRENCY_SNAPSHOT, rink_core::CURRENCY_FILE.unwrap()).unwrap();
    println!("load_currency {:?}", t.elapsed());
    let t = std::time::Instant::now();
    let d = dump_hash(&mut ctx);
    println!("dump_hash {:?} {:?}", t.elapsed(), d);
    for q in ["log2(0)", "log10(-1) m"] {
        let r = rink_core::eval(&mut ctx, q);
        let text = r.as_ref().map(|v| v.to_string()).unwrap_or_else(|e| e.to_string());
        let json = std::panic::catch_unwind(std::panic::AssertUnwindSafe(|| {
            serde_json::to_string(r.as_ref().unwrap()).unwrap()
        }));
        println!("{:?}: Display = {:?}; serde_json = {}", q, text, if json.is_ok() { "ok" } else { "PANICS" });
    }
    let mut rng = Rng::new(1);
    let w = [1u64; 15];
    let mut worst: Vec<(u128, String)> = Vec::new();
    for i in 0..3000 {
        let q = gen_query(&mut rng, i % 16, &w);
        let t = std::time::Instant::now();
        let _ = rink_core::eval(&mut ctx, &q);
        worst.push((t.elapsed().as_micros(), q));
    }
    worst.sort();
    worst.reverse();
    worst.dedup_by(|a, b| a.1 == b.1);
    for (us, q) in worst.iter().take(12) {
        println!("{:>8} us  {:?}", us, q);
    }
}
