//! Extracts the query strings of the repository's own query tests
//! (core/tests/query.rs, first argument of every `test("...", ...)` call) so
//! that the history generator can mix realistic queries of every kind the
//! maintainers thought worth testing into its histories.
use std::{env, fs, path::PathBuf};

fn main() {
    let manifest = PathBuf::from(env::var("CARGO_MANIFEST_DIR").unwrap());
    let src = manifest.join("../../work/repo/core/tests/query.rs");
    println!("cargo:rerun-if-changed={}", src.display());
    println!("cargo:rerun-if-changed=build.rs");
    let text = fs::read_to_string(&src).unwrap_or_default();
    let mut out = String::from("pub const REPO_QUERIES: &[&str] = &[\n");
    let mut seen = std::collections::BTreeSet::new();
    let bytes = text.as_bytes();
    let mut i = 0;
    while let Some(pos) = text[i..].find("test(") {
        let mut j = i + pos + 5;
        i = j;
        while j < bytes.len() && (bytes[j] as char).is_whitespace() {
            j += 1;
        }
        if j >= bytes.len() || bytes[j] != b'"' {
            continue;
        }
        // scan the string literal
        let start = j;
        j += 1;
        let mut ok = false;
        while j < bytes.len() {
            match bytes[j] {
                b'\\' => j += 2,
                b'"' => {
                    ok = true;
                    break;
                }
                _ => j += 1,
            }
        }
        if !ok {
            break;
        }
        let lit = &text[start..=j];
        // factorize/units-for on large dimension sets can take seconds
        if lit.len() <= 120 && !lit.contains("factorize") && seen.insert(lit.to_string()) {
            out.push_str("    ");
            out.push_str(lit);
            out.push_str(",\n");
        }
        i = j;
    }
    out.push_str("];\n");
    let dst = PathBuf::from(env::var("OUT_DIR").unwrap()).join("repo_queries.rs");
    fs::write(dst, out).unwrap();
}
