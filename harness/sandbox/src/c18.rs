//! C18 — Sandbox: one reply per request, and recovery after any failure.
//!
//! Real code under simulation: sandbox/src/{parent,child,frame,error,lib,alloc}.rs.
//! Stubs: executor, timers, process table, pipes, ctrl-c, exit (simkit), the
//! `Service` implementation and the client loop (this file).

use rink_sandbox::{Alloc, Error, Sandbox, Service};
use serde::{Deserialize, Serialize};
use simkit::runner::{Budget, Harness, Outcome, Tier, Violation};
use simkit::world::{sleep_ns, RunEnd, ThreadEnd};
use simkit::{Chooser, Policy, Rng, World, WorldCfg};
use std::alloc::{GlobalAlloc, Layout};
use std::cell::RefCell;
use std::ffi::OsString;
use std::rc::Rc;
use std::sync::Arc;
use std::time::Duration;

// ----- the service that runs inside the simulated child ---------------------

#[derive(Serialize, Deserialize, Clone, Debug)]
pub struct SvcCfg {
    pub timeout_ns: u64,
    pub mem_limit: u64,
    /// Simulated time the child needs to start (rink's real child loads its
    /// database here).
    #[serde(default)]
    pub startup_ns: u64,
}

#[derive(Serialize, Deserialize, Debug)]
pub enum Request {
    Add(i64, i64),
    Panic(u32),
    Sleep(u64),
    AllocBeyond,
    Exit(i32),
    Large(Vec<u8>),
    /// Hold this many bytes of tracked memory at once, then release them
    /// (used by the C19 check to observe `memory_used`).
    Hold(u64),
}

#[derive(Serialize, Deserialize, Debug, PartialEq, Eq, Clone)]
pub enum Reply {
    Sum(i64),
    Slept(u64),
    Echo(u64, Vec<u8>),
    Survived,
    Held(u64),
}

pub struct TestSvc {
    #[allow(dead_code)]
    cfg: SvcCfg,
    /// What the service keeps between requests (rink's context plays this
    /// part): the block of the last `Hold`, as (address, size).
    resident: std::sync::Mutex<Option<(usize, usize)>>,
}

thread_local! {
    /// The allocator of the simulated child process this thread is.
    static CHILD_ALLOC: RefCell<Option<Arc<Alloc>>> = const { RefCell::new(None) };
}

fn child_alloc() -> Arc<Alloc> {
    CHILD_ALLOC.with(|a| a.borrow().clone().expect("not a simulated child"))
}

impl Service for TestSvc {
    type Req = Request;
    type Res = Reply;
    type Config = SvcCfg;

    fn program() -> Option<std::path::PathBuf> {
        Some("simchild".into())
    }

    fn args(_config: &SvcCfg) -> Vec<OsString> {
        vec!["--child".into()]
    }

    fn timeout(config: &SvcCfg) -> Duration {
        Duration::from_nanos(config.timeout_ns)
    }

    fn create(config: SvcCfg) -> Result<Self, std::io::Error> {
        // As cli/src/service.rs does: the limit arrives with the handshake.
        child_alloc().set_limit(config.mem_limit as usize);
        if config.startup_ns > 0 {
            simkit::shim::child::sleep(Duration::from_nanos(config.startup_ns));
        }
        Ok(TestSvc {
            cfg: config,
            resident: std::sync::Mutex::new(None),
        })
    }

    fn handle(&self, request: Request) -> Reply {
        let alloc = child_alloc();
        // Every request uses a little tracked memory.
        let small = Layout::from_size_align(64, 8).unwrap();
        let p = unsafe { alloc.alloc(small) };
        if p.is_null() {
            simkit::shim::child::abort();
        }
        let reply = match request {
            Request::Add(a, b) => Reply::Sum(a + b),
            Request::Panic(n) => {
                unsafe { alloc.dealloc(p, small) };
                panic!("boom {}", n);
            }
            Request::Sleep(ns) => {
                simkit::shim::child::sleep(Duration::from_nanos(ns));
                Reply::Slept(ns)
            }
            Request::AllocBeyond => {
                let big = Layout::from_size_align(self.cfg.mem_limit as usize + 1, 8).unwrap();
                let q = unsafe { alloc.alloc(big) };
                if q.is_null() {
                    // What handle_alloc_error does in a real child.
                    simkit::shim::child::abort();
                }
                unsafe { alloc.dealloc(q, big) };
                Reply::Survived
            }
            Request::Exit(code) => simkit::shim::child::exit(code),
            Request::Hold(k) => {
                // The block stays resident until the next `Hold` replaces it: a
                // request may free what was there before it started and hold
                // something of its own, as a query that rebuilds part of the
                // context does.
                let mut resident = self.resident.lock().unwrap();
                if let Some((old, size)) = resident.take() {
                    unsafe { alloc.dealloc(old as *mut u8, Layout::from_size_align(size, 8).unwrap()) };
                }
                let layout = Layout::from_size_align(k.max(1) as usize, 8).unwrap();
                let q = unsafe { alloc.alloc(layout) };
                if q.is_null() {
                    simkit::shim::child::abort();
                }
                unsafe { *q = 1 };
                *resident = Some((q as usize, layout.size()));
                Reply::Held(k)
            }
            Request::Large(data) => {
                // The payload lives in tracked memory while it is processed.
                let held = Layout::from_size_align(data.len().max(1), 8).unwrap();
                let h = unsafe { alloc.alloc(held) };
                if h.is_null() {
                    simkit::shim::child::abort();
                }
                unsafe { alloc.dealloc(h, held) };
                let sum: u64 = data.iter().map(|b| *b as u64).sum();
                let back: Vec<u8> = data.iter().map(|b| b ^ 0x5a).collect();
                Reply::Echo(sum, back)
            }
        };
        unsafe { alloc.dealloc(p, small) };
        reply
    }
}

pub(crate) fn child_main(_args: Vec<OsString>) {
    let alloc = Arc::new(Alloc::new(usize::MAX));
    CHILD_ALLOC.with(|a| *a.borrow_mut() = Some(alloc.clone()));
    // The framing asks this process's own allocator whether the frame fits.
    let probe_alloc = alloc.clone();
    simkit::shim::child::set_alloc_probe(Some(Box::new(move |n| {
        let layout = match Layout::from_size_align(n.max(1), 8) {
            Ok(l) => l,
            Err(_) => return false,
        };
        let p = unsafe { probe_alloc.alloc(layout) };
        if p.is_null() {
            false
        } else {
            unsafe { probe_alloc.dealloc(p, layout) };
            true
        }
    })));
    struct Clear;
    impl Drop for Clear {
        fn drop(&mut self) {
            CHILD_ALLOC.with(|a| *a.borrow_mut() = None);
        }
    }
    let _clear = Clear;
    rink_sandbox::become_child::<TestSvc, _>(&alloc);
}

// ----- scenario --------------------------------------------------------------

#[derive(Serialize, Deserialize, Clone, Debug, PartialEq)]
pub enum Op {
    Add(i64, i64),
    Panic(u32),
    /// Sleep for this many nanoseconds.
    Sleep(u64),
    AllocBeyond,
    Exit(i32),
    /// Payload length and seed byte.
    Large(u32, u8),
}

impl Op {
    fn kind(&self) -> &'static str {
        match self {
            Op::Add(..) => "Add",
            Op::Panic(..) => "Panic",
            Op::Sleep(..) => "Sleep",
            Op::AllocBeyond => "AllocBeyond",
            Op::Exit(..) => "Exit",
            Op::Large(..) => "Large",
        }
    }
}

#[derive(Serialize, Deserialize, Clone, Debug, PartialEq)]
pub struct Req {
    pub gap_ns: u64,
    pub op: Op,
}

#[derive(Serialize, Deserialize, Clone, Debug, PartialEq)]
pub enum End {
    Terminate,
    Drop,
}

#[derive(Serialize, Deserialize, Clone, Debug, PartialEq)]
pub enum Extra {
    /// Raise ctrl-c just before request `at` is issued (idle interrupt) or,
    /// with `during`, while it is in flight.
    CtrlC { at: usize, during: bool },
    /// Every pipe transfer the child writes takes this long (a slow child):
    /// a reply of several transfers may legitimately run into the time limit.
    SlowPipe { cost_ns: u64 },
}

#[derive(Serialize, Deserialize, Clone, Debug, PartialEq)]
pub struct Knobs {
    pub pipe_cap: usize,
    pub timeout_ns: u64,
    pub mem_limit: u64,
    pub policy: Policy,
    pub policy_seed: u64,
    /// Partial non-blocking writes beyond PIPE_BUF (the only short I/O a POSIX pipe gives): probability in percent.
    pub short_io_pct: u64,
    /// kill() of an exited child reports InvalidInput: probability in percent.
    pub kill_dead_err_pct: u64,
    /// Simulated start-up time of every child process.
    #[serde(default)]
    pub startup_ns: u64,
    pub extra: Vec<Extra>,
}

impl Knobs {
    fn default_for(timeout_ns: u64) -> Knobs {
        Knobs {
            pipe_cap: 65536,
            timeout_ns,
            mem_limit: 1 << 20,
            policy: Policy::Sticky(8),
            policy_seed: 0,
            short_io_pct: 0,
            kill_dead_err_pct: 0,
            startup_ns: 0,
            extra: Vec::new(),
        }
    }
}

#[derive(Serialize, Deserialize, Clone, Debug, PartialEq)]
pub struct Scenario {
    pub knobs: Knobs,
    pub requests: Vec<Req>,
    pub end: End,
}

fn payload(n: u32, seed: u8) -> Vec<u8> {
    (0..n).map(|i| seed.wrapping_add((i % 251) as u8)).collect()
}

// ----- observations and oracle ------------------------------------------------

#[derive(Clone, Debug, PartialEq)]
enum Obs {
    Ok(Reply),
    Panic(String),
    Timeout(Duration),
    Crashed,
    Interrupted,
    Other(String),
}

impl Obs {
    fn short(&self) -> String {
        match self {
            Obs::Ok(Reply::Echo(s, d)) => format!("Ok(Echo(sum={}, {} bytes))", s, d.len()),
            Obs::Ok(r) => format!("Ok({:?})", r),
            Obs::Panic(m) => {
                let marker = m
                    .find("boom ")
                    .map(|i| m[i..].split_whitespace().take(2).collect::<Vec<_>>().join(" "))
                    .unwrap_or_else(|| "<no marker>".to_string());
                format!("Err(Panic ∋ {:?})", marker)
            }
            Obs::Timeout(d) => format!("Err(Timeout({:?}))", d),
            Obs::Crashed => "Err(Crashed)".to_string(),
            Obs::Interrupted => "Err(Interrupted)".to_string(),
            Obs::Other(s) => format!("Err({})", s),
        }
    }
}

#[derive(Clone, Debug)]
struct Record {
    index: usize,
    issued_ns: u64,
    done_ns: Option<u64>,
    obs: Option<Obs>,
    procs_before: usize,
    procs_after: usize,
}

#[derive(Clone, Debug, PartialEq)]
enum Expect {
    Ok(Reply),
    Panic(u32),
    Timeout,
    Crashed,
}

fn expect_of(op: &Op, knobs: &Knobs) -> Expect {
    match op {
        Op::Add(a, b) => Expect::Ok(Reply::Sum(a + b)),
        Op::Panic(n) => Expect::Panic(*n),
        Op::Sleep(ns) => {
            if *ns < knobs.timeout_ns {
                Expect::Ok(Reply::Slept(*ns))
            } else {
                Expect::Timeout
            }
        }
        Op::AllocBeyond => Expect::Crashed,
        Op::Exit(_) => Expect::Crashed,
        // A payload that does not fit into the child's memory next to the 64
        // bytes every request uses exhausts the limit: while the request is read
        // (frame buffer), while it is processed, or while the reply is built.
        Op::Large(n, _) if *n as u64 + 64 > knobs.mem_limit => Expect::Crashed,
        Op::Large(n, seed) => {
            let data = payload(*n, *seed);
            let sum: u64 = data.iter().map(|b| *b as u64).sum();
            Expect::Ok(Reply::Echo(sum, data.iter().map(|b| b ^ 0x5a).collect()))
        }
    }
}

fn is_fault(op: &Op, knobs: &Knobs) -> bool {
    !matches!(expect_of(op, knobs), Expect::Ok(_))
}

fn to_request(op: &Op) -> Request {
    match op {
        Op::Add(a, b) => Request::Add(*a, *b),
        Op::Panic(n) => Request::Panic(*n),
        Op::Sleep(ns) => Request::Sleep(*ns),
        Op::AllocBeyond => Request::AllocBeyond,
        Op::Exit(c) => Request::Exit(*c),
        Op::Large(n, s) => Request::Large(payload(*n, *s)),
    }
}

fn classify(r: Result<rink_sandbox::Response<Reply>, Error>) -> Obs {
    match r {
        Ok(resp) => Obs::Ok(resp.result),
        Err(Error::Panic(m)) => Obs::Panic(m),
        Err(Error::Timeout(d)) => Obs::Timeout(d),
        Err(Error::Crashed) => Obs::Crashed,
        Err(Error::Interrupted) => Obs::Interrupted,
        Err(e) => Obs::Other(format!("{}", e)),
    }
}

/// `raises`: for every injected ctrl-c, the earliest request that may
/// legitimately answer `Interrupted` because of it (async-ctrlc latches: an
/// interrupt while idle goes to the next request that listens; one raised
/// while request i is in flight goes to i, or to a later one if the parent
/// had already stopped listening). Each raise excuses at most one request.
fn oracle(sc: &Scenario, recs: &[Record], raises: &[Vec<usize>], end: &RunEnd) -> Option<Violation> {
    let knobs = &sc.knobs;
    let mut raise_used = vec![false; raises.len()];
    let eps = 1_000_000_000u64; // 1 s
    let mut fault_before = false;
    for (i, req) in sc.requests.iter().enumerate() {
        let rec = recs.iter().find(|r| r.index == i);
        let exp = expect_of(&req.op, knobs);
        let what = format!("request #{} {:?}", i, short_op(&req.op));
        let rec = match rec {
            Some(r) => r,
            None => {
                return Some(Violation {
                    clause: match end {
                        RunEnd::StepCap => "no-reply-step-cap".into(),
                        _ => "no-reply-deadlock".into(),
                    },
                    detail: format!("{} was never issued: an earlier request did not complete ({:?})", what, end),
                })
            }
        };
        let obs = match &rec.obs {
            Some(o) => o,
            None => {
                return Some(Violation {
                    clause: match end {
                        RunEnd::StepCap => "no-reply-step-cap".into(),
                        _ => "no-reply-deadlock".into(),
                    },
                    detail: format!(
                        "{} issued at t={}ns never got a reply; the world ended with {:?}",
                        what, rec.issued_ns, end
                    ),
                })
            }
        };
        if *obs == Obs::Interrupted {
            // A latched interrupt is consumed by the first request at or after the
            // raise that actually listens for it; a request whose write to a dead
            // child fails is answered without listening, so the interrupt can
            // travel further than the next request.
            let slot = (0..raises.len()).find(|k| {
                !raise_used[*k] && raises[*k].iter().min().map(|m| i >= *m).unwrap_or(false)
            });
            if let Some(k) = slot {
                // Injected ctrl-c: this request, and only it, may be interrupted.
                raise_used[k] = true;
                fault_before = true;
                continue;
            }
        }
        match (&exp, obs) {
            (Expect::Ok(want), Obs::Ok(got)) => {
                if want != got {
                    return Some(Violation {
                        clause: "foreign-or-stale-reply".into(),
                        detail: format!(
                            "{} expected {} but received {}",
                            what,
                            Obs::Ok(want.clone()).short(),
                            obs.short()
                        ),
                    });
                }
            }
            // Injected slow pipe: a request whose request or reply needs more than
            // two transfers, or that computes for a while first, may legitimately
            // run into the limit - it, and only it.
            (Expect::Ok(_), Obs::Timeout(_))
                if slow_pipe(sc) && !matches!(req.op, Op::Add(..)) =>
            {
                fault_before = true;
                continue;
            }
            (Expect::Ok(_), other) => {
                return Some(Violation {
                    clause: if fault_before {
                        "later-request-not-served".into()
                    } else {
                        "normal-request-failed".into()
                    },
                    detail: format!(
                        "{} should have been served normally but got {}{}",
                        what,
                        other.short(),
                        if fault_before {
                            " (after an earlier failing request)"
                        } else {
                            ""
                        }
                    ),
                });
            }
            (Expect::Panic(n), Obs::Panic(m)) => {
                if !m.contains(&format!("boom {}", n)) {
                    return Some(Violation {
                        clause: "foreign-or-stale-reply".into(),
                        detail: format!("{} got a panic report without its marker: {}", what, obs.short()),
                    });
                }
            }
            // Which duration the error carries (the limit or the time actually
            // spent) is not part of the property.
            (Expect::Timeout, Obs::Timeout(_)) => {}
            (Expect::Crashed, Obs::Crashed) => {}
            // A payload that exhausts the child's memory can kill the child before
            // the request is fully written; "failed to write to child" names that
            // as well as "child crashed" does.
            (Expect::Crashed, Obs::Other(s))
                if matches!(req.op, Op::Large(..)) && s.starts_with("Failed to write to child") => {}
            (want, got) => {
                return Some(Violation {
                    clause: "wrong-error".into(),
                    detail: format!(
                        "{} should answer {:?} but got {}",
                        what,
                        want_short(want),
                        got.short()
                    ),
                });
            }
        }
        // Bounded liveness, generously: the property promises a reply, not a
        // deadline, so only a reply that takes several times the limit is flagged
        // (a request that never completes is caught as deadlock / step cap).
        if let Some(done) = rec.done_ns {
            if done.saturating_sub(rec.issued_ns) > 3 * knobs.timeout_ns + 2 * knobs.startup_ns + eps {
                return Some(Violation {
                    clause: "late-reply".into(),
                    detail: format!(
                        "{} took {}ns of simulated time, limit {}ns",
                        what,
                        done - rec.issued_ns,
                        knobs.timeout_ns
                    ),
                });
            }
        }
        if is_fault(&req.op, knobs) {
            fault_before = true;
        }
    }
    match end {
        RunEnd::Completed => None,
        RunEnd::Deadlock => Some(Violation {
            clause: "no-reply-deadlock".into(),
            detail: "client did not finish: nothing runnable and no timer pending".into(),
        }),
        RunEnd::StepCap => Some(Violation {
            clause: "no-reply-step-cap".into(),
            detail: "client did not finish within the step cap".into(),
        }),
    }
}

fn slow_pipe(sc: &Scenario) -> bool {
    sc.knobs
        .extra
        .iter()
        .any(|e| matches!(e, Extra::SlowPipe { .. }))
}

fn want_short(e: &Expect) -> String {
    match e {
        Expect::Ok(r) => Obs::Ok(r.clone()).short(),
        Expect::Panic(n) => format!("Err(Panic ∋ \"boom {}\")", n),
        Expect::Timeout => "Err(Timeout)".into(),
        Expect::Crashed => "Err(Crashed)".into(),
    }
}

fn short_op(op: &Op) -> String {
    match op {
        Op::Large(n, s) => format!("Large({} bytes, seed {})", n, s),
        o => format!("{:?}", o),
    }
}

// ----- harness ----------------------------------------------------------------

pub struct C18;

const TIMEOUTS_NS: [u64; 3] = [10_000_000, 100_000_000, 10_000_000_000];

fn gen_op(rng: &mut Rng, i: usize, knobs: &Knobs, weights: &[u64; 6]) -> Op {
    match rng.weighted(weights) {
        0 => Op::Add((i as i64 + 1) * 1_000_000 + rng.below(900_000) as i64, rng.below(1000) as i64),
        1 => Op::Panic(i as u32 * 100 + rng.below(100) as u32),
        2 => {
            let t = knobs.timeout_ns;
            let d = *rng.pick(&[t / 1000, t / 2, t - 1, t + 1, t * 2, t * 10]);
            Op::Sleep(d.max(1))
        }
        3 => Op::AllocBeyond,
        4 => Op::Exit(*rng.pick(&[0, 1, 3])),
        _ => {
            let cap = knobs.pipe_cap as u64;
            let n = if rng.chance(1, 6) {
                // Frames whose length sits at a power of two (the request frame is
                // n + 12 bytes, the reply frame a few dozen bytes more): a length
                // computed, stored or checked in too narrow a way shows only there.
                let k = *rng.pick(&[16u32, 20]);
                (1u64 << k) + rng.below(96) - 72
            } else {
                *rng.pick(&[1, cap.saturating_sub(9).max(1), cap, cap + 1, cap * 2 + 3, cap * 4])
            };
            Op::Large(n.min(2_200_000) as u32, rng.below(256) as u8)
        }
    }
}

/// Run indices below 9330 enumerate all kind sequences of length 1..5 over
/// {Add, Panic, Sleep beyond the limit, AllocBeyond, Exit, Large}.
pub const SYSTEMATIC_RUNS: u64 = 6 + 36 + 216 + 1296 + 7776;

fn systematic_kinds(index: u64) -> Option<Vec<usize>> {
    let mut i = index;
    let mut len = 1usize;
    let mut block = 6u64;
    while len <= 5 {
        if i < block {
            let mut v = Vec::new();
            for _ in 0..len {
                v.push((i % 6) as usize);
                i /= 6;
            }
            return Some(v);
        }
        i -= block;
        block *= 6;
        len += 1;
    }
    None
}

fn gen_gap(rng: &mut Rng, knobs: &Knobs) -> u64 {
    let t = knobs.timeout_ns;
    *rng.pick(&[0, 0, 1_000, 1_000_000, t / 2, t * 2])
}

impl Harness for C18 {
    type Scenario = Scenario;

    fn property(&self) -> &'static str {
        "C18"
    }

    fn budget(&self, tier: Tier) -> Budget {
        match tier {
            Tier::Quick => Budget {
                runs: 250_000,
                soft_s: 60,
            },
            Tier::Thorough => Budget {
                runs: 3_000_000,
                soft_s: 900,
            },
        }
    }

    fn generate(&self, rng: &mut Rng, tier: Tier, index: u64) -> Scenario {
        // Swarm: each run draws its own knobs and its own op-kind weights.
        let timeout_ns = *rng.pick(&TIMEOUTS_NS);
        let mut knobs = Knobs::default_for(timeout_ns);
        knobs.pipe_cap = *rng.pick(&[512usize, 4096, 65536, 65536]);
        knobs.mem_limit = *rng.pick(&[1000u64, 100_000, 1 << 20, 1 << 20, 16 << 20]);
        knobs.policy = match rng.below(8) {
            0 | 1 => Policy::Sticky(8),
            2 => Policy::Sticky(3),
            3 => Policy::Uniform,
            4 => Policy::Pct(2),
            5 => Policy::Pct(4),
            _ => Policy::Starve(rng.below(4) as u32),
        };
        knobs.policy_seed = rng.next_u64();
        knobs.short_io_pct = *rng.pick(&[0, 0, 10, 50]);
        knobs.kill_dead_err_pct = *rng.pick(&[0, 50]);
        // A restarted child is not ready at once: requests issued meanwhile wait.
        knobs.startup_ns = *rng.pick(&[0, 0, 1_000_000, 200_000_000, timeout_ns / 2, timeout_ns * 2]);
        let mut weights = [4u64, 2, 2, 1, 1, 1];
        for w in weights.iter_mut() {
            if rng.chance(1, 4) {
                *w = 0;
            }
        }
        if weights.iter().all(|w| *w == 0) {
            weights = [1, 1, 1, 1, 1, 1];
        }
        let max_len = match tier {
            Tier::Quick => 5,
            Tier::Thorough => {
                if rng.chance(1, 4) {
                    10
                } else {
                    5
                }
            }
        };
        // Coverage floor: the first 9330 run indices of every batch are the 6 + 6^2 +
        // ... + 6^5 sequences of request *kinds* of length 1..5, one run each (every
        // fault kind in every position); gaps, knobs and the schedule are seeded as
        // for any other run. All later indices are fully random.
        let systematic = systematic_kinds(index);
        let n = match &systematic {
            Some(k) => k.len(),
            None => 1 + rng.below(max_len) as usize,
        };
        let mut requests = Vec::new();
        for i in 0..n {
            let op = match &systematic {
                Some(kinds) => {
                    let mut only = [0u64; 6];
                    only[kinds[i]] = 1;
                    let op = gen_op(rng, i, &knobs, &only);
                    // the overrun kind must overrun
                    match (kinds[i], op) {
                        (2, Op::Sleep(ns)) if ns < knobs.timeout_ns => Op::Sleep(knobs.timeout_ns * 2),
                        (_, op) => op,
                    }
                }
                None => gen_op(rng, i, &knobs, &weights),
            };
            requests.push(Req {
                gap_ns: gen_gap(rng, &knobs),
                op,
            });
        }
        // Trailing sentinel: catches a surplus reply left behind.
        requests.push(Req {
            gap_ns: gen_gap(rng, &knobs),
            op: Op::Add((n as i64 + 1) * 1_000_000 + 777, 1),
        });
        // The fault-injecting sub-batch (every fourth run) adds kinds outside
        // the property's request alphabet, each with its own narrow relaxation.
        if systematic.is_none() && rng.chance(1, 4) {
            if rng.chance(2, 3) {
                let at = rng.below(requests.len() as u64) as usize;
                knobs.extra.push(Extra::CtrlC {
                    at,
                    during: rng.chance(1, 2),
                });
            } else {
                knobs.extra.push(Extra::SlowPipe {
                    cost_ns: knobs.timeout_ns / 3,
                });
            }
        }
        let end = if rng.chance(1, 2) {
            End::Terminate
        } else {
            End::Drop
        };
        Scenario {
            knobs,
            requests,
            end,
        }
    }

    fn execute(&self, sc: &Scenario, chooser: Chooser, keep_log: bool) -> Outcome {
        let cfg = WorldCfg {
            policy: sc.knobs.policy,
            policy_seed: sc.knobs.policy_seed,
            pipe_cap: sc.knobs.pipe_cap,
            pipe_buf: sc.knobs.pipe_cap.min(4096),
            short_io: (sc.knobs.short_io_pct, 100),
            kill_dead_err: (sc.knobs.kill_dead_err_pct, 100),
            alloc_fail: (0, 1),
            atomics_yield: false,
            child_io_cost_ns: sc
                .knobs
                .extra
                .iter()
                .find_map(|e| match e {
                    Extra::SlowPipe { cost_ns } => Some(*cost_ns),
                    _ => None,
                })
                .unwrap_or(0),
            step_cap: 400_000 + 40 * sc.requests.iter().map(|r| match r.op {
                Op::Large(n, _) => n as u64,
                _ => 0,
            }).sum::<u64>(),
            drain_steps: 2_000,
            keep_log,
        };
        let world = World::new(cfg, chooser);
        world.register_program("simchild", Arc::new(child_main));
        let recs: Rc<RefCell<Vec<Record>>> = Rc::new(RefCell::new(Vec::new()));
        let recs2 = recs.clone();
        let raises: Rc<RefCell<Vec<Vec<usize>>>> = Rc::new(RefCell::new(Vec::new()));
        let raises2 = raises.clone();
        let sc2 = sc.clone();
        let w2 = world.clone();
        let main = async move {
            let svc_cfg = SvcCfg {
                timeout_ns: sc2.knobs.timeout_ns,
                mem_limit: sc2.knobs.mem_limit,
                startup_ns: sc2.knobs.startup_ns,
            };
            let sandbox = match Sandbox::<TestSvc>::new(svc_cfg).await {
                Ok(s) => s,
                Err(_) => return,
            };
            for (i, req) in sc2.requests.iter().enumerate() {
                if req.gap_ns > 0 {
                    sleep_ns(req.gap_ns).await;
                }
                let mut during = None;
                for e in &sc2.knobs.extra {
                    match e {
                        Extra::CtrlC { at, during: d } if *at == i => {
                            if *d {
                                during = Some(());
                            } else {
                                w2.raise_ctrlc();
                                w2.stat("ctrlc_while_idle");
                                raises2.borrow_mut().push(vec![i]);
                            }
                        }
                        _ => {}
                    }
                }
                recs2.borrow_mut().push(Record {
                    index: i,
                    issued_ns: w2.now_ns(),
                    done_ns: None,
                    obs: None,
                    procs_before: w2.procs_spawned(),
                    procs_after: 0,
                });
                w2.event("issue", i as u64, 0);
                let res = if during.is_some() {
                    // Interrupt while the request is in flight: a helper task
                    // raises it after one scheduling round.
                    let w3 = w2.clone();
                    let recs3 = recs2.clone();
                    let raises3 = raises2.clone();
                    let _h = simkit::shim::parent::spawn_local(async move {
                        simkit::world::yield_now().await;
                        w3.raise_ctrlc();
                        let r = recs3.borrow();
                        match r.last() {
                            Some(rec) if rec.obs.is_none() => {
                                w3.stat("ctrlc_in_flight");
                                raises3.borrow_mut().push(vec![rec.index, rec.index + 1]);
                            }
                            _ => {
                                w3.stat("ctrlc_while_idle");
                                raises3.borrow_mut().push(vec![r.len()]);
                            }
                        }
                    });
                    sandbox.execute(to_request(&req.op)).await
                } else {
                    sandbox.execute(to_request(&req.op)).await
                };
                let obs = classify(res);
                let mut r = recs2.borrow_mut();
                let rec = r.last_mut().unwrap();
                rec.done_ns = Some(w2.now_ns());
                rec.procs_after = w2.procs_spawned();
                w2.event("reply", i as u64, obs_code(&obs));
                rec.obs = Some(obs);
            }
            match sc2.end {
                End::Terminate => {
                    let _ = sandbox.terminate().await;
                    w2.stat("end_terminate");
                }
                End::Drop => {
                    drop(sandbox);
                    w2.stat("end_drop");
                }
            }
        };
        let (report, _) = world.run(main);
        let recs = recs.borrow().clone();
        let raises = raises.borrow().clone();
        let violation = oracle(sc, &recs, &raises, &report.end);

        let mut stats = report.stats.clone();
        let mut bump = |k: &str, n: u64| {
            *stats.entry(k.to_string()).or_insert(0) += n;
        };
        for (i, req) in sc.requests.iter().enumerate() {
            bump(&format!("op_{}", req.op.kind()), 1);
            if let Some(rec) = recs.iter().find(|r| r.index == i) {
                if rec.procs_after > rec.procs_before {
                    bump("restart_during_request", 1);
                }
                if slow_pipe(sc)
                    && matches!(req.op, Op::Large(..))
                    && matches!(rec.obs, Some(Obs::Timeout(_)))
                {
                    bump("timeout_mid_frame_under_slow_pipe", 1);
                }
                if i > 0 && is_fault(&sc.requests[i - 1].op, &sc.knobs) && rec.obs.is_some() {
                    bump("request_after_fault_answered", 1);
                }
            }
        }
        let mut log = report.log.clone();
        for (name, e) in &report.thread_ends {
            if keep_log {
                log.push(format!("thread {} ended: {:?}", name, e));
            }
            match e {
                ThreadEnd::Exit(_) => bump("child_end_exit", 1),
                ThreadEnd::Abort => bump("child_end_abort", 1),
                ThreadEnd::Killed => bump("child_end_killed", 1),
                ThreadEnd::Panicked(_) => bump("child_end_panicked", 1),
                ThreadEnd::Returned => bump("child_end_returned", 1),
            }
        }
        if report.live_at_teardown > 0 {
            bump("children_alive_at_teardown", report.live_at_teardown as u64);
        }
        let faults = sc.requests.iter().filter(|r| is_fault(&r.op, &sc.knobs)).count();
        let history: Vec<String> = sc
            .requests
            .iter()
            .enumerate()
            .map(|(i, req)| {
                let rec = recs.iter().find(|r| r.index == i);
                format!(
                    "#{} gap={}ns {} -> {} children_spawned {}->{}",
                    i,
                    req.gap_ns,
                    short_op(&req.op),
                    rec.and_then(|r| r.obs.as_ref()).map(|o| o.short()).unwrap_or("<no reply>".into()),
                    rec.map(|r| r.procs_before).unwrap_or(0),
                    rec.map(|r| r.procs_after).unwrap_or(0),
                )
            })
            .collect();
        Outcome {
            violation,
            digest: report.digest,
            choices: report.choices,
            stats,
            sim_ns: report.sim_ns,
            history,
            nontrivial: faults > 0 || report.nonzero_choices > 0 || !sc.knobs.extra.is_empty(),
            log,
        }
    }

    fn shrink(&self, sc: &Scenario) -> Vec<Scenario> {
        let mut out = Vec::new();
        let n = sc.requests.len();
        // drop requests (keep at least one)
        if n > 1 {
            for i in 0..n {
                let mut c = sc.clone();
                c.requests.remove(i);
                c.knobs.extra.retain(|e| match e {
                    Extra::CtrlC { at, .. } => *at < c.requests.len(),
                    _ => true,
                });
                out.push(c);
            }
        }
        // drop extra faults
        if !sc.knobs.extra.is_empty() {
            let mut c = sc.clone();
            c.knobs.extra.clear();
            out.push(c);
        }
        // simpler operations
        for i in 0..n {
            let simpler: Vec<Op> = match &sc.requests[i].op {
                Op::Add(a, b) if *a != (i as i64 + 1) * 1000 || *b != 1 => {
                    vec![Op::Add((i as i64 + 1) * 1000, 1)]
                }
                Op::Large(len, s) if *len > 1 => vec![
                    Op::Add((i as i64 + 1) * 1000, 1),
                    Op::Large(1, *s),
                    Op::Large(len / 2, *s),
                ],
                Op::Large(..) => vec![Op::Add((i as i64 + 1) * 1000, 1)],
                Op::Sleep(ns) if *ns < sc.knobs.timeout_ns => vec![Op::Add((i as i64 + 1) * 1000, 1)],
                Op::Sleep(ns) if *ns != sc.knobs.timeout_ns * 2 => {
                    vec![Op::Sleep(sc.knobs.timeout_ns * 2)]
                }
                Op::Exit(c) if *c != 0 => vec![Op::Exit(0)],
                Op::Panic(k) if *k != i as u32 => vec![Op::Panic(i as u32)],
                _ => vec![],
            };
            for op in simpler {
                let mut c = sc.clone();
                c.requests[i].op = op;
                out.push(c);
            }
        }
        // zero gaps
        for i in 0..n {
            if sc.requests[i].gap_ns != 0 {
                let mut c = sc.clone();
                c.requests[i].gap_ns = 0;
                out.push(c);
            }
        }
        // default knobs, one at a time
        let d = Knobs::default_for(sc.knobs.timeout_ns);
        if sc.knobs.pipe_cap != d.pipe_cap {
            let mut c = sc.clone();
            c.knobs.pipe_cap = d.pipe_cap;
            out.push(c);
        }
        if sc.knobs.short_io_pct != 0 {
            let mut c = sc.clone();
            c.knobs.short_io_pct = 0;
            out.push(c);
        }
        if sc.knobs.kill_dead_err_pct != 0 {
            let mut c = sc.clone();
            c.knobs.kill_dead_err_pct = 0;
            out.push(c);
        }
        if sc.knobs.policy != d.policy {
            let mut c = sc.clone();
            c.knobs.policy = d.policy;
            out.push(c);
        }
        if sc.knobs.startup_ns != 0 {
            let mut c = sc.clone();
            c.knobs.startup_ns = 0;
            out.push(c);
        }
        if sc.knobs.mem_limit != d.mem_limit {
            let mut c = sc.clone();
            c.knobs.mem_limit = d.mem_limit;
            out.push(c);
        }
        if sc.end != End::Drop {
            let mut c = sc.clone();
            c.end = End::Drop;
            out.push(c);
        }
        out
    }

    fn key(&self, sc: &Scenario) -> String {
        sc.requests
            .iter()
            .map(|r| r.op.kind())
            .collect::<Vec<_>>()
            .join(",")
    }

    fn label(&self, sc: &Scenario) -> String {
        if sc.knobs.extra.is_empty() {
            "alphabet-only (the first 9330 run indices enumerate all kind sequences of length 1..5)".into()
        } else {
            "with-extra-faults(ctrl-c or slow pipe)".into()
        }
    }

    fn rule(&self) -> String {
        "One evaluation = one simulated run of the real parent.rs/child.rs/frame.rs: a seeded request sequence \
         (1..5 requests, thorough also up to 10, over Add/Panic/Sleep(below or beyond the limit)/AllocBeyond/Exit/Large, \
         plus a trailing sentinel Add; the first 9330 run indices of a batch enumerate every sequence of kinds of length 1..5 once, \
         all later ones are random; Large payloads of 1 byte .. 4 x pipe capacity, one in six within a few dozen bytes of 2^16 or 2^20) \
         with seeded gaps, pipe capacity, child memory limit {1000 B, 100 KB, 1 MiB, 16 MiB}, child start-up latency, partial-write rate, kill-on-dead-child result, \
         scheduling policy, and a seeded schedule of {client task, run_task, child threads, timers} at seam granularity. \
         A run is non-trivial when its sequence contains at least one failing request kind, or an extra fault was \
         injected, or at least one scheduling/IO decision differed from the default; distinct = distinct 64-bit digest \
         of the full event log (every scheduling step, pipe transfer, spawn, kill, timer, reply)."
            .into()
    }

    fn assumptions(&self) -> Vec<String> {
        vec![
            "The simulated pipe/process/timer semantics are POSIX-like: write to a pipe whose reader is gone = EPIPE, read after the writer is gone and the buffer is drained = EOF, kill closes the child's ends at once".into(),
            "One child process = one controlled OS thread running the real become_child (a thread the child's code starts itself is a further controlled thread of the same simulated process); the child's memory limit is a private real Alloc charged by the test service (AllocBeyond asks for limit+1 bytes and aborts on null) and, through two hook lines in frame.rs, by the frame buffer and the serialised reply, so a payload that does not fit makes the child abort while reading, processing or answering".into(),
            "Simulated time advances only when no party can run; interleavings are explored at seam granularity (pipe ops, exit, sleep, await points), not inside straight-line code".into(),
            "Seeded sampling: a clean batch is evidence, not proof".into(),
        ]
    }

    fn real_vs_stub(&self) -> serde_json::Value {
        serde_json::json!({
            "sandbox/src/parent.rs (run_task, new, execute, terminate, Drop)": "real",
            "sandbox/src/child.rs (become_child incl. catch_unwind and the color_eyre panic hook)": "real",
            "sandbox/src/frame.rs, error.rs, lib.rs, bincode": "real",
            "sandbox/src/alloc.rs (private instance per child; limit decisions)": "real",
            "async_std::channel, FutureExt::race, ReadExt/WriteExt": "real",
            "executor, timers, Command/Child/pipes, ctrl-c, exit/abort, Instant": "stub (simkit)",
            "Service implementation and client loop (cli/src/service.rs, repl.rs)": "stub (test service, sequential client)",
        })
    }

    fn expected_probes(&self) -> Vec<&'static str> {
        vec![
            "kill_of_live_child",
            "kill_of_dead_child",
            "pipe_eof",
            "timeout_elapsed",
            "partial_read",
            "partial_write",
            "short_write",
            "pipe_full",
            "child_end_exit",
            "child_end_abort",
            "child_end_killed",
            "restart_during_request",
            "request_after_fault_answered",
            "ctrlc_while_idle",
            "ctrlc_in_flight",
            "slow_pipe_transfer",
            "timeout_mid_frame_under_slow_pipe",
            "child_out_of_memory_in_framing",
        ]
    }
}

fn obs_code(o: &Obs) -> u64 {
    match o {
        Obs::Ok(Reply::Sum(v)) => 1000 + (*v as u64),
        Obs::Ok(Reply::Slept(_)) => 2,
        Obs::Ok(Reply::Echo(s, _)) => 3000 + *s,
        Obs::Ok(Reply::Survived) => 4,
        Obs::Ok(Reply::Held(k)) => 9000 + *k,
        Obs::Panic(_) => 5,
        Obs::Timeout(_) => 6,
        Obs::Crashed => 7,
        Obs::Interrupted => 8,
        Obs::Other(s) => {
            let mut h = simkit::rng::Fnv::default();
            h.str(s);
            h.0 | 1 << 63
        }
    }
}
