//! C19 — Sandbox allocator accounts for every byte and enforces its limit.
//!
//! Real code under simulation: sandbox/src/alloc.rs (its atomics are the real
//! std atomics behind a scheduling point, its parent is the real system
//! allocator behind a fault point). Oracle: a reference ledger.

use rink_sandbox::Alloc;
use serde::{Deserialize, Serialize};
use simkit::runner::{Budget, Harness, Outcome, Tier, Violation};
use simkit::world::RunEnd;
use simkit::{Chooser, Policy, Rng, World, WorldCfg};
use std::alloc::{GlobalAlloc, Layout};
use std::sync::{Arc, Mutex};

#[derive(Serialize, Deserialize, Clone, Debug, PartialEq)]
pub enum OpSpec {
    Alloc { size: u64, align: u32 },
    AllocZeroed { size: u64, align: u32 },
    /// Reallocate the `slot`-th available block (modulo their number).
    Realloc { slot: u32, new_size: u64 },
    Dealloc { slot: u32 },
}

#[derive(Serialize, Deserialize, Clone, Debug, PartialEq)]
pub enum ResetMode {
    /// reset_max() after every operation (sequential) / every phase (concurrent).
    Every,
    /// reset_max() at seeded operations.
    Some(u32),
    /// Only at the very end.
    End,
}

#[derive(Serialize, Deserialize, Clone, Debug, PartialEq)]
pub struct Scenario {
    pub limit: u64,
    /// One phase = a set of threads that run concurrently and are joined
    /// before the next phase. A sequential history is one phase, one thread.
    pub phases: Vec<Vec<Vec<OpSpec>>>,
    pub reset: ResetMode,
    pub reset_seed: u64,
    pub alloc_fail_pct: u64,
    pub policy: Policy,
    pub policy_seed: u64,
    /// If present, this run is not a ledger history but a conversation with a
    /// simulated sandbox child whose requests hold these many bytes: the peak
    /// as the sandbox reports it (`memory_used`, i.e. child.rs's use of
    /// reset_max()/get_max() around each request) must not be below them.
    #[serde(default)]
    pub sandbox_holds: Option<Vec<u64>>,
}

impl Scenario {
    fn concurrent(&self) -> bool {
        self.phases.iter().any(|p| p.len() > 1)
    }
    fn ops(&self) -> usize {
        self.phases.iter().flatten().map(|t| t.len()).sum()
    }
}

// ----- reference ledger -------------------------------------------------------

#[derive(Clone, Debug)]
struct Block {
    id: u64,
    ptr: usize,
    size: usize,
    align: usize,
}

#[derive(Default)]
struct Ledger {
    /// Blocks no thread is operating on.
    avail: Vec<Block>,
    /// Sum of `avail` sizes: a lower bound of true usage at all times.
    live: usize,
    /// High-water of `live` since the last reset.
    hw: usize,
    next_id: u64,
    violation: Option<Violation>,
    refused_by_limit: u64,
    refused_conservative: u64,
    refused_by_parent: u64,
    succeeded: u64,
    ops_done: u64,
}

impl Ledger {
    fn add(&mut self, b: Block, limit: usize, what: &str) {
        self.live += b.size;
        self.avail.push(b);
        if self.live > self.hw {
            self.hw = self.live;
        }
        if self.live > limit && self.violation.is_none() {
            self.violation = Some(Violation {
                clause: "limit-exceeded".into(),
                detail: format!(
                    "{} succeeded although completed live allocations now total {} > limit {}",
                    what, self.live, limit
                ),
            });
        }
    }
    fn take(&mut self, slot: u32) -> Option<Block> {
        if self.avail.is_empty() {
            return None;
        }
        let i = slot as usize % self.avail.len();
        let b = self.avail.remove(i);
        self.live -= b.size;
        Some(b)
    }
    fn fail(&mut self, clause: &str, detail: String) {
        if self.violation.is_none() {
            self.violation = Some(Violation {
                clause: clause.into(),
                detail,
            });
        }
    }
}

fn pat(id: u64, i: usize) -> u8 {
    (id as usize).wrapping_mul(31).wrapping_add(i.wrapping_mul(7)).wrapping_add(1) as u8
}

/// Touch at most this many bytes at each end of a block.
const EDGE: usize = 256;

fn edges(size: usize) -> [(usize, usize); 2] {
    let head_end = size.min(EDGE);
    let tail_start = size.saturating_sub(EDGE).max(head_end);
    [(0, head_end), (tail_start, size)]
}

/// Write the block's pattern over its head and tail.
unsafe fn fill(ptr: *mut u8, id: u64, size: usize) {
    for (a, b) in edges(size) {
        for i in a..b {
            *ptr.add(i) = pat(id, i);
        }
    }
}

unsafe fn check_range(ptr: *const u8, id: u64, a: usize, b: usize) -> Option<usize> {
    (a..b).find(|&i| *ptr.add(i) != pat(id, i))
}

/// Check head and tail of a block that was filled at `size`.
unsafe fn check(ptr: *const u8, id: u64, size: usize) -> Option<usize> {
    for (a, b) in edges(size) {
        if let Some(i) = check_range(ptr, id, a, b) {
            return Some(i);
        }
    }
    None
}

/// After realloc(old -> new): the common prefix must be preserved. Only bytes
/// that were filled at the old size can be compared.
unsafe fn check_prefix(ptr: *const u8, id: u64, old: usize, new: usize) -> Option<usize> {
    let keep = old.min(new);
    for (a, b) in edges(old) {
        let (a, b) = (a.min(keep), b.min(keep));
        if let Some(i) = check_range(ptr, id, a, b) {
            return Some(i);
        }
    }
    None
}

unsafe fn check_zero(ptr: *const u8, n: usize) -> Option<usize> {
    for (a, b) in edges(n) {
        if let Some(i) = (a..b).find(|&i| *ptr.add(i) != 0) {
            return Some(i);
        }
    }
    None
}

struct Shared {
    alloc: Alloc,
    limit: usize,
    ledger: Mutex<Ledger>,
    world: Arc<World>,
}

/// Perform one operation against the real allocator and the ledger.
/// Returns a short text of what happened (for the history).
fn do_op(sh: &Shared, op: &OpSpec, who: usize) -> String {
    let limit = sh.limit;
    match op {
        OpSpec::Alloc { size, align } | OpSpec::AllocZeroed { size, align } => {
            let zeroed = matches!(op, OpSpec::AllocZeroed { .. });
            let size = *size as usize;
            let layout = match Layout::from_size_align(size, *align as usize) {
                Ok(l) => l,
                Err(_) => return "bad layout".into(),
            };
            // Snapshot of the ledger's lower bound before the call, to classify refusals.
            let live_before = sh.ledger.lock().unwrap().live;
            let p = unsafe {
                if zeroed {
                    sh.alloc.alloc_zeroed(layout)
                } else {
                    sh.alloc.alloc(layout)
                }
            };
            let mut l = sh.ledger.lock().unwrap();
            l.ops_done += 1;
            let name = if zeroed { "alloc_zeroed" } else { "alloc" };
            if p.is_null() {
                if live_before.saturating_add(size) > limit {
                    l.refused_by_limit += 1;
                } else {
                    // Either the parent refused or the refusal was conservative
                    // (a racing request was charged at the same instant): allowed.
                    l.refused_conservative += 1;
                }
                sh.world.event("op_refused", who as u64, size as u64);
                return format!("t{} {}({}) -> null", who, name, size);
            }
            if zeroed {
                if let Some(i) = unsafe { check_zero(p, size) } {
                    l.fail(
                        "zeroed-not-zero",
                        format!("alloc_zeroed({}) returned memory with a non-zero byte at {}", size, i),
                    );
                }
            }
            let id = l.next_id;
            l.next_id += 1;
            unsafe { fill(p, id, size) };
            l.succeeded += 1;
            l.add(
                Block {
                    id,
                    ptr: p as usize,
                    size,
                    align: *align as usize,
                },
                limit,
                &format!("{}({})", name, size),
            );
            sh.world.event("op_ok", who as u64, size as u64);
            format!("t{} {}({}) -> block{}", who, name, size, id)
        }
        OpSpec::Realloc { slot, new_size } => {
            let new_size = *new_size as usize;
            let b = match sh.ledger.lock().unwrap().take(*slot) {
                Some(b) => b,
                None => return format!("t{} realloc: no block", who),
            };
            let old_layout = Layout::from_size_align(b.size, b.align).unwrap();
            if Layout::from_size_align(new_size, b.align).is_err() {
                let mut l = sh.ledger.lock().unwrap();
                let lim = limit;
                l.add(b, lim, "realloc(skipped)");
                return "bad layout".into();
            }
            let p = unsafe { sh.alloc.realloc(b.ptr as *mut u8, old_layout, new_size) };
            let mut l = sh.ledger.lock().unwrap();
            l.ops_done += 1;
            if p.is_null() {
                // Refused: the original block must be intact and still owned.
                if !simkit::shim::alloc::registry_is_live(b.ptr) {
                    l.fail(
                        "refused-realloc-damaged-block",
                        format!(
                            "realloc({}->{}, align {}) was refused, but the original block was handed back to the parent allocator: the caller still owns a block that no longer exists",
                            b.size, new_size, b.align
                        ),
                    );
                    sh.world.event("op_refused", who as u64, new_size as u64);
                    return format!(
                        "t{} realloc(block{} {}->{}) -> null, and the original block was released",
                        who, b.id, b.size, new_size
                    );
                }
                if let Some(i) = unsafe { check(b.ptr as *const u8, b.id, b.size) } {
                    l.fail(
                        "refused-realloc-damaged-block",
                        format!(
                            "realloc({}->{}) was refused but byte {} of the original block changed",
                            b.size, new_size, i
                        ),
                    );
                }
                if b.size.max(new_size) > limit || l.live.saturating_add(b.size).saturating_add(new_size) > limit {
                    l.refused_by_limit += 1;
                } else {
                    l.refused_conservative += 1;
                }
                sh.world.event("op_refused", who as u64, new_size as u64);
                let text = format!("t{} realloc(block{} {}->{}) -> null", who, b.id, b.size, new_size);
                l.add(b, limit, "realloc(refused)");
                return text;
            }
            if let Some(i) = unsafe { check_prefix(p as *const u8, b.id, b.size, new_size) } {
                l.fail(
                    "realloc-lost-contents",
                    format!(
                        "realloc({}->{}) did not preserve byte {} of the common prefix",
                        b.size, new_size, i
                    ),
                );
            }
            unsafe { fill(p, b.id, new_size) };
            l.succeeded += 1;
            let text = format!("t{} realloc(block{} {}->{}) -> ok", who, b.id, b.size, new_size);
            l.add(
                Block {
                    id: b.id,
                    ptr: p as usize,
                    size: new_size,
                    align: b.align,
                },
                limit,
                &format!("realloc({}->{})", b.size, new_size),
            );
            sh.world.event("op_ok", who as u64, new_size as u64);
            text
        }
        OpSpec::Dealloc { slot } => {
            let b = match sh.ledger.lock().unwrap().take(*slot) {
                Some(b) => b,
                None => return format!("t{} dealloc: no block", who),
            };
            if !simkit::shim::alloc::registry_is_live(b.ptr) {
                sh.ledger.lock().unwrap().fail(
                    "block-damaged",
                    format!(
                        "block{} of {} bytes was handed back to the parent allocator while its owner still held it",
                        b.id, b.size
                    ),
                );
                return format!("t{} dealloc(block{}): already released", who, b.id);
            }
            if let Some(i) = unsafe { check(b.ptr as *const u8, b.id, b.size) } {
                sh.ledger.lock().unwrap().fail(
                    "block-damaged",
                    format!("block{} of {} bytes changed at byte {} while nobody owned it", b.id, b.size, i),
                );
            }
            let layout = Layout::from_size_align(b.size, b.align).unwrap();
            unsafe { sh.alloc.dealloc(b.ptr as *mut u8, layout) };
            let mut l = sh.ledger.lock().unwrap();
            l.ops_done += 1;
            sh.world.event("op_free", who as u64, b.size as u64);
            format!("t{} dealloc(block{} {})", who, b.id, b.size)
        }
    }
}

/// Quiescent-point checks. `reset`: also reset the peak and compare usage exactly.
fn quiescent(sh: &Shared, reset: bool, at: &str) {
    let mut l = sh.ledger.lock().unwrap();
    let peak = sh.alloc.get_max();
    if peak < l.hw {
        let (hw, live) = (l.hw, l.live);
        l.fail(
            "peak-under-reported",
            format!(
                "{}: get_max() = {} but completed live allocations reached {} since the last reset (now {})",
                at, peak, hw, live
            ),
        );
    }
    if reset {
        sh.alloc.reset_max();
        let used = sh.alloc.get_max();
        if used != l.live {
            let live = l.live;
            l.fail(
                "usage-drift",
                format!(
                    "{}: tracked usage (reset_max(); get_max()) = {} but live allocations total {}",
                    at, used, live
                ),
            );
        }
        l.hw = l.live;
    }
}

pub struct C19;

/// A conversation with a simulated sandbox child (real parent.rs / child.rs /
/// alloc.rs): each request holds `k` bytes (+ the 64 every request of the test
/// service uses) of tracked memory at once. The peak the child reports for the
/// request must not be less.
fn run_sandbox_peak(sc: &Scenario, holds: &[u64], chooser: Chooser, keep_log: bool) -> Outcome {
    use crate::c18::{child_main, Reply, Request, SvcCfg, TestSvc};
    use rink_sandbox::{Error, Sandbox};
    use std::cell::RefCell;
    use std::rc::Rc;
    let cfg = WorldCfg {
        policy: sc.policy,
        policy_seed: sc.policy_seed,
        pipe_cap: 65536,
        atomics_yield: false,
        step_cap: 200_000,
        keep_log,
        ..WorldCfg::default()
    };
    let world = World::new(cfg, chooser);
    world.register_program("simchild", Arc::new(child_main));
    type Seen = Vec<(u64, Result<(Reply, usize), String>)>;
    let seen: Rc<RefCell<Seen>> = Rc::new(RefCell::new(Vec::new()));
    let seen2 = seen.clone();
    let holds2 = holds.to_vec();
    let limit = sc.limit;
    let main = async move {
        let sandbox = match Sandbox::<TestSvc>::new(SvcCfg {
            timeout_ns: 10_000_000_000,
            mem_limit: limit,
            startup_ns: 0,
        })
        .await
        {
            Ok(s) => s,
            Err(_) => return,
        };
        for k in holds2 {
            let r = sandbox.execute(Request::Hold(k)).await;
            seen2.borrow_mut().push((
                k,
                match r {
                    Ok(resp) => Ok((resp.result, resp.memory_used)),
                    Err(Error::Crashed) => Err("Crashed".to_string()),
                    Err(e) => Err(format!("{}", e)),
                },
            ));
        }
        drop(sandbox);
    };
    let (report, _) = world.run(main);
    let seen = seen.borrow().clone();
    let mut violation = None;
    let mut history = Vec::new();
    for (i, (k, r)) in seen.iter().enumerate() {
        history.push(format!("#{} hold {} bytes (+64) under limit {} -> {:?}", i, k, limit, r));
        let fits = k.max(&1) + 64 <= limit;
        match r {
            Ok((Reply::Held(kk), used)) if kk == k => {
                if (*used as u64) < k.max(&1) + 64 && violation.is_none() {
                    violation = Some(Violation {
                        clause: "sandbox-peak-under-reported".into(),
                        detail: format!(
                            "request #{} held {} + 64 bytes of tracked memory at once but the sandbox reported memory_used = {}",
                            i, k, used
                        ),
                    });
                }
                if !fits && violation.is_none() {
                    violation = Some(Violation {
                        clause: "limit-exceeded".into(),
                        detail: format!(
                            "request #{} held {} + 64 bytes although the child's limit is {}",
                            i, k, limit
                        ),
                    });
                }
            }
            Err(e) if e == "Crashed" && !fits => {}
            other => {
                if violation.is_none() {
                    violation = Some(Violation {
                        clause: "did-not-finish".into(),
                        detail: format!("sandbox request #{} (hold {}) answered {:?}", i, k, other),
                    });
                }
            }
        }
    }
    if violation.is_none() && (report.end != RunEnd::Completed || seen.len() != holds.len()) {
        violation = Some(Violation {
            clause: "did-not-finish".into(),
            detail: format!("sandbox conversation did not complete: {:?}", report.end),
        });
    }
    let mut stats = report.stats.clone();
    *stats.entry("sandbox_peak_conversations".to_string()).or_insert(0) += 1;
    *stats.entry("sandbox_peak_requests".to_string()).or_insert(0) += seen.len() as u64;
    Outcome {
        violation,
        digest: report.digest,
        choices: report.choices,
        stats,
        sim_ns: report.sim_ns,
        history,
        nontrivial: true,
        log: report.log,
    }
}

fn sizes_for(limit: u64) -> Vec<u64> {
    let l = limit;
    let mut v = vec![1, 8, l / 2, l / 2 + 1, l - 1, l, l.saturating_add(1), l / 3, 24];
    if giant(limit) {
        // Something real to hold while requests of about the limit are in flight.
        v.extend([1 << 20, (1 << 20) + 4096, 3 << 19, 64, 4096]);
    }
    v.retain(|s| *s >= 1);
    v
}

/// Close to isize::MAX, the largest size a Layout can have.
const HUGE: u64 = (isize::MAX as u64) - 63;

/// Limits that no machine can reach: "no limit" (usize::MAX, what a process
/// that never calls set_limit has), isize::MAX as an "unlimited" marker, and
/// values a little below 2^63 and 2^62. With them a handful of requests that
/// each fit the limit add up to more than the counter can hold.
const GIANT_LIMITS: [u64; 4] = [
    u64::MAX,
    isize::MAX as u64,
    (1 << 63) - (1 << 19),
    (1 << 62) - (1 << 18),
];

fn giant(limit: u64) -> bool {
    limit >= 1 << 60
}

/// A size/alignment pair that Layout accepts: sizes are capped at isize::MAX,
/// and a size within `align` of it keeps alignment 1.
fn fit_layout(size: u64, align: u32) -> (u64, u32) {
    let size = size.min(isize::MAX as u64);
    if size > (isize::MAX as u64) - (align as u64 - 1) {
        (size, 1)
    } else {
        (size, align)
    }
}

fn gen_ops(rng: &mut Rng, limit: u64, n: usize) -> Vec<OpSpec> {
    let sizes = sizes_for(limit);
    let mut ops = Vec::new();
    // per-history weights (swarm)
    let mut w = [3u64, 2, 3, 2];
    for x in w.iter_mut() {
        if rng.chance(1, 5) {
            *x = 0;
        }
    }
    if w[0] == 0 && w[1] == 0 {
        w[0] = 2;
    }
    for _ in 0..n {
        let align = *rng.pick(&[1u32, 8, 8, 16, 64]);
        let size = if rng.chance(1, 6) && !giant(limit) {
            1 + rng.below(limit + 2)
        } else if rng.chance(1, 12) {
            // A request that no machine can satisfy (the parent allocator refuses
            // it without touching memory). Two of them in flight at once must not
            // wrap the usage counter around.
            HUGE - rng.below(2) * 4096
        } else {
            *rng.pick(&sizes)
        };
        let (size, align) = fit_layout(size, align);
        ops.push(match rng.weighted(&w) {
            0 => OpSpec::Alloc { size, align },
            1 => OpSpec::AllocZeroed { size, align },
            2 => OpSpec::Realloc {
                slot: rng.below(8) as u32,
                new_size: size,
            },
            _ => OpSpec::Dealloc {
                slot: rng.below(8) as u32,
            },
        });
    }
    ops
}

const SYS_OPS: u64 = 22;

fn sys_op(code: u64, limit: u64) -> OpSpec {
    let sizes = [1u64, 8, limit / 2, limit, limit + 1];
    match code {
        0..=4 => OpSpec::Alloc {
            size: sizes[code as usize],
            align: 8,
        },
        5..=9 => OpSpec::AllocZeroed {
            size: sizes[code as usize - 5],
            align: 8,
        },
        10..=19 => OpSpec::Realloc {
            slot: ((code - 10) / 5) as u32,
            new_size: sizes[((code - 10) % 5) as usize],
        },
        _ => OpSpec::Dealloc {
            slot: (code - 20) as u32,
        },
    }
}

fn sys_block(mut i: u64, max_len: u32) -> Result<Vec<u64>, u64> {
    // Ok(codes) if i falls into the sequences of length 1..max_len, else Err(rest)
    let mut block = SYS_OPS;
    for len in 1..=max_len {
        if i < block {
            let mut v = Vec::new();
            for _ in 0..len {
                v.push(i % SYS_OPS);
                i /= SYS_OPS;
            }
            return Ok(v);
        }
        i -= block;
        block *= SYS_OPS;
    }
    Err(i)
}

fn systematic(index: u64, tier: Tier) -> Option<Scenario> {
    let (limit, codes) = match sys_block(index, 3) {
        Ok(c) => (64u64, c),
        Err(rest) => {
            let max = match tier {
                Tier::Quick => 4,
                Tier::Thorough => 5,
            };
            match sys_block(rest, max) {
                Ok(c) => (1000u64, c),
                Err(_) => return None,
            }
        }
    };
    Some(Scenario {
        limit,
        phases: vec![vec![codes.into_iter().map(|c| sys_op(c, limit)).collect()]],
        reset: ResetMode::Every,
        reset_seed: 0,
        alloc_fail_pct: 0,
        policy: Policy::Sticky(8),
        policy_seed: 0,
        sandbox_holds: None,
    })
}

impl Harness for C19 {
    type Scenario = Scenario;

    fn property(&self) -> &'static str {
        "C19"
    }

    fn budget(&self, tier: Tier) -> Budget {
        match tier {
            Tier::Quick => Budget {
                runs: 2_500_000,
                soft_s: 60,
            },
            Tier::Thorough => Budget {
                runs: 30_000_000,
                soft_s: 900,
            },
        }
    }

    fn generate(&self, rng: &mut Rng, tier: Tier, index: u64) -> Scenario {
        // Coverage floor: the first run indices of every batch enumerate all short
        // sequential histories over 22 operations (alloc / alloc_zeroed with 5 sizes,
        // realloc of block 0 or 1 to 5 sizes, dealloc of block 0 or 1; sizes tiny, small,
        // half the limit, the limit, the limit + 1): limit 64 up to length 3, limit 1000
        // up to length 4 (thorough: 5), checked after every operation. All later
        // indices are random.
        if let Some(sc) = systematic(index, tier) {
            return sc;
        }
        let mut limit = *rng.pick(&[64u64, 1000, 4096, 1 << 20]);
        if rng.chance(1, 64) {
            // The peak as reported through the sandbox (child.rs).
            let n = 1 + rng.below(5) as usize;
            let lim = *rng.pick(&[1000u64, 4096, 1 << 20]);
            let holds = (0..n)
                .map(|_| *rng.pick(&[1u64, 8, lim / 2, lim - 64, lim - 63, lim, 100]))
                .collect();
            return Scenario {
                limit: lim,
                phases: Vec::new(),
                reset: ResetMode::End,
                reset_seed: 0,
                alloc_fail_pct: 0,
                policy: match rng.below(3) {
                    0 => Policy::Uniform,
                    1 => Policy::Pct(2),
                    _ => Policy::Sticky(4),
                },
                policy_seed: rng.next_u64(),
                sandbox_holds: Some(holds),
            };
        }
        // Sub-batches are chosen by the run's own PRNG (not by index) so that
        // every worker process gets the same mix.
        let concurrent = rng.chance(1, 8);
        // Limits beyond any machine: one concurrent run in eight (and a few
        // sequential ones).
        if (concurrent && rng.chance(1, 8)) || rng.chance(1, 256) {
            limit = *rng.pick(&GIANT_LIMITS);
        }
        let mut phases = Vec::new();
        if concurrent {
            let max_threads = match tier {
                Tier::Quick => 4,
                Tier::Thorough => {
                    if rng.chance(1, 8) {
                        16
                    } else {
                        6
                    }
                }
            };
            let nphases = 1 + rng.below(2) as usize;
            for _ in 0..nphases {
                let nt = 2 + rng.below(max_threads - 1) as usize;
                let mut threads = Vec::new();
                for _ in 0..nt {
                    let n = 1 + rng.below(6) as usize;
                    threads.push(gen_ops(rng, limit, n));
                }
                phases.push(threads);
            }
        } else {
            let n = match tier {
                Tier::Quick => {
                    if rng.chance(1, 64) {
                        50 + rng.below(150) as usize
                    } else {
                        1 + rng.below(6) as usize
                    }
                }
                Tier::Thorough => {
                    if rng.chance(1, 16) {
                        50 + rng.below(450) as usize
                    } else {
                        1 + rng.below(6) as usize
                    }
                }
            };
            phases.push(vec![gen_ops(rng, limit, n)]);
        }
        let reset = match rng.below(3) {
            0 => ResetMode::Every,
            1 => ResetMode::Some(2 + rng.below(3) as u32),
            _ => ResetMode::End,
        };
        Scenario {
            limit,
            phases,
            reset,
            reset_seed: rng.next_u64(),
            alloc_fail_pct: *rng.pick(&[0, 0, 5, 25]),
            policy: match rng.below(6) {
                0 | 1 => Policy::Uniform,
                2 => Policy::Sticky(3),
                3 => Policy::Pct(2),
                4 => Policy::Pct(4),
                _ => Policy::Starve(rng.below(4) as u32),
            },
            policy_seed: rng.next_u64(),
            sandbox_holds: None,
        }
    }

    fn execute(&self, sc: &Scenario, chooser: Chooser, keep_log: bool) -> Outcome {
        if let Some(holds) = &sc.sandbox_holds {
            return run_sandbox_peak(sc, holds, chooser, keep_log);
        }
        let concurrent = sc.concurrent();
        let cfg = WorldCfg {
            policy: sc.policy,
            policy_seed: sc.policy_seed,
            alloc_fail: (sc.alloc_fail_pct, 100),
            atomics_yield: true,
            step_cap: 2_000_000,
            drain_steps: 10,
            keep_log,
            ..WorldCfg::default()
        };
        let world = World::new(cfg, chooser);
        simkit::shim::alloc::registry_begin();
        let sh = Arc::new(Shared {
            alloc: Alloc::new(sc.limit as usize),
            limit: sc.limit as usize,
            ledger: Mutex::new(Ledger::default()),
            world: world.clone(),
        });
        let history: Arc<Mutex<Vec<String>>> = Arc::new(Mutex::new(Vec::new()));
        let sc2 = sc.clone();
        let sh2 = sh.clone();
        let hist2 = history.clone();
        let w2 = world.clone();
        let main = async move {
            let mut reset_rng = Rng::new(sc2.reset_seed);
            for (pi, phase) in sc2.phases.iter().enumerate() {
                if phase.len() == 1 {
                    // Sequential: run on the driver, check after every operation.
                    for (oi, op) in phase[0].iter().enumerate() {
                        let before = {
                            let l = sh2.ledger.lock().unwrap();
                            (l.live, l.avail.len())
                        };
                        let text = do_op(&sh2, op, 0);
                        let refused = text.ends_with("-> null");
                        hist2.lock().unwrap().push(text);
                        if refused {
                            let l = sh2.ledger.lock().unwrap();
                            let after = (l.live, l.avail.len());
                            drop(l);
                            if after != before {
                                sh2.ledger.lock().unwrap().fail(
                                    "refusal-changed-ledger",
                                    "internal: a refused operation changed the reference ledger".into(),
                                );
                            }
                        }
                        let reset = match sc2.reset {
                            ResetMode::Every => true,
                            ResetMode::Some(k) => reset_rng.chance(1, k as u64),
                            ResetMode::End => false,
                        };
                        quiescent(&sh2, reset, &format!("after operation {} of phase {}", oi, pi));
                        if reset {
                            hist2.lock().unwrap().push("reset_max()".into());
                        }
                        if sh2.ledger.lock().unwrap().violation.is_some() {
                            return;
                        }
                    }
                } else {
                    let mut tids = Vec::new();
                    for (ti, ops) in phase.iter().enumerate() {
                        let sh3 = sh2.clone();
                        let ops = ops.clone();
                        let hist3 = hist2.clone();
                        let tid = w2.spawn_thread(
                            &format!("caller{}", ti),
                            Box::new(move || {
                                for op in &ops {
                                    if sh3.ledger.lock().unwrap().violation.is_some() {
                                        return;
                                    }
                                    let text = do_op(&sh3, op, ti + 1);
                                    hist3.lock().unwrap().push(text);
                                }
                            }),
                        );
                        tids.push(tid);
                    }
                    w2.join_threads(tids).await;
                    let reset = match sc2.reset {
                        ResetMode::Every => true,
                        ResetMode::Some(k) => reset_rng.chance(1, k as u64),
                        ResetMode::End => false,
                    };
                    quiescent(&sh2, reset, &format!("after joining phase {}", pi));
                    if reset {
                        hist2.lock().unwrap().push("reset_max()".into());
                    }
                    if sh2.ledger.lock().unwrap().violation.is_some() {
                        return;
                    }
                }
            }
            // A change of the limit between operations must leave the recorded
            // peak alone (seeded change c19-r7b: set_limit clamped it). Nothing
            // is allocated while the limit is lowered, so the ledger is not
            // involved; on code whose set_limit only stores the limit this
            // cannot fire.
            {
                let hw = sh2.ledger.lock().unwrap().hw;
                sh2.alloc.set_limit(hw / 2);
                let peak = sh2.alloc.get_max();
                sh2.alloc.set_limit(sc2.limit as usize);
                hist2.lock().unwrap().push(format!("set_limit({}); get_max(); set_limit({})", hw / 2, sc2.limit));
                if peak < hw {
                    sh2.ledger.lock().unwrap().fail(
                        "peak-under-reported",
                        format!(
                            "at the end of the history, after set_limit({}): get_max() = {} but completed live allocations reached {} since the last reset",
                            hw / 2, peak, hw
                        ),
                    );
                    return;
                }
            }
            // End of history: exact usage, then release everything and expect zero.
            quiescent(&sh2, true, "at the end of the history");
            loop {
                let b = sh2.ledger.lock().unwrap().take(0);
                match b {
                    Some(b) => unsafe {
                        sh2.alloc
                            .dealloc(b.ptr as *mut u8, Layout::from_size_align(b.size, b.align).unwrap())
                    },
                    None => break,
                }
            }
            quiescent(&sh2, true, "after freeing every block");
        };
        let (report, _) = world.run(main);
        // Whatever happened, memory still held (violation paths) and everything
        // in quarantine goes back to the system now.
        let anomalies = simkit::shim::alloc::registry_end();
        let l = sh.ledger.lock().unwrap();
        let mut violation = l.violation.clone();
        if violation.is_none() {
            if let Some(a) = anomalies.first() {
                violation = Some(Violation {
                    clause: "block-released-twice".into(),
                    detail: format!("{} ({} such request(s) in this history)", a, anomalies.len()),
                });
            }
        }
        if violation.is_none() && report.end != RunEnd::Completed {
            violation = Some(Violation {
                clause: "did-not-finish".into(),
                detail: format!("history did not complete: {:?}", report.end),
            });
        }
        let mut stats = report.stats.clone();
        let mut bump = |k: &str, n: u64| {
            if n > 0 {
                *stats.entry(k.to_string()).or_insert(0) += n;
            }
        };
        bump("op_succeeded", l.succeeded);
        bump("op_refused_over_limit", l.refused_by_limit);
        bump("op_refused_conservative_or_parent", l.refused_conservative);
        bump("ops", l.ops_done);
        if concurrent {
            bump("concurrent_histories", 1);
            bump(
                &format!("threads_{}", sc.phases.iter().map(|p| p.len()).max().unwrap_or(0)),
                1,
            );
        } else {
            bump("sequential_histories", 1);
            if sc.ops() > 6 {
                bump("long_sequential_histories", 1);
            }
        }
        let _ = l.refused_by_parent;
        let history = history.lock().unwrap().clone();
        let faulted = l.refused_by_limit + l.refused_conservative > 0;
        Outcome {
            violation,
            digest: report.digest,
            choices: report.choices,
            stats,
            sim_ns: report.sim_ns,
            history: if history.len() > 40 {
                let mut h = history[..20].to_vec();
                h.push(format!("... {} more ...", history.len() - 40));
                h.extend_from_slice(&history[history.len() - 20..]);
                h
            } else {
                history
            },
            nontrivial: faulted || (concurrent && report.nonzero_choices > 0) || l.succeeded > 1,
            log: report.log,
        }
    }

    fn shrink(&self, sc: &Scenario) -> Vec<Scenario> {
        let mut out = Vec::new();
        if let Some(h) = &sc.sandbox_holds {
            if h.len() > 1 {
                for i in 0..h.len() {
                    let mut c = sc.clone();
                    c.sandbox_holds.as_mut().unwrap().remove(i);
                    out.push(c);
                }
            }
            if sc.policy != Policy::Sticky(8) {
                let mut c = sc.clone();
                c.policy = Policy::Sticky(8);
                out.push(c);
            }
            return out;
        }
        // drop phases
        if sc.phases.len() > 1 {
            for i in 0..sc.phases.len() {
                let mut c = sc.clone();
                c.phases.remove(i);
                out.push(c);
            }
        }
        // drop threads
        for (pi, p) in sc.phases.iter().enumerate() {
            if p.len() > 1 {
                for ti in 0..p.len() {
                    let mut c = sc.clone();
                    c.phases[pi].remove(ti);
                    out.push(c);
                }
            }
        }
        // drop operations: halves first for long histories, then singles
        for (pi, p) in sc.phases.iter().enumerate() {
            for (ti, t) in p.iter().enumerate() {
                if t.len() > 8 {
                    let mut c = sc.clone();
                    c.phases[pi][ti].truncate(t.len() / 2);
                    out.push(c);
                    let mut c = sc.clone();
                    c.phases[pi][ti].drain(..t.len() / 2);
                    out.push(c);
                }
                if t.len() > 1 && t.len() <= 64 {
                    for oi in 0..t.len() {
                        let mut c = sc.clone();
                        c.phases[pi][ti].remove(oi);
                        out.push(c);
                    }
                }
            }
        }
        // simpler operations / sizes
        for (pi, p) in sc.phases.iter().enumerate() {
            for (ti, t) in p.iter().enumerate() {
                if t.len() > 64 {
                    continue;
                }
                for (oi, op) in t.iter().enumerate() {
                    let mut alts: Vec<OpSpec> = Vec::new();
                    match op {
                        OpSpec::AllocZeroed { size, align } => alts.push(OpSpec::Alloc {
                            size: *size,
                            align: *align,
                        }),
                        OpSpec::Alloc { size, align } => {
                            if *align != 1 {
                                alts.push(OpSpec::Alloc { size: *size, align: 1 });
                            }
                            if *size > 8 {
                                alts.push(OpSpec::Alloc { size: 8, align: *align });
                            }
                        }
                        OpSpec::Realloc { slot, new_size } => {
                            if *slot != 0 {
                                alts.push(OpSpec::Realloc {
                                    slot: 0,
                                    new_size: *new_size,
                                });
                            }
                            if *new_size > 64 {
                                alts.push(OpSpec::Realloc {
                                    slot: *slot,
                                    new_size: 64,
                                });
                            }
                        }
                        OpSpec::Dealloc { slot } => {
                            if *slot != 0 {
                                alts.push(OpSpec::Dealloc { slot: 0 });
                            }
                        }
                    }
                    for a in alts {
                        let mut c = sc.clone();
                        c.phases[pi][ti][oi] = a;
                        out.push(c);
                    }
                }
            }
        }
        if sc.alloc_fail_pct != 0 {
            let mut c = sc.clone();
            c.alloc_fail_pct = 0;
            out.push(c);
        }
        if sc.reset != ResetMode::End {
            let mut c = sc.clone();
            c.reset = ResetMode::End;
            out.push(c);
        }
        if sc.policy != Policy::Sticky(8) {
            let mut c = sc.clone();
            c.policy = Policy::Sticky(8);
            out.push(c);
        }
        out
    }

    fn key(&self, sc: &Scenario) -> String {
        if let Some(h) = &sc.sandbox_holds {
            return format!("sandbox-holds:{}", h.len());
        }
        if giant(sc.limit) && sc.limit != u64::MAX && sc.concurrent() {
            // One cause whatever the operations are: requests that each fit such a
            // limit, in flight together, add up to more than 2^64.
            return "concurrent-requests-under-a-limit-of-2^60-or-more".into();
        }
        let mut parts = Vec::new();
        for p in &sc.phases {
            let mut ts = Vec::new();
            for t in p {
                ts.push(
                    t.iter()
                        .map(|o| match o {
                            OpSpec::Alloc { .. } => "alloc",
                            OpSpec::AllocZeroed { .. } => "alloc_zeroed",
                            OpSpec::Realloc { .. } => "realloc",
                            OpSpec::Dealloc { .. } => "dealloc",
                        })
                        .collect::<Vec<_>>()
                        .join(","),
                );
            }
            parts.push(ts.join("|"));
        }
        parts.join(";")
    }

    fn label(&self, sc: &Scenario) -> String {
        if sc.sandbox_holds.is_some() {
            "peak-reported-through-sandbox".into()
        } else if sc.concurrent() && giant(sc.limit) {
            "concurrent-giant-limit".into()
        } else if sc.concurrent() {
            "concurrent".into()
        } else if sc.ops() > 6 {
            "sequential-long".into()
        } else {
            "sequential-short".into()
        }
    }

    fn rule(&self) -> String {
        "The first run indices of a batch enumerate every sequential history of length 1..3 (limit 64) and 1..4 (limit 1000; thorough: 1..5) over 22 operations \
         (alloc/alloc_zeroed x 5 sizes, realloc of block 0|1 x 5 sizes, dealloc of block 0|1; sizes 1, 8, L/2, L, L+1), checked after every operation; all later indices are random: \
         one evaluation = one seeded operation history against a private real Alloc::new(limit), limit in {64,1000,4096,2^20} \
         (one concurrent history in eight and one sequential in 256: a limit beyond any machine - usize::MAX, isize::MAX, 2^63-2^19, 2^62-2^18 - \
         with sizes {1,8,24,64,4096,1 MiB,1.5 MiB,L/3,L/2,L/2+1,L-1,L,L+1} capped at what a Layout accepts), \
         sizes from {1,8,24,L/3,L/2,L/2+1,L-1,L,L+1,random, and (1 in 14) close to isize::MAX}, ops alloc/alloc_zeroed/realloc(up/down)/dealloc, checked against a \
         reference ledger. 7 of 8 runs are sequential (1..6 ops, 1 in 64 of them 50..200; thorough 1 in 16 with 50..500), checked after every operation; 1 of 8 is \
         concurrent: 1..2 phases of 2..4 (thorough up to 16) controlled threads with 1..6 ops each, every atomic operation of \
         alloc.rs a scheduling point under a seeded policy, joined and checked at each quiescent point. The parent allocator refuses \
         with a per-run probability (0/5/25%); it keeps a registry of the blocks it handed out and a quarantine of those given back, so a block \
         released behind its owner's back or released twice is a verdict. Non-trivial = at least one refusal, or more than one successful operation, or (concurrent) \
         at least one non-default scheduling decision; distinct = distinct digest of (scenario, every scheduling step, every atomic \
         operation, every operation outcome)."
            .into()
    }

    fn assumptions(&self) -> Vec<String> {
        vec![
            "Sequential consistency only: one thread runs at a time, so orderings weaker than SC are not explored; every invariant is about one atomic's RMW sequence or is evaluated after a join".into(),
            "reset_max()/get_max() are issued only at quiescent points (as child.rs does); a reset concurrent with operations is outside the property's alphabet".into(),
            "'succeeds only if within the limit' is one-directional: conservative refusals (realloc charging old+new, racing requests both refused) are counted, not flagged".into(),
            "Zero-size layouts are excluded (outside GlobalAlloc's contract)".into(),
            "Seeded sampling: a clean batch is evidence, not proof".into(),
        ]
    }

    fn real_vs_stub(&self) -> serde_json::Value {
        serde_json::json!({
            "sandbox/src/alloc.rs (Alloc::new, GlobalAlloc impl, reset_max, get_max)": "real",
            "std atomics": "real, behind a scheduling point before each operation",
            "System allocator": "real, behind a fault point that can refuse",
            "caller threads": "real OS threads released one at a time by the simulator",
        })
    }

    fn expected_probes(&self) -> Vec<&'static str> {
        vec![
            "op_refused_over_limit",
            "op_refused_conservative_or_parent",
            "parent_alloc_refused",
            "concurrent_histories",
            "sequential_histories",
            "sandbox_peak_conversations",
            "context_switch_forced",
        ]
    }
}
