//! Harness binary for the sandbox crate: C18 (parent/child conversation) and
//! C19 (allocator accounting).  usage: h-sandbox <C18|C19> <master|worker|replay|digests|one> [...]

mod c18;
mod c19;

fn main() {
    let args: Vec<String> = std::env::args().collect();
    if args.len() < 3 {
        eprintln!("usage: h-sandbox <C18|C19> <master|worker|replay|digests|one> [--tier ..] [--seed ..]");
        std::process::exit(2);
    }
    let code = match args[1].as_str() {
        "C18" => simkit::runner::main_for(&c18::C18, &args[2], &args[3..]),
        "C19" => simkit::runner::main_for(&c19::C19, &args[2], &args[3..]),
        other => {
            eprintln!("unknown property {}", other);
            2
        }
    };
    std::process::exit(code);
}
