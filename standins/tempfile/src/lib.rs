//! Stand-in for `tempfile` 3: `Builder`, `NamedTempFile`, `TempPath`,
//! `tempfile()`/`tempfile_in()` over the simulated file system.
//!
//! Behaviours taken from tempfile 3.10.1 (file/mod.rs, file/imp/unix.rs):
//! a named temp file is created with O_EXCL under a random name and retried
//! on collision; `persist` is `rename(2)` (replacing); `persist_noclobber`
//! refuses an existing target; dropping a `NamedTempFile`/`TempPath` removes
//! the file, ignoring errors; the default directory is `env::temp_dir()`,
//! which the simulated machine mounts as a different file system.

use simkit::machine::{self as mach, OpKind, OpenHow};
use simkit::shim::fs::File;
use std::ffi::{OsStr, OsString};
use std::io::{self, Read, Seek, SeekFrom, Write};
use std::path::{Path, PathBuf};

pub fn env_temp_dir() -> PathBuf {
    PathBuf::from("/tmp")
}

#[derive(Debug, Clone)]
pub struct Builder<'a, 'b> {
    prefix: &'a OsStr,
    suffix: &'b OsStr,
    random_len: usize,
    append: bool,
}

impl Default for Builder<'_, '_> {
    fn default() -> Self {
        Builder {
            prefix: OsStr::new(".tmp"),
            suffix: OsStr::new(""),
            random_len: 6,
            append: false,
        }
    }
}

impl<'a, 'b> Builder<'a, 'b> {
    pub fn new() -> Self {
        Self::default()
    }
    pub fn prefix<S: AsRef<OsStr> + ?Sized>(&mut self, prefix: &'a S) -> &mut Self {
        self.prefix = prefix.as_ref();
        self
    }
    pub fn suffix<S: AsRef<OsStr> + ?Sized>(&mut self, suffix: &'b S) -> &mut Self {
        self.suffix = suffix.as_ref();
        self
    }
    pub fn rand_bytes(&mut self, n: usize) -> &mut Self {
        self.random_len = n;
        self
    }
    pub fn append(&mut self, v: bool) -> &mut Self {
        self.append = v;
        self
    }
    pub fn tempfile(&self) -> io::Result<NamedTempFile> {
        self.tempfile_in(env_temp_dir())
    }
    pub fn tempfile_in<P: AsRef<Path>>(&self, dir: P) -> io::Result<NamedTempFile> {
        let dir = dir.as_ref();
        for _ in 0..64 {
            let name = mach::temp_name(
                &self.prefix.to_string_lossy(),
                &self.suffix.to_string_lossy(),
                self.random_len,
            );
            let path = dir.join(name);
            let how = OpenHow {
                read: true,
                write: true,
                create_new: true,
                append: self.append,
                ..Default::default()
            };
            match File::open_how(&path, how, OpKind::CreateTemp) {
                Ok(file) => {
                    return Ok(NamedTempFile {
                        path: TempPath {
                            path: mach::norm(&path),
                            armed: true,
                        },
                        file,
                    })
                }
                Err(e) if e.kind() == io::ErrorKind::AlreadyExists => continue,
                Err(e) => return Err(e),
            }
        }
        Err(io::Error::new(
            io::ErrorKind::AlreadyExists,
            "too many temporary files exist",
        ))
    }
}

#[derive(Debug)]
pub struct TempPath {
    path: PathBuf,
    armed: bool,
}

impl TempPath {
    /// Take over an existing path: it is removed when the value is dropped.
    pub fn from_path(path: impl Into<PathBuf>) -> TempPath {
        TempPath {
            path: path.into(),
            armed: true,
        }
    }
    pub fn close(mut self) -> io::Result<()> {
        self.armed = false;
        mach::fs_unlink(&self.path)
    }
    pub fn persist<P: AsRef<Path>>(mut self, new_path: P) -> Result<(), PathPersistError> {
        match mach::fs_rename(&self.path, new_path.as_ref(), false) {
            Ok(()) => {
                self.armed = false;
                Ok(())
            }
            Err(error) => Err(PathPersistError { error, path: self }),
        }
    }
    pub fn persist_noclobber<P: AsRef<Path>>(mut self, new_path: P) -> Result<(), PathPersistError> {
        match mach::fs_rename(&self.path, new_path.as_ref(), true) {
            Ok(()) => {
                self.armed = false;
                Ok(())
            }
            Err(error) => Err(PathPersistError { error, path: self }),
        }
    }
    pub fn keep(mut self) -> Result<PathBuf, PathPersistError> {
        self.armed = false;
        Ok(self.path.clone())
    }
}

impl std::ops::Deref for TempPath {
    type Target = Path;
    fn deref(&self) -> &Path {
        &self.path
    }
}

impl AsRef<Path> for TempPath {
    fn as_ref(&self) -> &Path {
        &self.path
    }
}

impl Drop for TempPath {
    fn drop(&mut self) {
        if self.armed {
            let _ = mach::fs_unlink(&self.path);
        }
    }
}

#[derive(Debug)]
pub struct PathPersistError {
    pub error: io::Error,
    pub path: TempPath,
}

impl std::fmt::Display for PathPersistError {
    fn fmt(&self, f: &mut std::fmt::Formatter<'_>) -> std::fmt::Result {
        write!(f, "failed to persist temporary file path: {}", self.error)
    }
}
impl std::error::Error for PathPersistError {}
impl From<PathPersistError> for io::Error {
    fn from(e: PathPersistError) -> io::Error {
        io::Error::new(e.error.kind(), e)
    }
}

#[derive(Debug)]
pub struct NamedTempFile {
    path: TempPath,
    file: File,
}

#[derive(Debug)]
pub struct PersistError {
    pub error: io::Error,
    pub file: NamedTempFile,
}

impl std::fmt::Display for PersistError {
    fn fmt(&self, f: &mut std::fmt::Formatter<'_>) -> std::fmt::Result {
        write!(f, "failed to persist temporary file: {}", self.error)
    }
}
impl std::error::Error for PersistError {
    fn source(&self) -> Option<&(dyn std::error::Error + 'static)> {
        Some(&self.error)
    }
}
impl From<PersistError> for io::Error {
    fn from(e: PersistError) -> io::Error {
        io::Error::new(e.error.kind(), e.error.to_string())
    }
}
impl From<PersistError> for NamedTempFile {
    fn from(e: PersistError) -> NamedTempFile {
        e.file
    }
}

impl NamedTempFile {
    pub fn new() -> io::Result<NamedTempFile> {
        Builder::new().tempfile()
    }
    pub fn new_in<P: AsRef<Path>>(dir: P) -> io::Result<NamedTempFile> {
        Builder::new().tempfile_in(dir)
    }
    pub fn with_prefix<S: AsRef<OsStr>>(prefix: S) -> io::Result<NamedTempFile> {
        Builder::new().prefix(&prefix).tempfile()
    }
    pub fn with_prefix_in<S: AsRef<OsStr>, P: AsRef<Path>>(prefix: S, dir: P) -> io::Result<NamedTempFile> {
        Builder::new().prefix(&prefix).tempfile_in(dir)
    }
    pub fn path(&self) -> &Path {
        &self.path.path
    }
    pub fn as_file(&self) -> &File {
        &self.file
    }
    pub fn as_file_mut(&mut self) -> &mut File {
        &mut self.file
    }
    pub fn into_file(self) -> File {
        // The path is removed (TempPath drop), the open handle stays usable.
        self.file
    }
    pub fn into_temp_path(self) -> TempPath {
        self.path
    }
    pub fn into_parts(self) -> (File, TempPath) {
        (self.file, self.path)
    }
    pub fn from_parts(file: File, path: TempPath) -> NamedTempFile {
        NamedTempFile { path, file }
    }
    pub fn reopen(&self) -> io::Result<File> {
        File::options().read(true).write(true).open(&self.path.path)
    }
    pub fn close(self) -> io::Result<()> {
        self.path.close()
    }
    pub fn persist<P: AsRef<Path>>(self, new_path: P) -> Result<File, PersistError> {
        let NamedTempFile { path, file } = self;
        match path.persist(new_path) {
            Ok(()) => Ok(file),
            Err(PathPersistError { error, path }) => Err(PersistError {
                error,
                file: NamedTempFile { path, file },
            }),
        }
    }
    pub fn persist_noclobber<P: AsRef<Path>>(self, new_path: P) -> Result<File, PersistError> {
        let NamedTempFile { path, file } = self;
        match path.persist_noclobber(new_path) {
            Ok(()) => Ok(file),
            Err(PathPersistError { error, path }) => Err(PersistError {
                error,
                file: NamedTempFile { path, file },
            }),
        }
    }
    pub fn keep(self) -> Result<(File, PathBuf), PersistError> {
        let NamedTempFile { path, file } = self;
        match path.keep() {
            Ok(p) => Ok((file, p)),
            Err(PathPersistError { error, path }) => Err(PersistError {
                error,
                file: NamedTempFile { path, file },
            }),
        }
    }
}

impl Read for NamedTempFile {
    fn read(&mut self, buf: &mut [u8]) -> io::Result<usize> {
        self.file.read(buf)
    }
}
impl Read for &NamedTempFile {
    fn read(&mut self, buf: &mut [u8]) -> io::Result<usize> {
        (&self.file).read(buf)
    }
}
impl Write for NamedTempFile {
    fn write(&mut self, buf: &[u8]) -> io::Result<usize> {
        self.file.write(buf)
    }
    fn flush(&mut self) -> io::Result<()> {
        Ok(())
    }
}
impl Write for &NamedTempFile {
    fn write(&mut self, buf: &[u8]) -> io::Result<usize> {
        (&self.file).write(buf)
    }
    fn flush(&mut self) -> io::Result<()> {
        Ok(())
    }
}
impl Seek for NamedTempFile {
    fn seek(&mut self, pos: SeekFrom) -> io::Result<u64> {
        self.file.seek(pos)
    }
}
impl Seek for &NamedTempFile {
    fn seek(&mut self, pos: SeekFrom) -> io::Result<u64> {
        (&self.file).seek(pos)
    }
}

/// An anonymous temporary file: created and unlinked at once.
pub fn tempfile() -> io::Result<File> {
    tempfile_in(env_temp_dir())
}

pub fn tempfile_in<P: AsRef<Path>>(dir: P) -> io::Result<File> {
    let t = Builder::new().tempfile_in(dir)?;
    Ok(t.into_file())
}

#[allow(dead_code)]
fn _unused(_: OsString) {}
