//! Stand-in for `dirs` 4: the XDG directories of the simulated machine.
use std::path::PathBuf;

pub fn cache_dir() -> Option<PathBuf> {
    simkit::machine::with(|m| m.cache_dir.clone())
}
pub fn config_dir() -> Option<PathBuf> {
    simkit::machine::with(|m| m.config_dir.clone())
}
pub fn home_dir() -> Option<PathBuf> {
    Some(PathBuf::from("/home/u"))
}
pub fn data_dir() -> Option<PathBuf> {
    Some(PathBuf::from("/home/u/.local/share"))
}
pub fn data_local_dir() -> Option<PathBuf> {
    data_dir()
}
pub fn config_local_dir() -> Option<PathBuf> {
    config_dir()
}
pub fn state_dir() -> Option<PathBuf> {
    Some(PathBuf::from("/home/u/.local/state"))
}
pub fn runtime_dir() -> Option<PathBuf> {
    None
}
