//! Stand-in for `curl` 0.4: the subset of `curl::easy` that a currency
//! downloader plausibly uses, backed by simkit's scripted HTTP server.
//!
//! libcurl behaviours reproduced (each is what the real library does):
//! * the body of a non-2xx response is delivered to the write callback unless
//!   `fail_on_error(true)` was set (then: error 22, nothing delivered);
//! * a callback that returns a count different from the chunk length aborts
//!   the transfer with error 23 (CURLE_WRITE_ERROR);
//! * a callback that returns `Pause` pauses the transfer; nothing unpauses it
//!   here, so it ends with error 28 at the timeout (or never, without one);
//! * a body shorter than its Content-Length ends with error 18; a reset
//!   connection with error 56; a refused connection with 7; DNS failure 6;
//! * `timeout` bounds the whole transfer (error 28).

use simkit::machine::{self as mach, OpKind, Server, StepResult};
use std::cell::RefCell;
use std::time::Duration;

#[derive(Debug, Clone)]
pub struct Error {
    code: u32,
    extra: Option<String>,
}

impl Error {
    pub fn new(code: u32) -> Error {
        Error { code, extra: None }
    }
    fn with(code: u32, extra: String) -> Error {
        Error {
            code,
            extra: Some(extra),
        }
    }
    pub fn code(&self) -> u32 {
        self.code
    }
    pub fn description(&self) -> &str {
        match self.code {
            6 => "Couldn't resolve host name",
            7 => "Couldn't connect to server",
            18 => "Transferred a partial file",
            22 => "HTTP response code said error",
            23 => "Failed writing received data to disk/application",
            28 => "Timeout was reached",
            47 => "Number of redirects hit maximum amount",
            56 => "Failure when receiving data from the peer",
            _ => "Unknown error",
        }
    }
    pub fn extra_description(&self) -> Option<&str> {
        self.extra.as_deref()
    }
    pub fn is_operation_timedout(&self) -> bool {
        self.code == 28
    }
    pub fn is_couldnt_connect(&self) -> bool {
        self.code == 7
    }
    pub fn is_couldnt_resolve_host(&self) -> bool {
        self.code == 6
    }
    pub fn is_partial_file(&self) -> bool {
        self.code == 18
    }
    pub fn is_write_error(&self) -> bool {
        self.code == 23
    }
    pub fn is_recv_error(&self) -> bool {
        self.code == 56
    }
    pub fn is_http_returned_error(&self) -> bool {
        self.code == 22
    }
}

impl std::fmt::Display for Error {
    fn fmt(&self, f: &mut std::fmt::Formatter<'_>) -> std::fmt::Result {
        match &self.extra {
            Some(e) => write!(f, "[{}] {} ({})", self.code, self.description(), e),
            None => write!(f, "[{}] {}", self.code, self.description()),
        }
    }
}

impl std::error::Error for Error {}

impl From<Error> for std::io::Error {
    fn from(e: Error) -> std::io::Error {
        std::io::Error::new(std::io::ErrorKind::Other, e)
    }
}

pub fn init() {}

pub mod easy {
    use super::*;

    #[derive(Debug, Clone, Copy, PartialEq, Eq)]
    #[non_exhaustive]
    pub enum WriteError {
        Pause,
    }

    #[derive(Debug, Clone, Copy, PartialEq, Eq)]
    #[non_exhaustive]
    pub enum ReadError {
        Abort,
        Pause,
    }

    #[derive(Debug, Default, Clone)]
    pub struct List {
        items: Vec<String>,
    }

    impl List {
        pub fn new() -> List {
            List::default()
        }
        pub fn append(&mut self, data: &str) -> Result<(), Error> {
            self.items.push(data.to_string());
            Ok(())
        }
    }

    type WriteFn<'a> = Box<dyn FnMut(&[u8]) -> Result<usize, WriteError> + 'a>;

    #[derive(Default)]
    struct Opts {
        url: Option<String>,
        timeout: Option<Duration>,
        connect_timeout: Option<Duration>,
        follow_location: bool,
        fail_on_error: bool,
        max_filesize: Option<u64>,
        /// Request headers set with `http_headers`.
        headers: Vec<String>,
    }

    #[derive(Default)]
    struct Info {
        response_code: u32,
        downloaded: u64,
        content_length: Option<u64>,
    }

    pub struct Easy {
        opts: Opts,
        // As in the real crate, callbacks and transfer info sit behind interior
        // mutability because `perform` takes `&self`.
        write: RefCell<Option<Box<dyn FnMut(&[u8]) -> Result<usize, WriteError> + Send + 'static>>>,
        header: RefCell<Option<Box<dyn FnMut(&[u8]) -> bool + Send + 'static>>>,
        info: RefCell<Info>,
    }

    impl std::fmt::Debug for Easy {
        fn fmt(&self, f: &mut std::fmt::Formatter<'_>) -> std::fmt::Result {
            write!(f, "Easy({:?})", self.opts.url)
        }
    }

    impl Default for Easy {
        fn default() -> Self {
            Easy::new()
        }
    }

    impl Easy {
        pub fn new() -> Easy {
            Easy {
                opts: Opts::default(),
                write: RefCell::new(None),
                header: RefCell::new(None),
                info: RefCell::new(Info::default()),
            }
        }
        pub fn url(&mut self, url: &str) -> Result<(), Error> {
            self.opts.url = Some(url.to_string());
            Ok(())
        }
        pub fn useragent(&mut self, _ua: &str) -> Result<(), Error> {
            Ok(())
        }
        pub fn timeout(&mut self, d: Duration) -> Result<(), Error> {
            // The curl crate passes whole milliseconds (CURLOPT_TIMEOUT_MS), and to
            // libcurl 0 means "no timeout": anything below 1 ms is no timeout at all.
            self.opts.timeout = if d.as_millis() == 0 { None } else { Some(d) };
            Ok(())
        }
        pub fn connect_timeout(&mut self, d: Duration) -> Result<(), Error> {
            self.opts.connect_timeout = if d.as_millis() == 0 { None } else { Some(d) };
            Ok(())
        }
        pub fn low_speed_limit(&mut self, _l: u32) -> Result<(), Error> {
            Ok(())
        }
        pub fn low_speed_time(&mut self, _d: Duration) -> Result<(), Error> {
            Ok(())
        }
        pub fn follow_location(&mut self, v: bool) -> Result<(), Error> {
            self.opts.follow_location = v;
            Ok(())
        }
        pub fn max_redirections(&mut self, _n: u32) -> Result<(), Error> {
            Ok(())
        }
        pub fn fail_on_error(&mut self, v: bool) -> Result<(), Error> {
            self.opts.fail_on_error = v;
            Ok(())
        }
        pub fn max_filesize(&mut self, n: u64) -> Result<(), Error> {
            self.opts.max_filesize = Some(n);
            Ok(())
        }
        pub fn get(&mut self, _v: bool) -> Result<(), Error> {
            Ok(())
        }
        pub fn http_headers(&mut self, l: List) -> Result<(), Error> {
            self.opts.headers = l.items;
            Ok(())
        }
        pub fn accept_encoding(&mut self, _e: &str) -> Result<(), Error> {
            Ok(())
        }
        pub fn ssl_verify_peer(&mut self, _v: bool) -> Result<(), Error> {
            Ok(())
        }
        pub fn ssl_verify_host(&mut self, _v: bool) -> Result<(), Error> {
            Ok(())
        }
        pub fn verbose(&mut self, _v: bool) -> Result<(), Error> {
            Ok(())
        }
        pub fn progress(&mut self, _v: bool) -> Result<(), Error> {
            Ok(())
        }
        pub fn signal(&mut self, _v: bool) -> Result<(), Error> {
            Ok(())
        }
        pub fn buffer_size(&mut self, _n: usize) -> Result<(), Error> {
            Ok(())
        }
        pub fn tcp_keepalive(&mut self, _v: bool) -> Result<(), Error> {
            Ok(())
        }
        pub fn write_function<F>(&mut self, f: F) -> Result<(), Error>
        where
            F: FnMut(&[u8]) -> Result<usize, WriteError> + Send + 'static,
        {
            *self.write.borrow_mut() = Some(Box::new(f));
            Ok(())
        }
        pub fn header_function<F>(&mut self, f: F) -> Result<(), Error>
        where
            F: FnMut(&[u8]) -> bool + Send + 'static,
        {
            *self.header.borrow_mut() = Some(Box::new(f));
            Ok(())
        }
        pub fn response_code(&mut self) -> Result<u32, Error> {
            Ok(self.info.borrow().response_code)
        }
        pub fn content_length_download(&mut self) -> Result<f64, Error> {
            Ok(self.info.borrow().content_length.map(|v| v as f64).unwrap_or(-1.0))
        }
        pub fn download_size(&mut self) -> Result<f64, Error> {
            Ok(self.info.borrow().downloaded as f64)
        }
        pub fn effective_url(&mut self) -> Result<Option<&str>, Error> {
            Ok(self.opts.url.as_deref())
        }
        pub fn reset(&mut self) {
            *self = Easy::new();
        }

        pub fn perform(&self) -> Result<(), Error> {
            let mut w = self.write.borrow_mut();
            let mut h = self.header.borrow_mut();
            let mut wf: Option<WriteFn<'_>> = match w.as_mut() {
                Some(f) => Some(Box::new(move |d: &[u8]| f(d))),
                None => None,
            };
            let mut hf: Option<Box<dyn FnMut(&[u8]) -> bool + '_>> = match h.as_mut() {
                Some(f) => Some(Box::new(move |d: &[u8]| f(d))),
                None => None,
            };
            run_transfer(&self.opts, wf.as_mut(), hf.as_mut(), &self.info)
        }

        pub fn transfer(&mut self) -> Transfer<'_, '_> {
            Transfer {
                easy: self,
                write: None,
                header: None,
            }
        }
    }

    pub struct Transfer<'easy, 'data> {
        easy: &'easy mut Easy,
        write: Option<WriteFn<'data>>,
        header: Option<Box<dyn FnMut(&[u8]) -> bool + 'data>>,
    }

    impl<'easy, 'data> Transfer<'easy, 'data> {
        pub fn write_function<F>(&mut self, f: F) -> Result<(), Error>
        where
            F: FnMut(&[u8]) -> Result<usize, WriteError> + 'data,
        {
            self.write = Some(Box::new(f));
            Ok(())
        }
        pub fn header_function<F>(&mut self, f: F) -> Result<(), Error>
        where
            F: FnMut(&[u8]) -> bool + 'data,
        {
            self.header = Some(Box::new(f));
            Ok(())
        }
        pub fn perform(&mut self) -> Result<(), Error> {
            let e = &*self.easy;
            run_transfer(&e.opts, self.write.as_mut(), self.header.as_mut(), &e.info)
        }
    }

    fn advance(ns: u64) {
        mach::with(|m| m.clock_ns = m.clock_ns.saturating_add(ns));
    }

    /// Stall until the configured timeout; without one the process hangs.
    fn stall(opts: &Opts, elapsed_ns: u64, received: u64) -> Error {
        match opts.timeout {
            Some(t) => {
                let t_ns = t.as_nanos() as u64;
                advance(t_ns.saturating_sub(elapsed_ns));
                mach::with(|m| {
                    m.stat("http_timeout");
                    m.event("http_timeout", received, 0);
                });
                Error::with(
                    28,
                    format!(
                        "Operation timed out after {} milliseconds with {} bytes received",
                        t.as_millis(),
                        received
                    ),
                )
            }
            None => {
                // No timeout configured: the transfer never ends. The machine
                // records the hang and the "process" is stopped like a crash.
                mach::with(|m| {
                    m.hung = true;
                    m.stat("http_hang_without_timeout");
                    m.event("http_hang", received, 0);
                });
                advance(365 * 24 * 3600 * 1_000_000_000);
                let _ = mach::crash_now();
                Error::new(28)
            }
        }
    }

    fn run_transfer(
        opts: &Opts,
        mut write: Option<&mut WriteFn<'_>>,
        mut header: Option<&mut Box<dyn FnMut(&[u8]) -> bool + '_>>,
        info: &RefCell<Info>,
    ) -> Result<(), Error> {
        info.borrow_mut().downloaded = 0;
        // The connection attempt is a step: the process can be killed here.
        match mach::step(OpKind::HttpConnect, 0) {
            Err(_) => return Err(Error::new(7)),
            Ok(_) => {}
        }
        let server = mach::with(|m| {
            m.http.performed += 1;
            if m.server.is_empty() {
                Server::Refuse
            } else {
                m.server.remove(0)
            }
        });
        if opts.url.is_none() {
            return Err(Error::new(3));
        }
        let timeout_ns = opts.timeout.map(|t| t.as_nanos() as u64);
        let mut elapsed: u64 = 0;
        match server {
            Server::Refuse => {
                advance(200_000);
                mach::with(|m| {
                    m.stat("http_refused");
                    m.event("http_refused", 0, 0);
                });
                Err(Error::with(7, "Failed to connect: Connection refused".into()))
            }
            Server::DnsFail => {
                advance(1_000_000);
                mach::with(|m| {
                    m.stat("http_dns_fail");
                    m.event("http_dns", 0, 0);
                });
                Err(Error::with(6, "Could not resolve host".into()))
            }
            Server::Stall => Err(stall(opts, 0, 0)),
            Server::Respond {
                status,
                body,
                content_length: has_len,
                cut_after,
                reset,
                stall_after,
                latency_ns,
                max_chunk,
            } => {
                let mut data: Vec<u8> = mach::with(|m| m.bodies.get(&body).cloned().unwrap_or_default());
                // The simulated endpoint sends a validator with every 200 response and
                // honours If-None-Match, as the real one (and any CDN in front of it)
                // does: a client that claims to hold exactly this document is told 304
                // with no body.
                let etag = format!("\"doc-{}\"", body);
                let revalidated = status == 200
                    && opts.headers.iter().any(|h| {
                        let mut it = h.splitn(2, ':');
                        let name = it.next().unwrap_or("").trim();
                        let value = it.next().unwrap_or("").trim();
                        name.eq_ignore_ascii_case("if-none-match") && value == etag
                    });
                let status = if revalidated { 304 } else { status };
                if revalidated {
                    data.clear();
                    mach::with(|m| {
                        m.http.revalidated_304.push(body);
                        // "What you have is this document": for what a refresh must
                        // leave behind, as good as having been sent it.
                        m.http.completed_200_bodies.push(body);
                        m.stat("http_304_not_modified");
                    });
                }
                // first byte
                elapsed += latency_ns;
                if let Some(t) = timeout_ns {
                    if elapsed >= t {
                        return Err(stall(opts, 0, 0));
                    }
                }
                advance(latency_ns);
                {
                    let mut i = info.borrow_mut();
                    i.response_code = status;
                    i.content_length = if has_len { Some(data.len() as u64) } else { None };
                }
                mach::with(|m| m.event("http_status", status as u64, data.len() as u64));
                if let Some(h) = header.as_mut() {
                    let line = format!("HTTP/1.1 {} X\r\n", status);
                    if !h(line.as_bytes()) {
                        return Err(Error::new(23));
                    }
                    if has_len {
                        let line = format!("Content-Length: {}\r\n", data.len());
                        if !h(line.as_bytes()) {
                            return Err(Error::new(23));
                        }
                    }
                    if status == 200 || status == 304 {
                        let line = format!("ETag: {}\r\n", etag);
                        if !h(line.as_bytes()) {
                            return Err(Error::new(23));
                        }
                    }
                    let _ = h(b"\r\n");
                }
                if opts.fail_on_error && status >= 400 {
                    mach::with(|m| m.stat("http_fail_on_error"));
                    return Err(Error::with(
                        22,
                        format!("The requested URL returned error: {}", status),
                    ));
                }
                if let (Some(max), true) = (opts.max_filesize, has_len) {
                    if data.len() as u64 > max {
                        return Err(Error::new(63));
                    }
                }
                let end = cut_after
                    .map(|c| c as usize)
                    .unwrap_or(data.len())
                    .min(data.len());
                let stall_at = stall_after.map(|s| (s as usize).min(data.len()));
                let limit = match stall_at {
                    Some(s) => s.min(end),
                    None => end,
                };
                let mut off = 0usize;
                while off < limit {
                    let maxc = (max_chunk.max(1) as usize).min(16384).min(limit - off);
                    let n = mach::with(|m| {
                        if maxc > 1 {
                            // default: the largest chunk; otherwise a seeded smaller one
                            let less = m.chooser.pick_rare(maxc as u32, 1, 3) as usize;
                            maxc - less
                        } else {
                            1
                        }
                    });
                    elapsed += latency_ns / 4;
                    if let Some(t) = timeout_ns {
                        if elapsed >= t {
                            return Err(stall(opts, elapsed - latency_ns / 4, off as u64));
                        }
                    }
                    advance(latency_ns / 4);
                    match mach::step(OpKind::HttpChunk, n as u32) {
                        Err(_) => return Err(Error::new(23)),
                        Ok(StepResult::Fault(_)) => {
                            mach::with(|m| m.stat("http_reset_injected"));
                            return Err(Error::with(56, "Recv failure: Connection reset by peer".into()));
                        }
                        Ok(_) => {}
                    }
                    let chunk = &data[off..off + n];
                    if let Some(w) = write.as_mut() {
                        match w(chunk) {
                            Ok(k) if k == n => {}
                            Ok(k) => {
                                mach::with(|m| {
                                    m.stat("http_write_callback_short");
                                    m.event("http_cb_short", k as u64, n as u64);
                                });
                                return Err(Error::with(
                                    23,
                                    format!("Failure writing output to destination, passed {} returned {}", n, k),
                                ));
                            }
                            Err(WriteError::Pause) => {
                                mach::with(|m| {
                                    m.stat("http_write_callback_pause");
                                    m.event("http_cb_pause", off as u64, 0);
                                });
                                return Err(stall(opts, elapsed, off as u64));
                            }
                        }
                    }
                    off += n;
                    info.borrow_mut().downloaded = off as u64;
                }
                if let Some(s) = stall_at {
                    if s <= end && off >= s && s < data.len() {
                        return Err(stall(opts, elapsed, off as u64));
                    }
                }
                if end < data.len() {
                    // The connection ended early.
                    if reset {
                        mach::with(|m| {
                            m.stat("http_reset");
                            m.event("http_reset", off as u64, 0);
                        });
                        return Err(Error::with(56, "Recv failure: Connection reset by peer".into()));
                    }
                    if has_len {
                        mach::with(|m| {
                            m.stat("http_partial");
                            m.event("http_partial", off as u64, 0);
                        });
                        return Err(Error::with(
                            18,
                            format!(
                                "transfer closed with {} bytes remaining to read",
                                data.len() - off
                            ),
                        ));
                    }
                    // Close-delimited body cut by an orderly close: no client
                    // can tell; callers of the stand-in do not script this.
                }
                mach::with(|m| {
                    m.event("http_done", status as u64, off as u64);
                    m.stat("http_completed");
                    if status == 200 && end == data.len() {
                        m.http.completed_200_bodies.push(body);
                    } else if status == 200 {
                        m.http.cut_but_ok_200.push((body, off as u32));
                    }
                });
                Ok(())
            }
        }
    }
}
